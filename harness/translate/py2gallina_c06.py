#!/usr/bin/env python3
"""Source-derived model for properties C06 / C03: the level bookkeeping of the dimension-wise strategy
(sparseSpACE/spatiallyAdaptiveSingleDimension2.py) -> coq/Gen/DimWiseGen.v.

A thin front end of the shared translator harness/translate/py2gallina.py (imported, NOT modified; the target is registered in
memory only).  Translated (param mode, see NUM_DOC of the translator), all fail-closed:
    SpatiallyAdaptiveSingleDimensions2.modify_according_to_levelvec     (as it stands in the source)
    SpatiallyAdaptiveSingleDimensions2.get_max_level                    (after the OBJECT-VIEW desugaring below; two while loops with
                                                                         the declared fuel S (length refine_container_objects))
    SpatiallyAdaptiveSingleDimensions2.update_coarsening_values         (after the OBJECT-VIEW desugaring below)
The equivalence with the hand-written model (Model/DimWise.v: modify_according_to_levelvec, get_max_level; Model/RefTree.v:
update_coarsening; Model/DimWiseCache.v: the max_level_dict hit) is proved in Proofs/GenDimWiseEq.v, theorems in Props/C06gen.v.

What this front end adds to the shared translator:
  * DECLARED PARAMETER TYPES for unannotated parameters (a typing precondition exactly like an annotation in the source):
    modify_according_to_levelvec(subtraction_value: int, d: int, max_level: int, levelvec: List[int]),
    update_coarsening_values(d: int).
  * OBJECT VIEWS (a syntactic, fail-closed rewriting of the method's AST before translation).  The methods work on
    RefinementContainer / RefinementObjectSingleDimension objects, which live in other modules and are mutable, i.e. outside the
    subset.  The only things these methods do with them are: iterate / index `C.get_objects()`, take its len, read `.levels` of an
    element, and (update_coarsening_values) assign `.coarsening_level` of the loop element once per iteration and read it back.
    A refinement object is therefore VIEWED as its `levels` list, a container as the list of these:
        parameter C declared a container view   -> parameter  C_objects : List[Tuple[int, ...]];  C may only occur as C.get_objects(),
                                                   which becomes the name C_objects
        parameter x declared an object view      -> parameter  x : Tuple[int, ...]
        x = C_objects[e]  /  for x in C_objects  -> x is an object view from there on (element variable)
        x.levels  (x an object view)             -> x
        x.coarsening_level = e                   -> only as a top-level statement of the body of `for x in C_objects`, at most once:
                                                    x_coarsening_level = e ; C_coarsening_out.append(x_coarsening_level)
                                                    (C_coarsening_out = [] is inserted at the start of the function)
        x.coarsening_level  (after that)         -> x_coarsening_level
        return e   (in a function with a write)  -> return (e, C_coarsening_out)      the new coarsening levels are part of the result
    and, independent of the views, `break` (outside the shared subset) in the one shape the methods use:
        while c: A ; if p: break ; B             -> loop_goN = True ; while loop_goN and c: A ; if p: loop_goN = False else: B
    Any other use of a view (another attribute, passing it on, storing it, a second write, a write outside the loop, a name clash
    with the generated names) is rejected.  The reading is: the object state touched by the method is (levels, coarsening_level);
    `get_objects()` returns the container's list in container order (RefinementContainer.get_objects is `return
    self.refinementObjects`: checked structurally); this part is trusted like the translation scheme itself.
  * the dictionary self.max_level_dict keyed by the tuple (d, i): `tuple((d, i)) in self.max_level_dict` / `self.max_level_dict[tuple((d, i))]`
    are rewritten to the list operations on an association list  self_max_level_dict : list of [d, i, value]  (py_c06_dict_has /
    py_c06_dict_get in coq/Base/PyC06.v: first entry whose first two components are d and i).
SECOND TARGET (phase 4): sparseSpACE/RefinementContainer.py -> coq/Gen/RefContainerGen.v:  RefinementContainer.size and
RefinementContainer.get_next_object_for_refinement (the search of the margin selection loop), proved equal to Model/RefTree.v
cont_get_next in Proofs/GenRefContEq.v.  Rewritings of this target (fail-closed, by exact shape): the container's objects are viewed
as the list of their `benefit` values (self.refinementObjects[i].benefit -> self.refinementObjects[i]); `if c: x = A else: x = B` ->
`x = A if c else B`; the attribute write self.searchPosition = e becomes part of the result (searchPosition_out, initialised with the
attribute, appended to every returned value); `return found, i, obj` -> `(found, (i, searchPosition_out))` - the object itself is
dropped and the None in the index position of the not-found result is written -1; the local name `end` (a Gallina keyword) is
renamed end_v.
Usage: py2gallina_c06.py [--repo DIR] [--out FILE] [--stdout]      (VERIF_REPO is respected like in the shared translator)"""
import ast as _ast
import os
import sys

sys.path.insert(0, os.path.dirname(os.path.abspath(__file__)))
import py2gallina as P          # noqa: E402

TARGET = 'dimwise'
SRC = 'sparseSpACE/spatiallyAdaptiveSingleDimension2.py'
CLASS = 'SpatiallyAdaptiveSingleDimensions2'
LI = ('list', P.INT)
LLI = ('list', LI)
ATTRS = {'lmax': LI, 'lmin': LI, 'max_level_dict': LLI, 'version': P.INT, 'dim': P.INT}
SUB_FUEL = '(S (Z.to_nat (2 * Z.max subtraction_value 0 + 4)))'      # = S (sub_fuel) of Model/DimWise.v: one more unit to see the loop flag
VIEWS = {
    'get_max_level': dict(containers=['refine_container'], objects=['refine_obj'], dict_attr='max_level_dict'),
    'update_coarsening_values': dict(containers=['refinement_container_d'], objects=[], collect='coarsening_level'),
    # versions 6, 7, 8 (and 2): the branches of the other versions are NOT translated - entering them makes the generated function
    # raise (return None), nothing is assumed about them
    'get_subtraction_value': dict(containers=['refineContainer'], objects=['refineObj'], dict_attr='max_level_dict', dict_writes=True,
                                  counts=True,
                                  unsupported_if=['self.version == 5', 'self.version == 4 or self.version == 5',
                                                  '(self.version == 4 or self.version == 5) and max_level > 2',
                                                  'self.version == 3 and max_level > 2']),
}
P.NUM_TARGETS[TARGET] = dict(
    file=SRC, out='DimWiseGen.v', prop='C06',
    classes=[dict(name=CLASS, mode='param',
                  methods=['modify_according_to_levelvec', 'get_max_level', 'update_coarsening_values', 'get_subtraction_value'],
                  attrs=ATTRS)],
    fuel={},
    while_fuel={CLASS + '.get_max_level': ['(S (length refine_container_objects))', '(S (length refine_container_objects))'],
                CLASS + '.get_subtraction_value': [SUB_FUEL, SUB_FUEL, SUB_FUEL]},
    param_types={('modify_according_to_levelvec', 'subtraction_value'): 'int', ('modify_according_to_levelvec', 'd'): 'int',
                 ('modify_according_to_levelvec', 'max_level'): 'int', ('modify_according_to_levelvec', 'levelvec'): 'List[int]',
                 ('update_coarsening_values', 'd'): 'int',
                 ('get_subtraction_value', 'max_coarsenings'): 'List[int]', ('get_subtraction_value', 'levelvec'): 'List[int]'})


TARGET2 = 'refcont'
SRC2 = 'sparseSpACE/RefinementContainer.py'
CLASS2 = 'RefinementContainer'
P.NUM_TARGETS[TARGET2] = dict(
    file=SRC2, out='RefContainerGen.v', prop='C06',
    classes=[dict(name=CLASS2, mode='param', methods=['size', 'get_next_object_for_refinement'],
                  attrs={'startNewObjects': P.INT, 'searchPosition': P.INT, 'refinementObjects': ('list', P.FLOAT)})],
    fuel={})


def desugar_get_next(fn):
    """the rewriting of RefinementContainer.get_next_object_for_refinement (see the module docstring); anything else is rejected"""
    def rej(node, what):
        raise P.Reject(node, 'get_next_object_for_refinement: %s' % what)
    if any(isinstance(n, _ast.Name) and n.id in ('end_v', 'searchPosition_out') for n in _ast.walk(fn)):
        rej(fn, 'name clash with a generated name')
    out = []
    for st in fn.body:
        if isinstance(st, _ast.If) and len(st.body) == 1 and len(st.orelse) == 1 and isinstance(st.body[0], _ast.Assign) \
                and isinstance(st.orelse[0], _ast.Assign) and len(st.body[0].targets) == 1 and len(st.orelse[0].targets) == 1 \
                and isinstance(st.body[0].targets[0], _ast.Name) and isinstance(st.orelse[0].targets[0], _ast.Name) \
                and st.body[0].targets[0].id == st.orelse[0].targets[0].id:
            new = _ast.Assign(targets=[st.body[0].targets[0]],
                              value=_ast.IfExp(test=st.test, body=st.body[0].value, orelse=st.orelse[0].value))
            out.append(_ast.copy_location(new, st))
        else:
            out.append(st)
    doc = [out[0]] if (out and isinstance(out[0], _ast.Expr) and isinstance(out[0].value, _ast.Constant)) else []
    fn.body = doc + [_ast.copy_location(_ast.parse('searchPosition_out = self.searchPosition').body[0], fn)] + out[len(doc):]
    nwrites = [0]

    class Rw(_ast.NodeTransformer):
        def visit_Name(self, n):
            if n.id == 'end':
                n.id = 'end_v'
            return n

        def visit_Assign(self, a):
            if len(a.targets) == 1 and isinstance(a.targets[0], _ast.Attribute):
                if _ast.unparse(a.targets[0]) != 'self.searchPosition':
                    rej(a, 'attribute write %s' % _ast.unparse(a.targets[0]))
                a.targets = [_ast.copy_location(_ast.Name(id='searchPosition_out', ctx=_ast.Store()), a.targets[0])]
                nwrites[0] += 1
            return self.generic_visit(a)

        def visit_Return(self, r):
            t = r.value
            if not (isinstance(t, _ast.Tuple) and len(t.elts) == 3):
                rej(r, 'return of anything but (found, index, object)')
            idx = t.elts[1]
            if isinstance(idx, _ast.Constant) and idx.value is None:
                idx = _ast.parse('-1', mode='eval').body
            obj = t.elts[2]
            if not ((isinstance(obj, _ast.Constant) and obj.value is None) or _ast.unparse(obj).startswith('self.refinementObjects[')):
                rej(r, 'third component of the result is not the object found / None')
            new = _ast.parse('(0, (0, searchPosition_out))', mode='eval').body
            new.elts[0] = self.visit(t.elts[0])
            new.elts[1].elts[0] = self.visit(idx)
            r.value = new
            return r

        def visit_Attribute(self, a):
            a = self.generic_visit(a)
            if a.attr == 'benefit' and isinstance(a.value, _ast.Subscript) and _ast.unparse(a.value.value) == 'self.refinementObjects':
                return a.value
            return a
    fn = Rw().visit(fn)
    for n in _ast.walk(fn):
        if isinstance(n, _ast.Attribute) and isinstance(n.value, _ast.Subscript) and _ast.unparse(n.value.value) == 'self.refinementObjects':
            rej(n, 'attribute %s of a container object (only benefit)' % n.attr)
    _ast.fix_missing_locations(fn)
    return fn


class Desugar(_ast.NodeTransformer):
    """the object-view rewriting of ONE method (see the module docstring); raises P.Reject on anything outside the pattern"""

    def __init__(self, fn, cfg):
        self.fn = fn
        self.cfg = cfg
        self.containers = set(cfg['containers'])
        self.objects = set(cfg['objects'])       # object views: parameters, later also element variables
        self.collect = cfg.get('collect')
        self.extra_outs = []                      # names appended to every returned value
        self.ncount = 0
        self.written = set()                      # element variables whose collect attribute was assigned
        self.cont_of = {}                         # element variable -> container
        self.loop_var = None

    def rej(self, node, what):
        raise P.Reject(node, 'object view of %s: %s' % (self.fn.name, what))

    def run(self):
        fn = self.fn
        names = {n.id for n in _ast.walk(fn) if isinstance(n, _ast.Name)} | {a.arg for a in fn.args.args}
        for c in self.containers:
            for gen in (c + '_objects', c + '_' + (self.collect or 'x') + '_out'):
                if gen in names:
                    self.rej(fn, 'name clash with the generated name %s' % gen)
        new_args = []
        for a in fn.args.args:
            if a.arg in self.containers:
                a = _ast.copy_location(_ast.arg(arg=a.arg + '_objects', annotation=_ast.parse('List[Tuple[int, ...]]', mode='eval').body), a)
            elif a.arg in self.objects:
                a = _ast.copy_location(_ast.arg(arg=a.arg, annotation=_ast.parse('Tuple[int, ...]', mode='eval').body), a)
            new_args.append(a)
        fn.args.args = new_args
        # `if c: A else: B ; return e` -> `if c: A ; return e else: B ; return e` (variables first assigned in both branches are
        # outside the shared subset; copying the final return into both branches does not change the meaning)
        if len(fn.body) >= 2 and isinstance(fn.body[-1], _ast.Return) and isinstance(fn.body[-2], _ast.If) and fn.body[-2].orelse:
            ret, cond = fn.body[-1], fn.body[-2]
            import copy
            cond.body = cond.body + [copy.deepcopy(ret)]
            cond.orelse = cond.orelse + [copy.deepcopy(ret)]
            fn.body = fn.body[:-1]
        if self.collect:
            self.extra_outs += ['%s_%s_out' % (c, self.collect) for c in sorted(self.containers)]
        if self.cfg.get('dict_writes'):
            self.extra_outs.append('%s_writes' % self.cfg['dict_attr'])
        for gen in self.extra_outs:
            if gen in names:
                self.rej(fn, 'name clash with the generated name %s' % gen)
        self.seen_unsupported = set()
        fn.body = self.stmts(fn.body, top=True)
        missing = set(self.cfg.get('unsupported_if', [])) - self.seen_unsupported
        if missing:
            self.rej(fn, 'the branches declared outside the model are not in the source any more: %s' % sorted(missing))
        if self.extra_outs:
            init = []
            for gen in self.extra_outs:
                init.append(_ast.copy_location(_ast.parse('%s = []' % gen).body[0], fn.body[0]))
            doc = [fn.body[0]] if (isinstance(fn.body[0], _ast.Expr) and isinstance(fn.body[0].value, _ast.Constant)
                                   and isinstance(fn.body[0].value.value, str)) else []
            fn.body = doc + init + fn.body[len(doc):]
        _ast.fix_missing_locations(fn)
        # nothing of a view may be left
        for n in _ast.walk(fn):
            if isinstance(n, _ast.Name) and n.id in self.containers:
                self.rej(n, 'container %s is used other than as %s.get_objects()' % (n.id, n.id))
            if isinstance(n, _ast.Attribute) and isinstance(n.value, _ast.Name) and n.value.id in self.objects:
                self.rej(n, 'attribute %s of the object view %s' % (n.attr, n.value.id))
        return fn

    # statements -------------------------------------------------------------------------------------------------
    def stmts(self, body, top=False, loop_elem=None):
        out = []
        for st in body:
            if isinstance(st, _ast.If) and _ast.unparse(st.test) in self.cfg.get('unsupported_if', []):
                # a branch outside the model: entering it raises (the generated function returns None)
                self.seen_unsupported.add(_ast.unparse(st.test))
                st.test = self.visit(st.test)
                st.body = [_ast.copy_location(_ast.parse('raise NotImplementedError()').body[0], st)]
                if st.orelse:
                    self.rej(st, 'else branch of an if declared outside the model')
                out.append(st)
                continue
            if self.cfg.get('dict_writes') and isinstance(st, _ast.Assign) and len(st.targets) == 1 \
                    and isinstance(st.targets[0], _ast.Subscript) and self.is_dict(st.targets[0].value):
                # self.D[(d, i)] = e: the written entry becomes part of the result (newest first = what a later lookup finds)
                k = self.key(st.targets[0].slice)
                app = _ast.parse('%s_writes.append([0, 0, 0])' % self.cfg['dict_attr']).body[0]
                app.value.args[0].elts = [k[0], k[1], self.visit(st.value)]
                out.append(_ast.copy_location(app, st))
                continue
            if self.cfg.get('counts') and isinstance(st, (_ast.Assign, _ast.AugAssign)):
                out += self.hoist_counts(st)
                continue
            if isinstance(st, _ast.Assign) and len(st.targets) == 1 and isinstance(st.targets[0], _ast.Attribute):
                tg = st.targets[0]
                if isinstance(tg.value, _ast.Name) and tg.value.id in self.objects:
                    x = tg.value.id
                    if not (self.collect and tg.attr == self.collect and loop_elem == x and x not in self.written):
                        self.rej(st, 'assignment to %s.%s (only %s of the loop element, once, at the top level of the loop body)'
                                 % (x, tg.attr, self.collect))
                    self.written.add(x)
                    val = self.visit(st.value)
                    loc = '%s_%s' % (x, self.collect)
                    a1 = _ast.Assign(targets=[_ast.Name(id=loc, ctx=_ast.Store())], value=val)
                    a2 = _ast.parse('%s_%s_out.append(%s)' % (self.cont_of[x], self.collect, loc)).body[0]
                    out += [_ast.copy_location(a1, st), _ast.copy_location(a2, st)]
                    continue
            if isinstance(st, _ast.For):
                it = self.visit(st.iter)
                if isinstance(it, _ast.Name) and it.id.endswith('_objects') and it.id[:-8] in self.containers:
                    if not isinstance(st.target, _ast.Name) or st.orelse:
                        self.rej(st, 'loop over the objects of a container with a target that is not a name')
                    x = st.target.id
                    if x in self.objects or x in self.containers:
                        self.rej(st, 'loop variable %s shadows a view' % x)
                    self.objects.add(x)
                    self.cont_of[x] = it.id[:-8]
                    st.iter = it
                    st.body = self.stmts(st.body, loop_elem=x)
                    self.objects.discard(x)
                    if self.collect and x not in self.written:
                        self.rej(st, 'loop over the objects of %s without the assignment of %s' % (it.id[:-8], self.collect))
                    out.append(st)
                    continue
                st.iter = it
                st.body = self.stmts(st.body)
                st.orelse = self.stmts(st.orelse)
                out.append(st)
                continue
            if isinstance(st, _ast.While):
                # `if p: break` at the top level of the loop body: the loop gets a flag (see the module docstring)
                idx = [j for j, b in enumerate(st.body) if isinstance(b, _ast.If) and len(b.body) == 1 and isinstance(b.body[0], _ast.Break)
                       and not b.orelse]
                if len(idx) == 1 and not st.orelse:
                    self.nflag = getattr(self, 'nflag', 0) + 1
                    flag = 'loop_go%d' % self.nflag
                    if any(isinstance(n, _ast.Name) and n.id == flag for n in _ast.walk(self.fn)):
                        self.rej(st, 'name clash with the generated name %s' % flag)
                    j = idx[0]
                    brk = st.body[j]
                    brk.body = [_ast.copy_location(_ast.parse('%s = False' % flag).body[0], brk)]
                    brk.orelse = st.body[j + 1:]
                    st.body = st.body[:j] + [brk]
                    st.test = _ast.copy_location(_ast.BoolOp(op=_ast.And(), values=[_ast.Name(id=flag, ctx=_ast.Load()), st.test]), st.test)
                    out.append(_ast.copy_location(_ast.parse('%s = True' % flag).body[0], st))
            if isinstance(st, (_ast.While, _ast.If)):
                st.test = self.visit(st.test)
                st.body = self.stmts(st.body)
                st.orelse = self.stmts(st.orelse)
                out.append(st)
                continue
            if isinstance(st, _ast.Assign) and len(st.targets) == 1 and isinstance(st.targets[0], _ast.Name):
                st.value = self.visit(st.value)
                v = st.value
                if isinstance(v, _ast.Subscript) and isinstance(v.value, _ast.Name) and v.value.id.endswith('_objects') \
                        and v.value.id[:-8] in self.containers:
                    self.objects.add(st.targets[0].id)          # element variable: an object view from here on
                    self.cont_of[st.targets[0].id] = v.value.id[:-8]
                elif st.targets[0].id in self.objects:
                    self.rej(st, 'object view %s is rebound' % st.targets[0].id)
                out.append(st)
                continue
            if isinstance(st, _ast.Return) and self.extra_outs:
                if st.value is None:
                    self.rej(st, 'return without a value in a function that writes object attributes')
                outs = ', '.join(self.extra_outs)
                tup = _ast.parse('(0, %s)' % outs, mode='eval').body
                tup.elts[0] = self.visit(st.value)
                st.value = tup
                out.append(st)
                continue
            out.append(self.visit(st))
        return out

    def hoist_counts(self, st):
        """sum([1 for v in range(E) if C]) inside an (augmented) assignment of otherwise pure arithmetic: a counting loop in front
        of the statement (comprehension conditions are outside the shared subset); the comprehension variable gets a fresh name"""
        pre = []

        def is_count(e):
            return (isinstance(e, _ast.Call) and isinstance(e.func, _ast.Name) and e.func.id == 'sum' and len(e.args) == 1
                    and not e.keywords and isinstance(e.args[0], _ast.ListComp))

        def pure(e):
            if is_count(e):
                return True
            if isinstance(e, (_ast.Name, _ast.Constant)):
                return True
            if isinstance(e, _ast.BinOp):
                return pure(e.left) and pure(e.right)
            if isinstance(e, _ast.Call) and isinstance(e.func, _ast.Name) and e.func.id in ('min', 'max') and not e.keywords:
                return all(pure(a) for a in e.args)
            return False

        def rewrite(e):
            if is_count(e):
                lc = e.args[0]
                g = lc.generators
                ok = (len(g) == 1 and isinstance(lc.elt, _ast.Constant) and lc.elt.value == 1 and len(g[0].ifs) == 1 and not g[0].is_async
                      and isinstance(g[0].target, _ast.Name) and isinstance(g[0].iter, _ast.Call) and isinstance(g[0].iter.func, _ast.Name)
                      and g[0].iter.func.id == 'range' and len(g[0].iter.args) == 1)
                if not ok:
                    self.rej(e, 'sum of a comprehension that is not sum([1 for v in range(E) if C])')
                self.ncount += 1
                cnt, var = 'count_%d' % self.ncount, 'count_var_%d' % self.ncount
                old = g[0].target.id

                class Ren(_ast.NodeTransformer):
                    def visit_Name(self_, n):
                        return _ast.copy_location(_ast.Name(id=var, ctx=n.ctx), n) if n.id == old else n
                cond = Ren().visit(g[0].ifs[0])
                loop = _ast.parse('%s = 0\nfor %s in range(0):\n    if 0:\n        %s += 1' % (cnt, var, cnt)).body
                loop[1].iter.args[0] = self.visit(g[0].iter.args[0])
                loop[1].body[0].test = self.visit(cond)
                for n_ in loop:
                    pre.append(_ast.copy_location(n_, st))
                return _ast.copy_location(_ast.Name(id=cnt, ctx=_ast.Load()), e)
            if isinstance(e, _ast.BinOp):
                e.left, e.right = rewrite(e.left), rewrite(e.right)
            elif isinstance(e, _ast.Call) and not is_count(e):
                e.args = [rewrite(a) for a in e.args]
            return e

        has = any(is_count(n) for n in _ast.walk(st.value))
        if not has:
            # an ordinary assignment: handled by the general rules
            return self.stmts_plain(st)
        if not pure(st.value) or not isinstance(st.targets[0] if isinstance(st, _ast.Assign) else st.target, _ast.Name):
            self.rej(st, 'a counting comprehension inside a statement that is not pure arithmetic on names')
        st.value = rewrite(st.value)
        return pre + [st]

    def stmts_plain(self, st):
        saved = self.cfg.get('counts')
        self.cfg['counts'] = False
        try:
            return self.stmts([st])
        finally:
            self.cfg['counts'] = saved

    # expressions ------------------------------------------------------------------------------------------------
    def visit_Call(self, c):
        f = c.func
        if isinstance(f, _ast.Attribute) and isinstance(f.value, _ast.Name) and f.value.id == 'self' and f.attr in VIEWS:
            # a view handed on to another translated method that views the same parameter positions the same way
            sub = VIEWS[f.attr]
            callee = [a.arg for a in self.sigs.get(f.attr, [])]
            for k_, a in enumerate(c.args):
                if isinstance(a, _ast.Name) and a.id in self.containers:
                    if k_ >= len(callee) or callee[k_] not in sub['containers']:
                        self.rej(c, 'container view %s passed to a parameter of %s that is not a container view' % (a.id, f.attr))
                    c.args[k_] = _ast.copy_location(_ast.Name(id=a.id + '_objects', ctx=_ast.Load()), a)
                elif isinstance(a, _ast.Name) and a.id in self.objects:
                    if k_ >= len(callee) or callee[k_] not in sub['objects']:
                        self.rej(c, 'object view %s passed to a parameter of %s that is not an object view' % (a.id, f.attr))
                else:
                    c.args[k_] = self.visit(a)
            if c.keywords:
                self.rej(c, 'keyword arguments in a call that hands on a view')
            return c
        if isinstance(f, _ast.Attribute) and isinstance(f.value, _ast.Name) and f.value.id in self.containers:
            if f.attr != 'get_objects' or c.args or c.keywords:
                self.rej(c, 'call %s.%s(..) on a container view (only get_objects())' % (f.value.id, f.attr))
            return _ast.copy_location(_ast.Name(id=f.value.id + '_objects', ctx=_ast.Load()), c)
        return self.generic_visit(c)

    def visit_Attribute(self, a):
        if isinstance(a.value, _ast.Name) and a.value.id in self.objects:
            x = a.value.id
            if a.attr == 'levels' and isinstance(a.ctx, _ast.Load):
                return _ast.copy_location(_ast.Name(id=x, ctx=_ast.Load()), a)
            if self.collect and a.attr == self.collect and x in self.written and isinstance(a.ctx, _ast.Load):
                return _ast.copy_location(_ast.Name(id='%s_%s' % (x, self.collect), ctx=_ast.Load()), a)
            self.rej(a, 'attribute %s of the object view %s' % (a.attr, x))
        return self.generic_visit(a)

    def visit_Compare(self, c):
        # tuple((d, i)) in self.D   /   not in
        da = self.cfg.get('dict_attr')
        if da and len(c.ops) == 1 and isinstance(c.ops[0], (_ast.In, _ast.NotIn)) and self.is_dict(c.comparators[0]):
            k = self.key(c.left)
            call = _ast.parse('py_c06_dict_has(self.%s, 0, 0)' % da, mode='eval').body
            call.args[1], call.args[2] = k
            res = call if isinstance(c.ops[0], _ast.In) else _ast.UnaryOp(op=_ast.Not(), operand=call)
            return _ast.copy_location(res, c)
        return self.generic_visit(c)

    def visit_Subscript(self, s):
        da = self.cfg.get('dict_attr')
        if da and self.is_dict(s.value):
            if not isinstance(s.ctx, _ast.Load):
                self.rej(s, 'store into self.%s' % da)
            k = self.key(s.slice)
            call = _ast.parse('py_c06_dict_get(self.%s, 0, 0)' % da, mode='eval').body
            call.args[1], call.args[2] = k
            return _ast.copy_location(call, s)
        return self.generic_visit(s)

    def is_dict(self, e):
        da = self.cfg.get('dict_attr')
        return isinstance(e, _ast.Attribute) and e.attr == da and isinstance(e.value, _ast.Name) and e.value.id == 'self'

    def key(self, e):
        # tuple((d, i))  or  (d, i)
        if isinstance(e, _ast.Call) and isinstance(e.func, _ast.Name) and e.func.id == 'tuple' and len(e.args) == 1 and not e.keywords:
            e = e.args[0]
        if not (isinstance(e, _ast.Tuple) and len(e.elts) == 2):
            self.rej(e, 'key of self.%s that is not the pair (d, i)' % self.cfg.get('dict_attr'))
        return [self.visit(e.elts[0]), self.visit(e.elts[1])]


def check_get_objects(repo):
    """RefinementContainer.get_objects must be `return self.refinementObjects` (the container view reads it as the list in container order)"""
    path = os.path.join(repo, 'sparseSpACE', 'RefinementContainer.py')
    mod = _ast.parse(open(path).read())
    for st in mod.body:
        if isinstance(st, _ast.ClassDef) and st.name == 'RefinementContainer':
            for m in st.body:
                if isinstance(m, _ast.FunctionDef) and m.name == 'get_objects':
                    body = [s for s in m.body if not (isinstance(s, _ast.Expr) and isinstance(s.value, _ast.Constant))]
                    if len(body) == 1 and isinstance(body[0], _ast.Return) and _ast.unparse(body[0].value) == 'self.refinementObjects':
                        return
                    raise P.Reject(m, 'RefinementContainer.get_objects is not `return self.refinementObjects`')
    raise P.Reject(mod, 'RefinementContainer.get_objects not found')


class _AstProxy(object):
    """the module `ast` as seen by the shared translator: parse() of the target file applies the object-view rewriting"""

    def __init__(self, target=None):
        self.repo = None
        self.target = target

    def __getattr__(self, name):
        return getattr(_ast, name)

    def parse(self, src, *a, **k):
        mod = _ast.parse(src, *a, **k)
        if isinstance(mod, _ast.Module):
            for st in mod.body:
                if isinstance(st, _ast.ClassDef) and st.name == CLASS2 and self.target == TARGET2:
                    for i, m in enumerate(st.body):
                        if isinstance(m, _ast.FunctionDef) and m.name == 'get_next_object_for_refinement':
                            st.body[i] = desugar_get_next(m)
                if isinstance(st, _ast.ClassDef) and st.name == CLASS and self.target == TARGET:
                    sigs = {m.name: list(m.args.args[1:]) for m in st.body if isinstance(m, _ast.FunctionDef)}
                    for i, m in enumerate(st.body):
                        if isinstance(m, _ast.FunctionDef) and m.name in VIEWS:
                            ds = Desugar(m, dict(VIEWS[m.name]))
                            ds.sigs = sigs
                            st.body[i] = ds.run()
        return mod


_BaseTr = P.NumTranslator
_BaseFn = P.NumFnTranslator


class C06Translator(_BaseTr):
    def load(self):
        if self.tname == TARGET:
            check_get_objects(self.repo)
        return _BaseTr.load(self)

    def signature(self, f):
        if self.tname == TARGET:
            decl = self.cfg.get('param_types', {})
            for ar in f.node.args.args:
                if (f.node.name, ar.arg) in decl:
                    ar.annotation = _ast.copy_location(_ast.parse(decl[(f.node.name, ar.arg)], mode='eval').body, ar)
        return _BaseTr.signature(self, f)


class C06FnTranslator(_BaseFn):
    def call(self, c, env):
        fn = c.func
        if self.tr.tname == TARGET and isinstance(fn, _ast.Name) and fn.id in ('py_c06_dict_has', 'py_c06_dict_get') and fn.id not in env:
            b0, t0, ty0 = self.expr(c.args[0], env)
            b1, t1, ty1 = self.expr(c.args[1], env)
            b2, t2, ty2 = self.expr(c.args[2], env)
            self.need(ty0 == LLI and ty1 == P.INT and ty2 == P.INT, c, '%s of %s, %s, %s' % (fn.id, ty0, ty1, ty2))
            if fn.id == 'py_c06_dict_has':
                return b0 + b1 + b2, '(py_c06_dict_has %s %s %s)' % (t0, t1, t2), P.BOOL
            v = self.temp()
            return b0 + b1 + b2 + [(v, 'py_c06_dict_get %s %s %s' % (t0, t1, t2))], v, P.INT
        return _BaseFn.call(self, c, env)


P.NumTranslator = C06Translator
P.NumFnTranslator = C06FnTranslator
_render = P.render_num


def render_c06(tr, fns):
    text = _render(tr, fns)
    if tr.tname == TARGET:
        old = 'From SG Require Import Base.QcUtil Base.PyLib Base.PyNum.'
        if old not in text:
            raise P.Reject(_ast.parse('0'), 'header of the shared translator changed (front end py2gallina_c06.py must follow)')
        text = text.replace(old, old[:-1] + ' Base.PyC06.', 1)
        text = text.replace('harness/translate/py2gallina.py --target dimwise', 'harness/translate/py2gallina_c06.py', 1)
    if tr.tname == TARGET2:
        text = text.replace('harness/translate/py2gallina.py --target refcont', 'harness/translate/py2gallina_c06.py', 1)
        text = text.replace('every ./setup.sh C06 and at the start of every ./check C06 run',
                            'the start of every ./check C06 / C03 run (harness/vp/props/_c06_gen.py)', 1)
        text = text.replace('every ./setup.sh C06 and at the start of every ./check C06 run',
                            'the start of every ./check C06 / C03 run (harness/vp/props/_c06_gen.py)', 1)
    return text


P.render_num = render_c06


def main(argv):
    args = ['--target', TARGET]
    i = 0
    while i < len(argv):
        if argv[i] in ('--repo', '--out') and i + 1 < len(argv):
            args += argv[i:i + 2]; i += 2
        elif argv[i] == '--stdout':
            args.append('--stdout'); i += 1
        else:
            sys.stderr.write(__doc__)
            return 2
    rc = 0
    for tg in (TARGET, TARGET2):
        a2 = ['--target', tg] + [x for x in args[2:]]
        if tg == TARGET2 and '--out' in a2:          # an explicit --out names the file of the first target only
            k = a2.index('--out')
            a2[k + 1] = os.path.join(os.path.dirname(a2[k + 1]), 'RefContainerGen.v')
        P.ast = _AstProxy(tg)
        try:
            rc = max(rc, P.main(a2))
        finally:
            P.ast = _ast
    return rc


if __name__ == '__main__':
    sys.exit(main(sys.argv[1:]))
