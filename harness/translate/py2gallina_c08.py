#!/usr/bin/env python3
"""Source-derived model for property C08: the 1D local grid classes of sparseSpACE/Grid.py -> coq/Gen/LocalGrid1DGen.v.

A thin front end of the shared translator harness/translate/py2gallina.py (imported, NOT modified: the target is registered in
memory only, the outputs of the existing targets are untouched).  Same construction as py2gallina_c02.py (property C02), with the
classes and methods the C08 hand model (coq/Model/LocalGrids.v) covers, for ALL attribute values (sub-boxes, border indices,
both bases), all fail-closed:
  * target `local1d` (param mode, see NUM_DOC of the translator):
      TrapezoidalGrid1D.level_to_num_points_1d, .weight_composite_trapezoidal, .get_1d_weight, and the inherited
      Grid1d.get_1D_level_weights seen from TrapezoidalGrid1D;  GaussGrid1D.level_to_num_points_1d;
      ClenshawCurtisGrid1D.level_to_num_points_1d;  LejaGrid1D.level_to_num_points_with_boundary_1d / level_to_num_points_1d
      (since the repair 28a24e9 inside the subset of the shared translator);
    the attributes read through self become parameters with the declared types;
  * DECLARED PARAMETER TYPES: these methods carry no annotations; `level` and `index` are declared `int` here (a typing
    precondition exactly like an annotation in the source; any other unannotated parameter is still rejected);
  * `isclose(x, y)` with two positional arguments, accepted only if the module binds the name by `from math import isclose`
    and nothing else: -> py_isclose (coq/Base/PyNumMath.v: |x - y| <= 1e-9 * max(|x|, |y|), exact rationals);
  * `int(b)` of a bool expression (ClenshawCurtisGrid1D: int(isclose(..)) + int(isclose(..))): -> (if b then 1 else 0).
Usage: py2gallina_c08.py [--repo DIR] [--out FILE] [--stdout]      (VERIF_REPO is respected like in the shared translator)"""
import ast
import os
import sys

sys.path.insert(0, os.path.dirname(os.path.abspath(__file__)))
import py2gallina as P          # noqa: E402

TARGET = 'local1d'
ATTRS = {'boundary': P.BOOL, 'modified_basis': P.BOOL, 'start': P.FLOAT, 'end': P.FLOAT, 'a': P.FLOAT, 'b': P.FLOAT,
         'num_points': P.INT, 'num_points_with_boundary': P.INT, 'lowerBorder': P.INT, 'upperBorder': P.INT, 'spacing': P.FLOAT,
         'linear_growth_factor': P.INT}
P.NUM_TARGETS[TARGET] = dict(
    file='sparseSpACE/Grid.py', out='LocalGrid1DGen.v', prop='C08',
    classes=[
        dict(name='Grid1d', mode='param', methods=[], attrs=ATTRS),
        dict(name='TrapezoidalGrid1D', mode='param',
             methods=['level_to_num_points_1d', 'weight_composite_trapezoidal', 'get_1d_weight', 'get_1D_level_weights'],
             attrs=ATTRS),
        dict(name='LejaGrid1D', mode='param', methods=['level_to_num_points_with_boundary_1d', 'level_to_num_points_1d'], attrs=ATTRS),
        dict(name='GaussGrid1D', mode='param', methods=['level_to_num_points_1d'], attrs=ATTRS),
        dict(name='ClenshawCurtisGrid1D', mode='param', methods=['level_to_num_points_1d'], attrs=ATTRS),
    ],
    fuel={},
    # declared types of unannotated parameters: (method name, parameter) -> annotation
    param_types={('level_to_num_points_1d', 'level'): 'int', ('level_to_num_points_with_boundary_1d', 'level'): 'int', ('weight_composite_trapezoidal', 'index'): 'int',
                 ('get_1d_weight', 'index'): 'int'})

_BaseTr = P.NumTranslator
_BaseFn = P.NumFnTranslator


class C08Translator(_BaseTr):
    def signature(self, f):
        if self.tname == TARGET:
            decl = self.cfg.get('param_types', {})
            for ar in f.node.args.args:
                if ar.annotation is None and (f.node.name, ar.arg) in decl:
                    ar.annotation = ast.copy_location(ast.Name(id=decl[(f.node.name, ar.arg)], ctx=ast.Load()), ar)
        return _BaseTr.signature(self, f)


class C08FnTranslator(_BaseFn):
    def call(self, c, env):
        fn = c.func
        if self.tr.tname == TARGET and isinstance(fn, ast.Name) and fn.id == 'isclose' and fn.id not in env:
            binds = self.tr.module_bindings(self.tr.file, set())
            self.need(binds.get('isclose') == {'from:math:isclose'}, c,
                      'isclose is not bound exactly by `from math import isclose` (%s)' % sorted(binds.get('isclose', [])))
            self.plain_args(c, 2)
            b1, t1, ty1 = self.expr(c.args[0], env)
            b2, t2, ty2 = self.expr(c.args[1], env)
            self.need(ty1 in (P.INT, P.FLOAT) and ty2 in (P.INT, P.FLOAT), c, 'isclose of %s, %s' % (ty1, ty2))
            return b1 + b2, '(py_isclose %s %s)' % (self.num(t1, ty1, P.FLOAT), self.num(t2, ty2, P.FLOAT)), P.BOOL
        if self.tr.tname == TARGET and isinstance(fn, ast.Name) and fn.id == 'int' and fn.id not in env \
                and len(c.args) == 1 and not c.keywords:
            b1, t1, ty1 = self.expr(c.args[0], env)
            if ty1 == P.BOOL:          # int(True) = 1, int(False) = 0
                return b1, '(if %s then 1 else 0)%%Z' % t1, P.INT
        return _BaseFn.call(self, c, env)


P.NumTranslator = C08Translator
P.NumFnTranslator = C08FnTranslator
_render = P.render_num


def render_c08(tr, fns):
    text = _render(tr, fns)
    if tr.tname == TARGET:
        old = 'From SG Require Import Base.QcUtil Base.PyLib Base.PyNum.'
        if old not in text:
            raise P.Reject(ast.parse('0'), 'header of the shared translator changed (front end py2gallina_c08.py must follow)')
        text = text.replace(old, old[:-1] + ' Base.PyNumMath.', 1)
        text = text.replace('harness/translate/py2gallina.py --target local1d', 'harness/translate/py2gallina_c08.py', 1)
        text = text.replace('every ./setup.sh C08 and at the start of every ./check C08 run', 'the start of every ./check C08 run (harness/vp/props/_c08_gen.py)', 1)
    return text


P.render_num = render_c08


def main(argv):
    args = ['--target', TARGET]
    i = 0
    while i < len(argv):
        if argv[i] in ('--repo', '--out') and i + 1 < len(argv):
            args += argv[i:i + 2]; i += 2
        elif argv[i] == '--stdout':
            args.append('--stdout'); i += 1
        else:
            sys.stderr.write(__doc__)
            return 2
    return P.main(args)


if __name__ == '__main__':
    sys.exit(main(sys.argv[1:]))
