#!/venv/bin/python
"""py2gallina.py -- FAIL-CLOSED translator from a restricted Python subset to Gallina (Coq 8.16).

Usage:  py2gallina.py [--target combischeme|grid|extrapolation] [--repo DIR] [--out FILE] [--stdout]
        DIR defaults to $VERIF_REPO or /repo, FILE to <verif>/coq/Gen/{CombiSchemeGen,GridGen,ExtrapolationGen}.v
        (the numeric targets grid / extrapolation are described in NUM_DOC below the combischeme translator)
Exit 0: FILE holds the translation (rewritten only when its content changed).
Exit 1: the source uses something outside the subset.  stderr names file:line and the construct; FILE is replaced by
        a stub that does not compile, so that every proof depending on the generated model breaks.

What is translated (UNITS below): Utils.get_cross_product and EVERY method of class CombiScheme in combiScheme.py.
The module level of combiScheme.py must consist of the known imports and the class only; ComponentGridInfo.__init__
is checked to be the plain two-field constructor.

TRANSLATION SCHEME (syntax directed; the meaning of every py_* name is fixed in coq/Base/PyLib.v)
  types     parameter annotations are trusted (int, bool, List[..], Set[Tuple[int, ...]]); everything else is inferred
            forward; an expression whose type the translator cannot determine is rejected.  int -> Z, bool -> bool,
            int/int -> Qc, list/tuple -> list, set -> list (duplicate free), dict -> association list,
            ComponentGridInfo -> (list Z * Qc) (an int coefficient is embedded by py_Z2Qc), None -> unit,
            "value or None" -> option.
  object    record CombiScheme_t with one field f_<attr> per attribute assigned anywhere in the class.  Attributes set in
            __init__ have their plain type, all others `option T` (None = not set yet; reading = AttributeError).
  function  method m(self, a..)  ->  CombiScheme_m (self : CombiScheme_t) (a : T).. : option (R * CombiScheme_t)
            static/module function ->  name (a : T)..                               : option R
            None = an exception was raised.  A recursive function gets a structurally decreasing `fuel : nat` argument
            (name_rec) and a wrapper that passes the fuel measure declared in FUEL below; sufficiency of that measure is
            a theorem in Proofs/GenCombiSchemeEq.v.
  block     a statement list with live-out variables V becomes a term of type `flow V R`:
              x = e                let x := [e] in ...              (x <- [e] ;; ... when e can raise)
              self.a = e           let self := set_f_a self [e] in ...
              x[i] = e / x[i] += e x <- py_setitem x i .. ;; ...       (dict: py_dict_get / py_dict_set)
              x.append(e) ...      let x := x ++ [e] in ...          (extend, add, remove(raises) likewise)
              assert c             py_assert [c] (...)               (assert isinstance(..) is dropped, by name)
              print(..)            dropped, by name, together with the evaluation of its arguments
              if c: A else: B      vars <~ (if [c] then [A] else [B]) ;; ...     vars = variables assigned in A or B that
                                                                                 exist before the statement
              for x in e: B        vars <~ (py_for [e] (fun x vars => [B]) vars) ;; ...   (early-exit left fold)
              return e             Ret [e]   (methods: Ret ([e], self))
              end of block         Nxt vars
            A variable first assigned inside a branch or loop body is local to it (a later use is rejected); a loop
            variable must not shadow an existing variable.
  expr      pure expressions become Gallina terms.  Operations that can raise (indexing, dict lookup, set.remove,
            reading a maybe-unset attribute, math.factorial, int/int, calls of translated functions) are bound in
            evaluation order before the statement that contains them; inside the right operand of and/or they stay
            inside the operand (`if a then (t <?- b ;; Some ..) else Some false`) so that short-circuiting is kept.
  aliasing  Gallina values are immutable.  The translation is only valid when no mutated object is reachable through
            two names.  Rejected therefore: `x = y` for a mutable y; storing a bare mutable variable in a container,
            attribute or object; mutating a parameter before it was rebound to a fresh copy; mutating a variable
            that does not own its value; passing `self.attr` of mutable type to a method; calling a method that returns
            one of its mutable attributes.  Iterators (map, itertools.product) may be consumed once.
Anything not listed is rejected: while, try, with, lambda outside map, comprehension conditions, slices, global
state, keyword/star arguments except where named below, float literals, strings, chained comparisons, ...
"""
import ast
import os
import sys

HERE = os.path.dirname(os.path.abspath(__file__))
VERIF = os.path.dirname(os.path.dirname(HERE))

# ---------------------------------------------------------------------------------------------- configuration
CLASS_FILE = 'sparseSpACE/combiScheme.py'
CLASS_NAME = 'CombiScheme'
UTILS_FILE = 'sparseSpACE/Utils.py'
UTILS_FUNCS = ['get_cross_product']
GRID_FILE = 'sparseSpACE/ComponentGridInfo.py'
# fuel measure of recursive functions: name -> index of the parameter p with fuel = S (Z.to_nat p)
FUEL = {'CombiScheme.getGrids': 0}
# parameter types where the annotation is generic: instantiated at the only type used by translated callers
PARAM_OVERRIDE = {('get_cross_product', 'one_d_arrays'): ('list', ('list', ('int',)))}
ALLOWED_IMPORTS_CLASS_FILE = {
    ('import', 'numpy', 'np'), ('import', 'math', None),
    ('from', 'sparseSpACE.ComponentGridInfo', 'ComponentGridInfo'), ('from', 'typing', '*any*'),
    ('from', 'sparseSpACE.Utils', '*'),
}
RESERVED = set('''map filter negb andb orb fst snd Some None Ret Nxt Fail tt true false repeat length app cons nil Z list
option bool unit Qc fun let in if then else match with end as return forall exists fix cofix Type Prop Set at using where
for mod IF nat seq flat_map fold_left existsb forallb tup flow run_flow bindE bindF bindO self_'''.split())

INT, BOOL, FLOAT, NONE, UNK, GRID, NPARR = ('int',), ('bool',), ('float',), ('none',), ('unk',), ('grid',), ('nparr',)
OBJ = ('obj',)
FARR = ('farr',)          # numpy float array (numeric targets)
FDICT = ('fdict',)        # defaultdict(list) keyed by floats, values lists of floats (numeric targets)
TUPI = ('tuple', INT)


class Reject(Exception):
    def __init__(self, node, what):
        Exception.__init__(self, what)
        self.line = getattr(node, 'lineno', 0)
        self.what = what


def is_mutable(t):
    return t[0] in ('list', 'set', 'dict', 'nparr', 'iter', 'farr', 'fdict')


def join(a, b, node):
    if a == b:
        return a
    if a == UNK:
        return b
    if b == UNK:
        return a
    if {a, b} == {INT, FLOAT}:
        return FLOAT          # numeric widening: an int that meets a float is embedded
    if a[0] in ('list', 'tuple') and b[0] in ('list', 'tuple'):
        return ('list' if 'list' in (a[0], b[0]) else 'tuple', join(a[1], b[1], node))
    if a[0] == b[0] and len(a) == len(b) and a[0] in ('set', 'iter', 'opt', 'dict', 'pair'):
        return (a[0],) + tuple(join(x, y, node) for x, y in zip(a[1:], b[1:]))
    if a == NONE and b[0] != 'opt':
        return ('opt', b)
    if b == NONE and a[0] != 'opt':
        return ('opt', a)
    if a[0] == 'opt' and b == NONE:
        return a
    if b[0] == 'opt' and a == NONE:
        return b
    if a[0] == 'opt' and b[0] != 'opt':
        return ('opt', join(a[1], b, node))
    if b[0] == 'opt' and a[0] != 'opt':
        return ('opt', join(a, b[1], node))
    raise Reject(node, 'conflicting types %s and %s' % (a, b))


def has_unk(t):
    return t == UNK or any(isinstance(x, tuple) and has_unk(x) for x in t[1:])


def gt(t, node=None):
    """Gallina type"""
    k = t[0]
    if k == 'int':
        return 'Z'
    if k == 'bool':
        return 'bool'
    if k == 'float':
        return 'Qc'
    if k == 'none':
        return 'unit'
    if k in ('list', 'tuple', 'set', 'iter'):
        return '(list %s)' % gt(t[1], node)
    if k == 'nparr':
        return '(list Z)'
    if k == 'farr':
        return '(list Qc)'
    if k == 'fdict':
        return '(list (Qc * list Qc))'
    if k == 'enum':
        return t[1]
    if k == 'dict':
        return '(list (%s * %s))' % (gt(t[1], node), gt(t[2], node))
    if k == 'pair':
        return '(%s)' % ' * '.join(gt(x, node) for x in t[1:])
    if k == 'grid':
        return '(list Z * Qc)'
    if k == 'obj':
        return (t[1] if len(t) > 1 else 'CombiScheme') + '_t'
    if k == 'opt':
        return '(option %s)' % gt(t[1], node)
    raise Reject(node, 'type of this expression could not be determined')


def same_repr(a, b):
    try:
        return gt(a) == gt(b)
    except Reject:
        return False


def is_tupi(t):
    return t[0] in ('tuple', 'list') and t[1] == INT


def ann_type(a, node):
    """type of a parameter annotation"""
    if isinstance(a, ast.Name):
        if a.id == 'int':
            return INT
        if a.id == 'bool':
            return BOOL
    if isinstance(a, ast.Subscript) and isinstance(a.value, ast.Name):
        n = a.value.id
        s = a.slice
        if n in ('List', 'Sequence'):
            return ('list', ann_type(s, node))
        if n == 'Set':
            return ('set', ann_type(s, node))
        if n == 'Tuple' and isinstance(s, ast.Tuple) and len(s.elts) == 2 and isinstance(s.elts[1], ast.Constant) \
                and s.elts[1].value is Ellipsis:
            return ('tuple', ann_type(s.elts[0], node))
    raise Reject(node, 'unsupported parameter annotation %s' % ast.dump(a)[:80])


def ident(name, node):
    if name in RESERVED or name.startswith('_t') or name.startswith('py_') or name.startswith('f_') \
            or name.startswith('CombiScheme') or name.startswith('np_'):
        raise Reject(node, 'identifier %r clashes with a name used by the translation' % name)
    if not name.isidentifier() or not name.isascii():
        raise Reject(node, 'identifier %r' % name)
    return name


class Fn:
    def __init__(self, qual, node, kind, file):
        self.qual = qual          # 'CombiScheme.getGrids' | 'get_cross_product'
        self.node = node
        self.kind = kind          # 'method' | 'static' | 'func' | 'init'
        self.file = file
        self.params = []          # (name, type, default-term)
        self.ret = UNK
        self.returns_alias = False
        self.recursive = False
        self.calls = set()

    @property
    def gname(self):
        return self.qual.replace('.', '_') if '.' in self.qual else 'Utils_' + self.qual


class Translator:
    def __init__(self, repo):
        self.repo = repo
        self.fns = {}
        self.fields = {}          # attr -> type
        self.init_fields = []     # attrs set by __init__, in order
        self.field_order = []
        self.strict = False
        self.curfile = '?'

    # ------------------------------------------------------------------------------------------ loading
    def load(self):
        src = open(os.path.join(self.repo, CLASS_FILE)).read()
        self.curfile = CLASS_FILE
        mod = ast.parse(src)
        cls = None
        for st in mod.body:
            if isinstance(st, ast.Import):
                for al in st.names:
                    if ('import', al.name, al.asname) not in ALLOWED_IMPORTS_CLASS_FILE:
                        raise Reject(st, 'module-level import %s as %s' % (al.name, al.asname))
            elif isinstance(st, ast.ImportFrom):
                for al in st.names:
                    if ('from', st.module, al.name) not in ALLOWED_IMPORTS_CLASS_FILE and \
                            ('from', st.module, '*any*') not in ALLOWED_IMPORTS_CLASS_FILE:
                        raise Reject(st, 'module-level import from %s: %s' % (st.module, al.name))
                    if al.asname is not None:
                        raise Reject(st, 'import ... as %s' % al.asname)
            elif isinstance(st, ast.ClassDef) and st.name == CLASS_NAME and cls is None:
                cls = st
            else:
                raise Reject(st, 'module-level statement %s (only the known imports and class %s are allowed)'
                             % (type(st).__name__, CLASS_NAME))
        if cls is None:
            raise Reject(mod, 'class %s not found' % CLASS_NAME)
        if cls.bases or cls.keywords or cls.decorator_list:
            raise Reject(cls, 'class bases / decorators')
        for st in cls.body:
            if isinstance(st, ast.Expr) and isinstance(st.value, ast.Constant) and isinstance(st.value.value, str):
                continue    # docstring
            if not isinstance(st, ast.FunctionDef):
                raise Reject(st, 'class-level statement %s' % type(st).__name__)
            decos = [d.id if isinstance(d, ast.Name) else '?' for d in st.decorator_list]
            if decos == []:
                kind = 'init' if st.name == '__init__' else 'method'
            elif decos == ['staticmethod']:
                kind = 'static'
            else:
                raise Reject(st, 'decorator %s' % decos)
            q = CLASS_NAME + '.' + st.name
            if q in self.fns:
                raise Reject(st, 'method %s defined twice' % st.name)
            self.fns[q] = Fn(q, st, kind, CLASS_FILE)
        # Utils
        self.curfile = UTILS_FILE
        umod = ast.parse(open(os.path.join(self.repo, UTILS_FILE)).read())
        product_ok = False
        for st in umod.body:
            names = []
            if isinstance(st, (ast.FunctionDef, ast.ClassDef)):
                names = [st.name]
            elif isinstance(st, ast.Assign):
                names = [t.id for t in st.targets if isinstance(t, ast.Name)]
            elif isinstance(st, ast.ImportFrom):
                for al in st.names:
                    if (al.asname or al.name) == 'product':
                        if st.module == 'itertools' and al.name == 'product' and not product_ok:
                            product_ok = True
                        else:
                            raise Reject(st, "name 'product' bound by something else than `from itertools import product`")
                    if al.name == '*':
                        raise Reject(st, 'star import in Utils.py (could rebind product / get_cross_product)')
                continue
            elif isinstance(st, ast.Import):
                names = [(al.asname or al.name) for al in st.names]
            for n in names:
                if n == 'product':
                    raise Reject(st, "module-level rebinding of 'product'")
                if n in UTILS_FUNCS:
                    if not isinstance(st, ast.FunctionDef) or n in self.fns:
                        raise Reject(st, 'module-level rebinding of %s' % n)
                    if st.decorator_list:
                        raise Reject(st, 'decorator on %s' % n)
                    self.fns[n] = Fn(n, st, 'func', UTILS_FILE)
        if not product_ok:
            raise Reject(umod, '`from itertools import product` not found in Utils.py')
        for n in UTILS_FUNCS:
            if n not in self.fns:
                raise Reject(umod, 'function %s not found in Utils.py' % n)
        # a name of a translated Utils function must not be shadowed in the class file (checked above: no defs)
        # ComponentGridInfo = plain pair constructor
        self.curfile = GRID_FILE
        gmod = ast.parse(open(os.path.join(self.repo, GRID_FILE)).read())
        want = "Module(body=[ClassDef(name='ComponentGridInfo', bases=[Name(id='object', ctx=Load())], keywords=[], " \
               "body=[FunctionDef(name='__init__', args=arguments(posonlyargs=[], args=[arg(arg='self'), " \
               "arg(arg='levelvector'), arg(arg='coefficient')], kwonlyargs=[], kw_defaults=[], defaults=[]), " \
               "body=[Assign(targets=[Attribute(value=Name(id='self', ctx=Load()), attr='levelvector', ctx=Store())], " \
               "value=Name(id='levelvector', ctx=Load())), Assign(targets=[Attribute(value=Name(id='self', ctx=Load()), " \
               "attr='coefficient', ctx=Store())], value=Name(id='coefficient', ctx=Load()))], decorator_list=[]"
        got = ast.dump(gmod)
        if not got.replace(', type_params=[]', '').startswith(want):
            raise Reject(gmod, 'ComponentGridInfo is no longer the plain (levelvector, coefficient) constructor')
        # signatures
        for f in self.fns.values():
            self.curfile = f.file
            a = f.node.args
            if a.vararg or a.kwarg or a.kwonlyargs or a.posonlyargs:
                raise Reject(f.node, 'star / keyword-only parameters')
            args = list(a.args)
            if f.kind in ('method', 'init'):
                if not args or args[0].arg != 'self':
                    raise Reject(f.node, 'method without self')
                args = args[1:]
            defaults = [None] * (len(args) - len(a.defaults)) + list(a.defaults)
            for ar, df in zip(args, defaults):
                if (f.qual, ar.arg) in PARAM_OVERRIDE:
                    t = PARAM_OVERRIDE[(f.qual, ar.arg)]
                elif ar.annotation is None:
                    raise Reject(ar, 'parameter %s without annotation' % ar.arg)
                else:
                    t = ann_type(ar.annotation, ar)
                dterm = None
                if df is not None:
                    if isinstance(df, ast.Constant) and type(df.value) is bool and t == BOOL:
                        dterm = 'true' if df.value else 'false'
                    elif isinstance(df, ast.Constant) and type(df.value) is int and t == INT:
                        dterm = '(%d)' % df.value
                    else:
                        raise Reject(df, 'default value of parameter %s' % ar.arg)
                f.params.append((ident(ar.arg, ar), t, dterm))
            # call graph
            for n in ast.walk(f.node):
                if isinstance(n, ast.Call):
                    fn = n.func
                    if isinstance(fn, ast.Attribute) and isinstance(fn.value, ast.Name):
                        if fn.value.id in (CLASS_NAME, 'self'):
                            nm = self.unmangle(fn.attr)
                            if CLASS_NAME + '.' + nm in self.fns:
                                f.calls.add(CLASS_NAME + '.' + nm)
                    elif isinstance(fn, ast.Name) and fn.id in self.fns:
                        f.calls.add(fn.id)
            f.recursive = f.qual in f.calls
            if f.recursive != (f.qual in FUEL):
                raise Reject(f.node, 'recursion of %s does not match the declared fuel measures' % f.qual)
        # topological order
        order, state = [], {}

        def visit(q, stack):
            if state.get(q) == 2:
                return
            if state.get(q) == 1:
                raise Reject(self.fns[q].node, 'mutual recursion through %s' % ' -> '.join(stack + [q]))
            state[q] = 1
            for c in sorted(self.fns[q].calls, key=lambda c: self.fns[c].node.lineno):
                if c != q:
                    visit(c, stack + [q])
            state[q] = 2
            order.append(q)
        for q in sorted(self.fns, key=lambda q: (self.fns[q].file != UTILS_FILE, self.fns[q].node.lineno)):
            visit(q, [])
        init = CLASS_NAME + '.__init__'
        self.order = [q for q in order if q == init] + [q for q in order if q != init]

    @staticmethod
    def unmangle(attr):
        return attr

    # ------------------------------------------------------------------------------------------ driver
    def translate(self):
        self.load()
        if CLASS_NAME + '.__init__' not in self.fns:
            raise Reject(None, 'class without __init__')
        prev = None
        for it in range(6):
            self.strict = False
            self.run_pass()
            snap = (dict(self.fields), {q: (f.ret, f.returns_alias) for q, f in self.fns.items()})
            if snap == prev:
                break
            prev = snap
        else:
            raise Reject(None, 'type inference did not converge')
        self.strict = True
        return self.run_pass()

    def run_pass(self):
        out = []
        newfields = {}
        self.newfields = newfields
        for q in self.order:
            f = self.fns[q]
            self.curfile = f.file
            out.append((q, FnTranslator(self, f).run()))
        for a, t in newfields.items():
            self.fields[a] = t
        if not self.field_order:
            pass
        self.field_order = list(self.init_fields) + sorted(a for a in self.fields if a not in self.init_fields)
        return out

    def field_type(self, attr, node):
        if attr not in self.fields:
            if self.strict:
                raise Reject(node, 'attribute self.%s is never assigned in the class' % attr)
            return UNK
        return self.fields[attr]

    def note_field(self, attr, t, node):
        old = self.newfields.get(attr, self.fields.get(attr, UNK))
        self.newfields[attr] = join(old, t, node)


class FnTranslator:
    def __init__(self, tr, f):
        self.tr = tr
        self.f = f
        self.ntemp = 0
        self.rets = []            # types of returned values (NONE for bare return)
        self.used_iters = set()
        self.loop_depth = 0
        self.range_vars = set()   # loop variables of range(...) with non-negative start
        self.thread_self = (f.kind == 'method')   # methods take and return the object state

    def temp(self):
        self.ntemp += 1
        return '_t%d' % self.ntemp

    def rej(self, node, what):
        raise Reject(node, what)

    # ------------------------------------------------------------------------------------------ function
    def run(self):
        f = self.f
        env = {}
        if f.kind in ('method', 'init'):
            env['self'] = dict(t=OBJ, owned=True, depth=0)
        for (n, t, d) in f.params:
            if n in env:
                self.rej(f.node, 'duplicate parameter ' + n)
            env[n] = dict(t=t, owned=not is_mutable(t), depth=0)
        body = list(f.node.body)
        if body and isinstance(body[0], ast.Expr) and isinstance(body[0].value, ast.Constant) and \
                isinstance(body[0].value.value, str):
            body = body[1:]
        if f.kind == 'init':
            return self.run_init(body, env)
        if not self.definitely_returns(body):
            # falling off the end of a function = `return None`
            body.append(ast.Return(value=None, lineno=f.node.end_lineno, col_offset=0))
        # the return type of the previous pass decides how values are wrapped
        self.ret_t = f.ret
        lines, endenv = self.block(body, env, [], 2)
        rt = UNK
        for t in self.rets:
            rt = join(rt, t, f.node)
        f.ret = rt
        if self.tr.strict and has_unk(rt):
            self.rej(f.node, 'return type of %s could not be determined' % f.qual)
        params = ''.join(' (%s : %s)' % (n, gt(t, f.node) if not has_unk(t) else '_') for n, t, d in f.params)
        rts = gt(rt, f.node) if not has_unk(rt) else '_'
        if f.kind == 'method':
            sig = ' (self : CombiScheme_t)%s : option (%s * CombiScheme_t)' % (params, rts)
        else:
            sig = '%s : option %s' % (params, rts)
        src = '(* %s:%d-%d  %s *)' % (f.file, f.node.lineno, f.node.end_lineno, f.qual)
        defaults = [(n, d) for n, t, d in f.params if d is not None]
        if defaults:
            src += '\n(* default arguments: %s *)' % ', '.join('%s = %s' % nd for nd in defaults)
        if f.recursive:
            p = f.params[FUEL[f.qual]][0]
            head = 'Fixpoint %s_rec (fuel : nat)%s :=\n  match fuel with\n  | O => None\n  | S fuel =>' % (f.gname, sig)
            text = src + '\n' + head + '\n  run_flow (V:=unit) (\n' + '\n'.join(lines) + ')\n  end.\n'
            text += 'Definition %s%s :=\n  %s_rec (S (Z.to_nat %s))%s.\n' % (
                f.gname, sig, f.gname, p, ''.join(' ' + n for n, t, d in f.params))
        else:
            text = src + '\nDefinition %s%s :=\n  run_flow (V:=unit) (\n' % (f.gname, sig) + '\n'.join(lines) + ').\n'
        return text

    def run_init(self, body, env):
        f = self.f
        vals = {}
        order = []
        for st in body:
            if not (isinstance(st, ast.Assign) and len(st.targets) == 1 and isinstance(st.targets[0], ast.Attribute)
                    and isinstance(st.targets[0].value, ast.Name) and st.targets[0].value.id == 'self'):
                self.rej(st, '__init__ may only contain `self.attr = expr` statements')
            a = st.targets[0].attr
            if a in vals:
                self.rej(st, 'attribute %s assigned twice in __init__' % a)
            binds, term, t = self.expr(st.value, env)
            if binds:
                self.rej(st, 'raising expression in __init__')
            self.check_store(st.value, t, st)
            vals[a] = term
            order.append(a)
            self.tr.note_field(a, t, st)
        self.tr.init_fields = order
        f.ret = OBJ
        params = ''.join(' (%s : %s)' % (n, gt(t, f.node)) for n, t, d in f.params)
        allf = self.tr.field_order or order
        args = ' '.join('(%s)' % vals[a] if a in vals else 'None' for a in allf)
        src = '(* %s:%d-%d  %s *)' % (f.file, f.node.lineno, f.node.end_lineno, f.qual)
        return src + '\nDefinition %s%s : option CombiScheme_t :=\n  Some (mk_CombiScheme_t %s).\n' % (f.gname, params, args)

    def definitely_returns(self, stmts):
        if not stmts:
            return False
        s = stmts[-1]
        if isinstance(s, ast.Return):
            return True
        if isinstance(s, ast.If):
            return self.definitely_returns(s.body) and self.definitely_returns(s.orelse)
        return False

    # ------------------------------------------------------------------------------------------ helpers
    def tuple_term(self, names):
        if not names:
            return 'tt'
        if len(names) == 1:
            return names[0]
        return '(' + ', '.join(names) + ')'

    def pat(self, names):
        if not names:
            return '_'
        if len(names) == 1:
            return names[0]
        return "'(" + ', '.join(names) + ')'

    def lam_pat(self, names):
        if not names:
            return '(_ : unit)'
        if len(names) == 1:
            return names[0]
        return "'(" + ', '.join(names) + ')'

    def emit_binds(self, binds, ind):
        return [' ' * ind + '%s <- (%s) ;;' % (p, e) for p, e in binds]

    def opt_chain(self, binds, final):
        return ' '.join('%s <?- (%s) ;;' % (p, e) for p, e in binds) + ' ' + final

    def assigned(self, stmts):
        """names (re)bound by a statement list, 'self' for any change of the object state"""
        res = []

        def add(n):
            if n not in res:
                res.append(n)

        def target(t):
            if isinstance(t, ast.Name):
                add(t.id)
            elif isinstance(t, ast.Attribute) and isinstance(t.value, ast.Name) and t.value.id == 'self':
                add('self')
            elif isinstance(t, ast.Subscript) and isinstance(t.value, ast.Name):
                add(t.value.id)
            elif isinstance(t, ast.Subscript) and isinstance(t.value, ast.Attribute) and \
                    isinstance(t.value.value, ast.Name) and t.value.value.id == 'self':
                add('self')
            else:
                self.rej(t, 'assignment target %s' % type(t).__name__)
        for st in stmts:
            for n in ast.walk(st):
                if isinstance(n, ast.Call) and isinstance(n.func, ast.Attribute):
                    v = n.func.value
                    if isinstance(v, ast.Name) and v.id == 'self':
                        add('self')       # every method takes and returns the object state
                    elif n.func.attr in ('append', 'extend', 'add', 'remove'):
                        if isinstance(v, ast.Name):
                            add(v.id)
                        elif isinstance(v, ast.Attribute) and isinstance(v.value, ast.Name) and v.value.id == 'self':
                            add('self')
                if isinstance(n, ast.Assign):
                    for t in n.targets:
                        target(t)
                if isinstance(n, ast.AugAssign):
                    target(n.target)
        return res

    def check_store(self, node, t, where):
        """a bare mutable variable / attribute must not be stored (aliasing)"""
        if is_mutable(t) and isinstance(node, (ast.Name, ast.Attribute, ast.Subscript)):
            self.rej(where, 'storing the mutable object %s without copying it (aliasing)' % ast.unparse(node))

    # ------------------------------------------------------------------------------------------ statements
    def block(self, stmts, env, out, ind):
        """returns (lines, env at the end or None when the block cannot fall through)"""
        sp = ' ' * ind
        if not stmts:
            return [sp + 'Nxt ' + self.tuple_term(out)], env
        st, rest = stmts[0], stmts[1:]
        env = dict(env)
        L = []

        def cont():
            lines, e = self.block(rest, env, out, ind)
            return L + lines, e

        if isinstance(st, ast.Pass):
            return cont()
        if isinstance(st, ast.Return):
            if rest:
                self.rej(rest[0], 'statement after return')
            if st.value is None or (isinstance(st.value, ast.Constant) and st.value.value is None):   # return / return None
                self.rets.append(NONE)
                term, t = None, NONE
            elif isinstance(st.value, ast.Tuple):
                parts = [self.expr(e, env) for e in st.value.elts]
                binds = sum((p[0] for p in parts), [])
                L += self.emit_binds(binds, ind)
                term = '(' + ', '.join(p[1] for p in parts) + ')'
                t = ('pair',) + tuple(p[2] for p in parts)
                self.rets.append(t)
            else:
                binds, term, t = self.expr(st.value, env, consume=True)
                L += self.emit_binds(binds, ind)
                if is_mutable(t) and isinstance(st.value, ast.Attribute):
                    self.f.returns_alias = True
                if is_mutable(t) and isinstance(st.value, ast.Name) and not env[st.value.id]['owned']:
                    self.f.returns_alias = True
                self.rets.append(t)
            rt = self.ret_t
            if rt[0] == 'opt' and t[0] != 'opt':
                term = 'None' if t == NONE else 'Some %s' % term
            elif t == NONE:
                term = 'tt'
            elif t == INT and rt == FLOAT:
                term = '(py_Z2Qc %s)' % term
            if self.thread_self:
                term = '(%s, self)' % term
            return L + [sp + 'Ret %s' % term], None
        if isinstance(st, ast.Assert):
            if st.msg is not None:
                self.rej(st, 'assert with message')
            if isinstance(st.test, ast.Call) and isinstance(st.test.func, ast.Name) and st.test.func.id == 'isinstance':
                L.append(sp + '(* dropped: %s *)' % ast.unparse(st).replace('*)', '* )'))
                return cont()
            binds, term, t = self.expr(st.test, env)
            if t not in (BOOL, UNK):
                self.rej(st, 'assert on a non-boolean value')
            L += self.emit_binds(binds, ind)
            lines, e = self.block(rest, env, out, ind)
            return L + [sp + 'py_assert %s (' % term] + lines + [sp + ')'], e
        if isinstance(st, ast.Expr):
            return self.expr_stmt(st, env, L, cont, ind)
        if isinstance(st, ast.Assign):
            if len(st.targets) != 1:
                self.rej(st, 'multiple assignment targets')
            self.assign(st.targets[0], st.value, st, env, L, ind)
            return cont()
        if isinstance(st, ast.AugAssign):
            self.augassign(st, env, L, ind)
            return cont()
        if isinstance(st, ast.If):
            binds, term, t = self.expr(st.test, env)
            if t not in (BOOL, UNK):
                self.rej(st, 'if on a non-boolean value (truthiness of %s is not translated)' % (t,))
            L += self.emit_binds(binds, ind)
            vs = [n for n in env if n in self.assigned(st.body + st.orelse)]
            la, ea = self.block(st.body, env, vs, ind + 4)
            lb, eb = self.block(st.orelse, env, vs, ind + 4)
            self.merge(env, [ea, eb], vs, st)
            L += [sp + '%s <~ (if %s then (' % (self.pat(vs), term)] + la + [sp + '  ) else ('] + lb + [sp + '  )) ;;']
            if ea is None and eb is None:
                if rest:
                    self.rej(rest[0], 'statement after an if whose branches both return')
                return L + [sp + 'Nxt ' + self.tuple_term(out)], None
            return cont()
        if isinstance(st, ast.For):
            if st.orelse:
                self.rej(st, 'for ... else')
            binds, it, elt, tpat, tnames, nonneg = self.iterable(st.iter, st.target, env)
            L += self.emit_binds(binds, ind)
            benv = dict(env)
            for n, t in tnames:
                if n in env:
                    self.rej(st, 'loop variable %s shadows an existing variable' % n)
                benv[n] = dict(t=t, owned=False, depth=self.loop_depth + 1)
                if nonneg:
                    self.range_vars.add(n)
            vs = [n for n in env if n in self.assigned(st.body)]
            self.loop_depth += 1
            lb, eb = self.block(st.body, benv, vs, ind + 4)
            self.loop_depth -= 1
            self.merge(env, [eb], vs, st)
            for n, t in tnames:
                self.range_vars.discard(n)
            L += [sp + '%s <~ (py_for %s (fun %s %s =>' % (self.pat(vs), it, tpat, self.lam_pat(vs))] + lb + \
                 [sp + '  ) %s) ;;' % self.tuple_term(vs)]
            return cont()
        self.rej(st, 'statement %s' % type(st).__name__)

    def merge(self, env, ends, vs, node):
        """types / ownership of the live-out variables after a branch or loop"""
        for n in vs:
            t = env[n]['t']
            owned = env[n]['owned']
            for e in ends:
                if e is None:
                    continue
                t2 = e[n]['t']
                if not same_repr(t, t2) and not (has_unk(t) or has_unk(t2)):
                    self.rej(node, 'variable %s changes its type in a branch / loop body' % n)
                t = join(t, t2, node)
                owned = owned and e[n]['owned']
            env[n] = dict(env[n], t=t, owned=owned)

    def setvar(self, env, name, t, owned, node):
        ident(name, node)
        if name == 'self':
            self.rej(node, 'assignment to self')
        if name in env and not same_repr(env[name]['t'], t) and not has_unk(t) and not has_unk(env[name]['t']) \
                and env[name]['depth'] < self.loop_depth:
            self.rej(node, 'variable %s changes its type inside a loop' % name)
        d = env[name]['depth'] if name in env else self.loop_depth
        env[name] = dict(t=t, owned=owned, depth=d)
        self.used_iters.discard(name)

    FRESH = (ast.List, ast.ListComp, ast.Dict, ast.BinOp, ast.Call, ast.Tuple, ast.Constant, ast.Compare, ast.BoolOp,
             ast.UnaryOp)

    def assign(self, target, value, st, env, L, ind):
        sp = ' ' * ind
        if isinstance(target, ast.Name):
            # binding an iterator to a name does not consume it; every later use of the name is checked
            binds, term, t = self.expr(value, env, consume=isinstance(value, ast.Call))
            L += self.emit_binds(binds, ind)
            if is_mutable(t) and not isinstance(value, self.FRESH):
                self.rej(st, 'assignment `%s` makes two names refer to one mutable object (aliasing)' % ast.unparse(st))
            self.setvar(env, target.id, t, True, st)
            L.append(sp + 'let %s := %s in' % (target.id, term))
            return
        if isinstance(target, ast.Attribute) and isinstance(target.value, ast.Name) and target.value.id == 'self':
            binds, term, t = self.expr(value, env)
            L += self.emit_binds(binds, ind)
            self.check_store(value, t, st)
            if t == ('iter',):
                self.rej(st, 'storing an iterator')
            a = target.attr
            self.tr.note_field(a, t, st)
            if a not in self.tr.init_fields:
                term = '(Some %s)' % term
            L.append(sp + 'let self := set_f_%s self %s in' % (a, term))
            return
        if isinstance(target, ast.Subscript) and isinstance(target.value, ast.Name) and target.value.id != 'self':
            x = target.value.id
            if x not in env:
                self.rej(st, 'unknown variable ' + x)
            tx = env[x]['t']
            bi, ti, tyi = self.expr(target.slice, env)
            bv, tv, tyv = self.expr(value, env)
            L += self.emit_binds(bi + bv, ind)
            self.check_store(value, tyv, st)
            self.store_sub(x, tx, ti, tyi, tv, tyv, env, st, L, ind)
            return
        self.rej(st, 'assignment target %s' % ast.unparse(target))

    def store_sub(self, x, tx, ti, tyi, tv, tyv, env, st, L, ind):
        sp = ' ' * ind
        if not env[x]['owned']:
            self.rej(st, 'mutation of %s, which may be shared with the caller or another object (aliasing)' % x)
        if tx[0] == 'list':
            if tyi not in (INT, UNK):
                self.rej(st, 'list index of type %s' % (tyi,))
            env[x] = dict(env[x], t=('list', join(tx[1], tyv, st)))
            L.append(sp + '%s <- (py_setitem %s %s %s) ;;' % (x, x, ti, tv))
        elif tx[0] == 'dict':
            if not (is_tupi(tyi) or tyi == UNK):
                self.rej(st, 'dict key of type %s (only tuples of ints)' % (tyi,))
            env[x] = dict(env[x], t=('dict', TUPI, join(tx[2], tyv, st)))
            L.append(sp + 'let %s := py_dict_set %s %s %s in' % (x, x, ti, tv))
        elif tx == UNK and not self.tr.strict:
            pass
        else:
            self.rej(st, 'item assignment on a value of type %s' % (tx,))

    def augassign(self, st, env, L, ind):
        sp = ' ' * ind
        if not isinstance(st.op, (ast.Add, ast.Sub)):
            self.rej(st, 'augmented assignment operator %s' % type(st.op).__name__)
        op = '+' if isinstance(st.op, ast.Add) else '-'
        bv, tv, tyv = self.expr(st.value, env)
        if tyv not in (INT, UNK):
            self.rej(st, 'augmented assignment with a value of type %s' % (tyv,))
        tg = st.target
        if isinstance(tg, ast.Name):
            if tg.id not in env:
                self.rej(st, 'unknown variable ' + tg.id)
            if env[tg.id]['t'] not in (INT, UNK):
                self.rej(st, 'augmented assignment to a variable of type %s' % (env[tg.id]['t'],))
            L += self.emit_binds(bv, ind)
            L.append(sp + 'let %s := (%s %s %s) in' % (tg.id, tg.id, op, tv))
            self.setvar(env, tg.id, INT, True, st)
            return
        if isinstance(tg, ast.Subscript) and isinstance(tg.value, ast.Name) and tg.value.id != 'self':
            x = tg.value.id
            if x not in env:
                self.rej(st, 'unknown variable ' + x)
            tx = env[x]['t']
            bi, ti, tyi = self.expr(tg.slice, env)
            if bi:
                self.rej(st, 'raising index expression in an augmented assignment')
            old = self.temp()
            if tx[0] == 'list':
                L.append(sp + '%s <- (py_getitem %s %s) ;;' % (old, x, ti))
                elt = tx[1]
            elif tx[0] == 'dict':
                L.append(sp + '%s <- (py_dict_get %s %s) ;;' % (old, x, ti))
                elt = tx[2]
            elif tx == UNK and not self.tr.strict:
                return
            else:
                self.rej(st, 'augmented item assignment on a value of type %s' % (tx,))
            if elt not in (INT, UNK):
                self.rej(st, 'augmented item assignment on elements of type %s' % (elt,))
            L += self.emit_binds(bv, ind)
            self.store_sub(x, tx, ti, tyi, '(%s %s %s)' % (old, op, tv), INT, env, st, L, ind)
            return
        self.rej(st, 'augmented assignment target %s' % ast.unparse(tg))

    def expr_stmt(self, st, env, L, cont, ind):
        sp = ' ' * ind
        c = st.value
        if isinstance(c, ast.Constant) and isinstance(c.value, str):
            return cont()
        if not isinstance(c, ast.Call):
            self.rej(st, 'expression statement %s' % type(c).__name__)
        if isinstance(c.func, ast.Name) and c.func.id == 'print':
            L.append(sp + '(* dropped: %s *)' % ast.unparse(st).replace('(*', '( *').replace('*)', '* )'))
            return cont()
        if isinstance(c.func, ast.Attribute) and c.func.attr in ('append', 'extend', 'add', 'remove') and \
                not (isinstance(c.func.value, ast.Name) and c.func.value.id == 'self'):
            if len(c.args) != 1 or c.keywords:
                self.rej(st, 'arguments of .%s' % c.func.attr)
            m = c.func.attr
            recv = c.func.value
            ba, ta, tya = self.expr(c.args[0], env, consume=(m == 'extend'))
            L += self.emit_binds(ba, ind)
            if m != 'extend':
                self.check_store(c.args[0], tya, st)
            if isinstance(recv, ast.Name):
                x = recv.id
                if x not in env:
                    self.rej(st, 'unknown variable ' + x)
                if not env[x]['owned']:
                    self.rej(st, 'mutation of %s, which may be shared with the caller or another object (aliasing)' % x)
                cur, tx = x, env[x]['t']
            elif isinstance(recv, ast.Attribute) and isinstance(recv.value, ast.Name) and recv.value.id == 'self':
                bb, cur, tx = self.expr(recv, env)
                L += self.emit_binds(bb, ind)
            else:
                self.rej(st, 'receiver of .%s' % m)
            if tx[0] == 'list' and m == 'append':
                nt = ('list', join(tx[1], tya, st))
                new = '(%s ++ [%s])' % (cur, ta)
            elif tx[0] == 'list' and m == 'extend':
                if tya[0] not in ('list', 'tuple', 'iter', 'set') and tya != UNK:
                    self.rej(st, 'extend with a value of type %s' % (tya,))
                nt = ('list', join(tx[1], tya[1] if tya != UNK else UNK, st))
                new = '(%s ++ %s)' % (cur, ta)
            elif tx[0] == 'set' and m == 'add':
                if not (is_tupi(tya) and tya[0] == 'tuple') and tya != UNK:
                    self.rej(st, 'set element of type %s (only tuples of ints)' % (tya,))
                nt = ('set', TUPI)
                new = '(py_set_add %s %s)' % (ta, cur)
            elif tx[0] == 'set' and m == 'remove':
                if not (is_tupi(tya) and tya[0] == 'tuple') and tya != UNK:
                    self.rej(st, 'set element of type %s (only tuples of ints)' % (tya,))
                nt = tx
                tmp = self.temp()
                L.append(sp + '%s <- (py_set_remove %s %s) ;;' % (tmp, ta, cur))
                new = tmp
            elif tx == UNK and not self.tr.strict:
                return cont()
            else:
                self.rej(st, '.%s on a value of type %s' % (m, tx))
            if isinstance(recv, ast.Name):
                env[recv.id] = dict(env[recv.id], t=nt)
                L.append(sp + 'let %s := %s in' % (recv.id, new))
            else:
                self.tr.note_field(recv.attr, nt, st)
                if recv.attr not in self.tr.init_fields:
                    new = '(Some %s)' % new
                L.append(sp + 'let self := set_f_%s self %s in' % (recv.attr, new))
            return cont()
        # any other call: evaluated for its effect on the object state
        binds, term, t = self.expr(c, env)
        if not binds:
            self.rej(st, 'call statement without effect: %s' % ast.unparse(c))
        L += self.emit_binds(binds, ind)
        return cont()

    # ------------------------------------------------------------------------------------------ iteration
    def iterable(self, it, target, env):
        """-> binds, list term, element type, lambda binder, [(name, type)], range-with-nonnegative-start?"""
        nonneg = False
        if isinstance(it, ast.Call) and isinstance(it.func, ast.Attribute) and it.func.attr == 'items' and not it.args:
            b, term, t = self.expr(it.func.value, env)
            if t[0] != 'dict' and t != UNK:
                self.rej(it, '.items() on a value of type %s' % (t,))
            if not (isinstance(target, ast.Tuple) and len(target.elts) == 2 and
                    all(isinstance(e, ast.Name) for e in target.elts)):
                self.rej(target, 'loop target over .items() must be `key, value`')
            k, v = target.elts[0].id, target.elts[1].id
            ident(k, target); ident(v, target)
            kt, vt = (t[1], t[2]) if t != UNK else (UNK, UNK)
            return b, term, ('pair', kt, vt), "'(%s, %s)" % (k, v), [(k, kt), (v, vt)], False
        if not isinstance(target, ast.Name):
            self.rej(target, 'loop target %s' % type(target).__name__)
        ident(target.id, target)
        if isinstance(it, ast.Call) and isinstance(it.func, ast.Name) and it.func.id == 'range':
            nonneg = len(it.args) == 1 or (len(it.args) == 2 and isinstance(it.args[0], ast.Constant) and
                                           type(it.args[0].value) is int and it.args[0].value >= 0)
        b, term, t = self.expr(it, env, consume=True)
        if t == UNK:
            return b, term, UNK, target.id, [(target.id, UNK)], nonneg
        if t[0] not in ('list', 'tuple', 'set', 'iter', 'nparr'):
            self.rej(it, 'iteration over a value of type %s' % (t,))
        elt = INT if t[0] == 'nparr' else t[1]
        return b, term, elt, target.id, [(target.id, elt)], nonneg

    # ------------------------------------------------------------------------------------------ expressions
    def expr(self, e, env, consume=False):
        """-> (binds [(pattern, option-term)], pure term, type).  consume: an iterator may be used (once) here."""
        binds, term, t = self.expr0(e, env)
        if t[0] == 'iter' and not consume:
            self.rej(e, 'iterator used in a position where it is not consumed exactly once')
        return binds, term, t

    def need(self, cond, node, what):
        if not cond:
            self.rej(node, what)

    def expr0(self, e, env):
        S = self.tr.strict
        if isinstance(e, ast.Constant):
            if type(e.value) is bool:
                return [], 'true' if e.value else 'false', BOOL
            if type(e.value) is int:
                return [], '(%d)' % e.value if e.value < 0 else '%d' % e.value, INT
            self.rej(e, 'constant %r' % (e.value,))
        if isinstance(e, ast.Name):
            if e.id not in env:
                self.rej(e, 'variable %s is not defined on every path to this use (or is a global)' % e.id)
            t = env[e.id]['t']
            if t[0] == 'iter':
                if e.id in self.used_iters or env[e.id]['depth'] != self.loop_depth:
                    self.rej(e, 'iterator %s may be consumed more than once' % e.id)
                self.used_iters.add(e.id)
            return [], e.id, t
        if isinstance(e, ast.Attribute):
            if isinstance(e.value, ast.Name) and e.value.id == 'self':
                self.need('self' in env, e, 'self outside a method')
                t = self.tr.field_type(e.attr, e)
                if e.attr in self.tr.init_fields:
                    return [], '(f_%s self)' % e.attr, t
                tmp = self.temp()
                return [(tmp, 'f_%s self' % e.attr)], tmp, t
            b, term, t = self.expr(e.value, env)
            if t == GRID and e.attr == 'levelvector':
                return b, '(fst %s)' % term, TUPI
            if t == GRID and e.attr == 'coefficient':
                return b, '(snd %s)' % term, FLOAT
            self.rej(e, 'attribute .%s' % e.attr)
        if isinstance(e, ast.UnaryOp):
            b, term, t = self.expr(e.operand, env)
            if isinstance(e.op, ast.USub):
                self.need(t in (INT, UNK), e, 'unary minus on %s' % (t,))
                return b, '(- %s)' % term, INT
            if isinstance(e.op, ast.Not):
                self.need(t in (BOOL, UNK), e, '`not` on a non-boolean value (truthiness is not translated)')
                return b, '(negb %s)' % term, BOOL
            self.rej(e, 'unary operator %s' % type(e.op).__name__)
        if isinstance(e, ast.BoolOp):
            isand = isinstance(e.op, ast.And)
            parts = [self.expr(v, env) for v in e.values]
            for p in parts:
                self.need(p[2] in (BOOL, UNK), e, 'and/or on non-boolean values (truthiness is not translated)')
            # right to left: a op (b op c)
            binds, term, _ = parts[-1]
            for p in reversed(parts[:-1]):
                if not binds:
                    binds, term = p[0], '(%s %s %s)' % (p[1], '&&' if isand else '||', term)
                else:
                    for pt, _e in binds:
                        if 'self' in pt:
                            self.rej(e, 'method call in the right operand of and/or')
                    tmp = self.temp()
                    inner = '(' + self.opt_chain(binds, 'Some %s' % term) + ')'
                    if isand:
                        ite = 'if %s then %s else Some false' % (p[1], inner)
                    else:
                        ite = 'if %s then Some true else %s' % (p[1], inner)
                    binds, term = p[0] + [(tmp, ite)], tmp
            return binds, term, BOOL
        if isinstance(e, ast.Compare):
            self.need(len(e.ops) == 1, e, 'chained comparison')
            op = e.ops[0]
            bl, tl, tyl = self.expr(e.left, env)
            br, tr_, tyr = self.expr(e.comparators[0], env)
            if isinstance(op, (ast.In, ast.NotIn)):
                if tyr[0] == 'set':
                    self.need((is_tupi(tyl) and tyl[0] == 'tuple') or tyl == UNK, e,
                              'membership of a value of type %s in a set (only tuples of ints)' % (tyl,))
                    term = '(py_set_mem %s %s)' % (tl, tr_)
                elif tyr[0] == 'dict':
                    self.need((is_tupi(tyl) and tyl[0] == 'tuple') or tyl == UNK, e, 'dict key of type %s' % (tyl,))
                    term = '(py_dict_mem %s %s)' % (tl, tr_)
                elif tyr == UNK and not S:
                    term = '?'
                else:
                    self.rej(e, '`in` on a value of type %s' % (tyr,))
                if isinstance(op, ast.NotIn):
                    term = '(negb %s)' % term
                return bl + br, term, BOOL
            ops = {ast.Lt: '<?', ast.LtE: '<=?', ast.Gt: '>?', ast.GtE: '>=?', ast.Eq: '=?'}
            if type(op) in ops or isinstance(op, ast.NotEq):
                self.need(tyl in (INT, UNK) and tyr in (INT, UNK), e, 'comparison of %s and %s (only ints)' % (tyl, tyr))
                if isinstance(op, ast.NotEq):
                    return bl + br, '(negb (%s =? %s))' % (tl, tr_), BOOL
                return bl + br, '(%s %s %s)' % (tl, ops[type(op)], tr_), BOOL
            self.rej(e, 'comparison operator %s' % type(op).__name__)
        if isinstance(e, ast.BinOp):
            return self.binop(e, env)
        if isinstance(e, ast.List):
            parts = [self.expr(x, env) for x in e.elts]
            t = UNK
            for x, p in zip(e.elts, parts):
                self.check_store(x, p[2], e)
                t = join(t, p[2], e)
            return sum((p[0] for p in parts), []), '[' + '; '.join(p[1] for p in parts) + ']', ('list', t)
        if isinstance(e, ast.Dict):
            self.need(not e.keys, e, 'non-empty dict literal')
            return [], '[]', ('dict', TUPI, UNK)
        if isinstance(e, ast.ListComp):
            self.need(len(e.generators) == 1, e, 'nested comprehension generators')
            g = e.generators[0]
            self.need(not g.ifs and not g.is_async, e, 'comprehension condition')
            b, it, elt, tpat, tnames, nonneg = self.iterable(g.iter, g.target, env)
            cenv = dict(env)
            for n, t in tnames:
                cenv[n] = dict(t=t, owned=False, depth=self.loop_depth)
            be, te, tye = self.expr(e.elt, cenv)
            self.check_store(e.elt, tye, e)
            if not be:
                return b, '(map (fun %s => %s) %s)' % (tpat, te, it), ('list', tye)
            for pt, _e in be:
                if 'self' in pt:
                    self.rej(e, 'method call inside a comprehension')
            tmp = self.temp()
            return b + [(tmp, 'py_mapM (fun %s => %s) %s' % (tpat, self.opt_chain(be, 'Some %s' % te), it))], tmp, \
                ('list', tye)
        if isinstance(e, ast.Subscript):
            self.need(not isinstance(e.slice, ast.Slice), e, 'slice')
            bv, tv, tyv = self.expr(e.value, env)
            bi, ti, tyi = self.expr(e.slice, env)
            tmp = self.temp()
            if tyv[0] in ('list', 'tuple', 'nparr'):
                self.need(tyi in (INT, UNK), e, 'index of type %s' % (tyi,))
                return bv + bi + [(tmp, 'py_getitem %s %s' % (tv, ti))], tmp, INT if tyv[0] == 'nparr' else tyv[1]
            if tyv[0] == 'dict':
                self.need(is_tupi(tyi) or tyi == UNK, e, 'dict key of type %s' % (tyi,))
                return bv + bi + [(tmp, 'py_dict_get %s %s' % (tv, ti))], tmp, tyv[2]
            if tyv == UNK and not S:
                return bv + bi, '?', UNK
            self.rej(e, 'subscript on a value of type %s' % (tyv,))
        if isinstance(e, ast.Call):
            return self.call(e, env)
        self.rej(e, 'expression %s' % type(e).__name__)

    def binop(self, e, env):
        S = self.tr.strict
        bl, tl, tyl = self.expr(e.left, env)
        br, tr_, tyr = self.expr(e.right, env)
        b = bl + br
        op = e.op
        if UNK in (tyl, tyr) and not S:
            return b, '?', UNK
        if tyl == INT and tyr == INT:
            if isinstance(op, (ast.Add, ast.Sub, ast.Mult)):
                return b, '(%s %s %s)' % (tl, {ast.Add: '+', ast.Sub: '-', ast.Mult: '*'}[type(op)], tr_), INT
            if isinstance(op, (ast.Mod, ast.FloorDiv)):
                c = e.right
                self.need(isinstance(c, ast.Constant) and type(c.value) is int and c.value > 0, e,
                          '% or // with a divisor that is not a positive literal')
                return b, '(%s %s %s)' % (tl, 'mod' if isinstance(op, ast.Mod) else '/', tr_), INT
            if isinstance(op, ast.Pow):
                x = e.right
                ok = (isinstance(x, ast.Constant) and type(x.value) is int and x.value >= 0) or \
                     (isinstance(x, ast.Name) and x.id in self.range_vars)
                self.need(ok, e, '** with an exponent that is not visibly non-negative (literal or range() loop variable)')
                return b, '(py_pow %s %s)' % (tl, tr_), INT
            if isinstance(op, ast.Div):
                tmp = self.temp()
                return b + [(tmp, 'py_truediv %s %s' % (tl, tr_))], tmp, FLOAT
        if tyl[0] == 'list' and tyr[0] == 'list' and isinstance(op, ast.Add):
            return b, '(%s ++ %s)' % (tl, tr_), ('list', join(tyl[1], tyr[1], e))
        if tyl[0] == 'set' and tyr[0] == 'set' and isinstance(op, ast.BitOr):
            return b, '(py_set_union %s %s)' % (tl, tr_), ('set', join(tyl[1], tyr[1], e))
        if tyl == NPARR and tyr == NPARR and isinstance(op, ast.Add):
            tmp = self.temp()
            return b + [(tmp, 'np_add %s %s' % (tl, tr_))], tmp, NPARR
        if tyl == NPARR and tyr == INT and isinstance(op, ast.Mult):
            return b, '(np_scale %s %s)' % (tl, tr_), NPARR
        self.rej(e, 'operator %s on %s and %s' % (type(op).__name__, tyl, tyr))

    def plain_args(self, c, n=None):
        self.need(not c.keywords and not any(isinstance(a, ast.Starred) for a in c.args), c,
                  'keyword / star arguments in call of %s' % ast.unparse(c.func))
        if n is not None:
            self.need(len(c.args) == n, c, 'call of %s with %d arguments' % (ast.unparse(c.func), len(c.args)))

    def dtype_int(self, c):
        self.need(len(c.keywords) == 1 and c.keywords[0].arg == 'dtype' and isinstance(c.keywords[0].value, ast.Name)
                  and c.keywords[0].value.id == 'int' and len(c.args) == 1, c, 'numpy call other than f(x, dtype=int)')

    def call(self, c, env):
        S = self.tr.strict
        fn = c.func
        if isinstance(fn, ast.Name):
            n = fn.id
            self.need(n not in env, c, 'call of a local variable')
            if n in ('tuple', 'list'):
                self.plain_args(c, 1)
                b, term, t = self.expr(c.args[0], env, consume=True)
                if t == UNK and not S:
                    return b, term, UNK
                self.need(t[0] in ('list', 'tuple', 'iter', 'nparr'), c, '%s() of a value of type %s' % (n, t))
                return b, term, (n, INT if t == NPARR else t[1])
            if n == 'set':
                self.plain_args(c)
                if not c.args:
                    return [], '[]', ('set', TUPI)
                self.need(len(c.args) == 1, c, 'set() with several arguments')
                b, term, t = self.expr(c.args[0], env, consume=True)
                if t == UNK and not S:
                    return b, '?', ('set', TUPI)
                self.need(t[0] in ('list', 'iter') and (t[1] == UNK or (is_tupi(t[1]) and t[1][0] == 'tuple')), c,
                          'set() of a value of type %s (only lists of int tuples)' % (t,))
                return b, '(py_set_of_list %s)' % term, ('set', TUPI)
            if n == 'range':
                self.plain_args(c)
                self.need(len(c.args) in (1, 2), c, 'range with %d arguments' % len(c.args))
                parts = [self.expr(a, env) for a in c.args]
                for p in parts:
                    self.need(p[2] in (INT, UNK), c, 'range over %s' % (p[2],))
                b = sum((p[0] for p in parts), [])
                if len(parts) == 1:
                    return b, '(py_range %s)' % parts[0][1], ('tuple', INT)
                return b, '(py_range2 %s %s)' % (parts[0][1], parts[1][1]), ('tuple', INT)
            if n in ('len', 'abs', 'sum'):
                self.plain_args(c, 1)
                b, term, t = self.expr(c.args[0], env, consume=(n == 'sum'))
                if n == 'len':
                    self.need(t[0] in ('list', 'tuple', 'set', 'dict', 'nparr') or t == UNK, c, 'len of %s' % (t,))
                    return b, '(py_len %s)' % term, INT
                if n == 'abs':
                    self.need(t in (INT, UNK), c, 'abs of %s' % (t,))
                    return b, '(Z.abs %s)' % term, INT
                self.need(t == UNK or (t[0] in ('list', 'tuple', 'iter') and t[1] in (INT, UNK)), c, 'sum of %s' % (t,))
                return b, '(py_sum %s)' % term, INT
            if n in ('min', 'max'):
                self.plain_args(c, 2)
                p = [self.expr(a, env) for a in c.args]
                self.need(all(x[2] in (INT, UNK) for x in p), c, '%s of non-int values' % n)
                return p[0][0] + p[1][0], '(Z.%s %s %s)' % (n, p[0][1], p[1][1]), INT
            if n == 'map':
                self.plain_args(c, 3)
                lam = c.args[0]
                self.need(isinstance(lam, ast.Lambda) and len(lam.args.args) == 2 and not lam.args.defaults
                          and not lam.args.vararg and not lam.args.kwarg, c, 'map with anything but a two-argument lambda')
                pa = [self.expr(a, env, consume=True) for a in c.args[1:]]
                lenv = dict(env)
                names = []
                for a, p in zip(lam.args.args, pa):
                    self.need(p[2] == UNK or p[2][0] in ('list', 'tuple', 'iter'), c, 'map over %s' % (p[2],))
                    lenv[ident(a.arg, c)] = dict(t=p[2][1] if p[2] != UNK else UNK, owned=False, depth=self.loop_depth)
                    names.append(a.arg)
                bb, tb, tyb = self.expr(lam.body, lenv)
                self.need(not bb, c, 'raising expression inside a lambda')
                return pa[0][0] + pa[1][0], '(py_map2 (fun %s %s => %s) %s %s)' % (names[0], names[1], tb, pa[0][1], pa[1][1]), \
                    ('iter', tyb)
            if n == 'product':
                self.need(self.f.file == UTILS_FILE, c, 'product() outside Utils.py')
                self.need(len(c.args) == 1 and isinstance(c.args[0], ast.Starred) and not c.keywords, c,
                          'product called with anything but one starred argument')
                b, term, t = self.expr(c.args[0].value, env)
                self.need(t == UNK or (t[0] in ('list', 'tuple') and t[1][0] in ('list', 'tuple')), c, 'product(*%s)' % (t,))
                return b, '(py_product %s)' % term, ('iter', ('tuple', t[1][1]))
            if n == 'ComponentGridInfo':
                self.need(not c.args and sorted(k.arg for k in c.keywords) == ['coefficient', 'levelvector'], c,
                          'ComponentGridInfo(...) without exactly the keywords levelvector=, coefficient=')
                kw = {k.arg: k.value for k in c.keywords}
                bl, tl, tyl = self.expr(kw['levelvector'], env)
                bc, tc, tyc = self.expr(kw['coefficient'], env)
                self.check_store(kw['levelvector'], tyl, c)
                self.need(tyl == UNK or tyl == NPARR or is_tupi(tyl), c, 'levelvector of type %s' % (tyl,))
                self.need(tyc in (INT, FLOAT, UNK), c, 'coefficient of type %s' % (tyc,))
                if tyc == INT:
                    tc = '(py_Z2Qc %s)' % tc
                # keyword arguments are evaluated in source order
                first = c.keywords[0].arg
                b = bl + bc if first == 'levelvector' else bc + bl
                return b, '(%s, %s)' % (tl, tc), GRID
            if n in self.tr.fns and self.tr.fns[n].kind == 'func':
                return self.call_translated(self.tr.fns[n], c, env, None)
            self.rej(c, 'call of %s' % n)
        if isinstance(fn, ast.Attribute) and isinstance(fn.value, ast.Name):
            base, m = fn.value.id, fn.attr
            if base == 'math' and m == 'factorial' and 'math' not in env:
                self.plain_args(c, 1)
                b, term, t = self.expr(c.args[0], env)
                self.need(t in (INT, UNK), c, 'factorial of %s' % (t,))
                tmp = self.temp()
                return b + [(tmp, 'py_factorial %s' % term)], tmp, INT
            if base == 'np' and m == 'array' and 'np' not in env:
                self.dtype_int(c)
                b, term, t = self.expr(c.args[0], env)
                self.need(t == UNK or is_tupi(t), c, 'np.array of %s' % (t,))
                return b, term, NPARR
            if base == 'np' and m == 'ones' and 'np' not in env:
                self.dtype_int(c)
                b, term, t = self.expr(c.args[0], env)
                self.need(t in (INT, UNK), c, 'np.ones of %s' % (t,))
                tmp = self.temp()
                return b + [(tmp, 'np_ones %s' % term)], tmp, NPARR
            if base == CLASS_NAME and base not in env:
                q = CLASS_NAME + '.' + m
                self.need(q in self.tr.fns and self.tr.fns[q].kind == 'static', c, 'call of %s.%s' % (base, m))
                return self.call_translated(self.tr.fns[q], c, env, None)
            if base == 'self':
                q = CLASS_NAME + '.' + m
                self.need(q in self.tr.fns and self.tr.fns[q].kind in ('method', 'static'), c, 'call of self.%s' % m)
                return self.call_translated(self.tr.fns[q], c, env, 'self')
        self.rej(c, 'call of %s' % ast.unparse(fn))

    def call_translated(self, g, c, env, recv):
        self.need(not any(isinstance(a, ast.Starred) for a in c.args), c, 'star arguments')
        self.need(len(c.args) <= len(g.params), c, 'too many arguments for %s' % g.qual)
        self.need(not g.returns_alias, c, 'call of %s, which returns one of its mutable attributes/arguments (aliasing)' % g.qual)
        given = {}
        for (n, t, d), a in zip(g.params, c.args):
            given[n] = a
        for k in c.keywords:
            self.need(k.arg is not None and k.arg in [p[0] for p in g.params] and k.arg not in given, c,
                      'keyword argument %s of %s' % (k.arg, g.qual))
            given[k.arg] = k.value
        # evaluation order = source order (positional, then keywords as written)
        order = list(c.args) + [k.value for k in c.keywords]
        trans = {}
        binds = []
        for a in order:
            b, term, t = self.expr(a, env)
            binds += b
            trans[id(a)] = (term, t)
            if is_mutable(t) and isinstance(a, ast.Attribute) and g.kind == 'method':
                self.rej(c, 'passing the mutable attribute %s to a method (aliasing)' % ast.unparse(a))
        terms = []
        for (n, t, d) in g.params:
            if n in given:
                term, ta = trans[id(given[n])]
                if not (ta == UNK and not self.tr.strict) and not same_repr(ta, t):
                    self.rej(c, 'argument %s of %s has type %s, expected %s' % (n, g.qual, ta, t))
                terms.append(term)
            else:
                self.need(d is not None, c, 'missing argument %s of %s' % (n, g.qual))
                terms.append(d)
        tmp = self.temp()
        name = g.gname
        if g.qual == self.f.qual:
            name = g.gname + '_rec fuel'
        if g.kind == 'method':
            self.need('self' in env, c, 'method call outside a method')
            binds.append(("'(%s, self)" % tmp, '%s self %s' % (name, ' '.join(terms))))
        else:
            binds.append((tmp, ('%s %s' % (name, ' '.join(terms))).strip()))
        rt = g.ret
        if rt == NONE:
            return binds, 'tt', NONE
        return binds, tmp, rt


# ======================================================================================================================
#                         NUMERIC TARGETS  (floats as exact rationals, numpy float arrays, class hierarchies)
# ======================================================================================================================
NUM_DOC = """
NUMERIC TARGETS (--target grid | extrapolation): the scheme above plus the following (semantics in coq/Base/PyNum.v)
  floats    Python float / numpy.float64 -> Qc.  FLOAT ARITHMETIC IS READ AS EXACT ARITHMETIC, comparisons between floats
            are exact comparisons, rounding/inf/nan are not modelled.  A decimal literal is the decimal number written.
            An int that meets a float is embedded by py_Z2Qc; a variable that is assigned ints and floats (`w = 0` ...
            `w += x / 2`) is a rational from its first assignment on.  x / y -> py_fdiv (None for y = 0) unless y is a
            non-zero literal; x ** k -> Qcpower for a literal k >= 0, py_fpow otherwise; int ** int with an exponent
            that is not visibly non-negative is read as the rational number (Python: int for e >= 0, float for e < 0).
            All arithmetic carries explicit scope delimiters (%Z / %Qc).
  numpy     np.zeros(n) -> np_zeros (fresh list Qc), a[i] = v / a[i] += v -> py_setitem, a[i] -> py_getitem, len, sum,
            a[lo:hi] with int bounds -> py_slice; a slice of an ARRAY is a view in numpy and is accepted only as the
            argument of sum()/len().  Nothing else of numpy is accepted.
  lists     l[lo:hi] of a LIST is a fresh copy (may be bound to a name); min(l) / max(l) -> py_list_min / py_list_max (ValueError
            for an empty list), l.index(x) -> py_list_index (ValueError if absent) on lists of ints.
  dicts     defaultdict(list) keyed by floats -> an insertion-ordered association list (list (Qc * list Qc));
            d[k].append(v) -> py_fdict_append (the key is created at its first access; keys are compared as rationals).
  syntax    chained comparisons (a <= b <= c: b is evaluated once, c must not raise), conditional expressions
            (x if c else y: lazily), `raise E(..)` -> Fail, `x is None`, tuple results / unpacking of pairs, enumerate(),
            `while c: body` -> py_while FUEL (..) only if the target configuration (or --while-fuel Class.method=TERM) declares
            a fuel measure for that loop, otherwise rejected; recursion: fuel measure per function in the configuration
            (the wrapper passes it; out of fuel = None).
  classes   a class of the target list is translated in one of two modes.
            param:   (huge classes whose constructor is outside the subset) an attribute READ through self becomes a
                     parameter self_<attr> of the generated function (type from the target configuration: a typing
                     precondition; parameters in the order of the configuration); attribute writes are rejected, except
                     attributes the configuration declares write-only (no translated function reads them): the value is
                     evaluated, the store dropped, by name.  A translation unit is a method SEEN FROM A RECEIVER CLASS:
                     C.m is the method m found through the MRO of the listed classes starting at C (possibly inherited),
                     translated for receivers of dynamic class exactly C; inside it self.m2(..) is C.m2 again (so an
                     abstract method of the base resolves to the override of C), a name-mangled self.__m2(..) is the
                     method of the class whose body contains the call; K.m(..) for a listed class K is K.m.
            record:  the listed classes that inherit from each other form a FAMILY: one record <Root>_t with a field per
                     attribute assigned in a constructor of the family and (if the family has several classes) the tag
                     <Root>_cls of the concrete class.  __init__ may consist of an optional leading
                     super(C, self).__init__(..), `self.a = e` and assert statements; C(..) -> C_new.  Methods must not
                     assign attributes (objects are immutable values).  obj.m(..) is resolved through the MRO for every
                     concrete class the receiver can have; if the results differ a dispatch function (match on the tag)
                     is generated.  @abstractmethod methods (body `pass`) are not translated; abstract classes have no
                     tag.  CLOSED WORLD: a class of the module that derives from a family class must be in the list.
            Enum classes become Inductives, == / != the generated <Enum>_eqb.
  names     np / math must be bound by `import numpy as np` / `import math` only, builtins and the translated classes must
            not be rebound at module level, also not through the `from sparseSpACE.X import *` chains (followed).
"""
from fractions import Fraction

NUM_TARGETS = {
    # property C09: sparseSpACE/Grid.py
    'grid': dict(
        file='sparseSpACE/Grid.py', out='GridGen.v', prop='C09',
        classes=[
            dict(name='GlobalTrapezoidalGrid', mode='param',
                 methods=['compute_weights', 'compute_1D_quad_weights'],
                 attrs={'modified_basis': BOOL}),
        ],
        fuel={}),
    # property C11: sparseSpACE/Extrapolation.py
    'extrapolation': dict(
        file='sparseSpACE/Extrapolation.py', out='ExtrapolationGen.v', prop='C11',
        enums=['ExtrapolationVersion'],
        classes=[
            dict(name='ExtrapolationCoefficients', mode='record'),
            dict(name='RombergLinearCoefficients', mode='record'),
            dict(name='RombergDefaultCoefficients', mode='record'),
            dict(name='RombergSimpsonCoefficients', mode='record'),
            dict(name='ExtrapolationCoefficientsFactory', mode='record'),
            dict(name='RombergWeightFactory', mode='param', methods=['get'], attrs={}),
            dict(name='RombergWeights', mode='record'),
            dict(name='RombergTrapezoidalWeights', mode='record'),
            dict(name='RombergSimpsonWeights', mode='record'),
            # the slice algebra: the constructor of the slice classes is outside the subset (Function objects, adjacency)
            # support sequences: pure index / list code on self.grid, self.grid_levels
            dict(name='ExtrapolationGrid', mode='param', methods=['compute_support_sequence', 'get_step_width'],
                 attrs={'grid': ('list', FLOAT), 'grid_levels': ('list', INT), 'a': FLOAT, 'b': FLOAT}),
            dict(name='ExtrapolationGridSlice', mode='param', methods=[], attrs={}),
            dict(name='RombergGridSlice', mode='param',
                 methods=['get_weight_for_left_and_right_support_point', 'get_support_points_with_their_weights',
                          'subtract_constants', 'get_final_weights'],
                 attrs={'left_point': FLOAT, 'right_point': FLOAT, 'width': FLOAT, 'max_level': INT,
                        'support_sequence': ('list', ('pair', FLOAT, FLOAT)),
                        'coefficient_factory': ('obj', 'ExtrapolationCoefficientsFactory')},
                 write_only=['extrapolated_weights_dict']),
            dict(name='TrapezoidalGridSlice', mode='param',
                 methods=['get_weight_for_left_and_right_support_point', 'get_final_weights'],
                 attrs={'left_point': FLOAT, 'right_point': FLOAT, 'width': FLOAT},
                 write_only=['extrapolated_weights_dict']),
            # the containers: the normalisation of the grid levels (pure index recursion).  The slice objects are outside the
            # subset (Function objects, adjacency), so the RESULTS of the argument-less accessors self.get_grid(),
            # self.get_grid_levels() and of the size assert self.__assert_size() (math.log(..).is_integer()) are parameters
            # (`opaque`: option T, None = the accessor raises; assumed pure - calling twice gives the same result)
            dict(name='ExtrapolationGridSliceContainer', mode='param', methods=['get_normalized_grid_levels'],
                 attrs={'call_get_grid': ('opt', ('list', FLOAT)), 'call_get_grid_levels': ('opt', ('list', INT)),
                        'call___assert_size': ('opt', NONE)},
                 opaque={'get_grid': ('list', FLOAT), 'get_grid_levels': ('list', INT), '__assert_size': NONE}),
        ],
        # the recursion halves nothing but shrinks stop_index - start_index in every call: at most len(grid_levels) calls;
        # __get_normalized_grid_levels halves stop - start: at most stop + 1 nested calls
        fuel={'ExtrapolationGrid.__compute_support_sequence_rec': 'S (length self_grid_levels)',
              'ExtrapolationGridSliceContainer.__get_normalized_grid_levels': 'S (Z.to_nat (py_int_of_float stop))'}),
}

BUILTINS_USED = ['len', 'sum', 'abs', 'min', 'max', 'range', 'print', 'super', 'tuple', 'list', 'set', 'map', 'float', 'int',
                 'enumerate', 'isinstance', 'sorted', 'RuntimeError', 'ValueError', 'AssertionError', 'NotImplementedError']
IGNORED_BASES = ('object', 'ABC', 'abc.ABC')
RESERVED_NUM = set('''Qc_leb Qc_ltb Qc_eqb Qc_abs Qcpower Qcplus Qcmult Qcminus Qcopp Qcinv Qcdiv Q2Qc Qc2 Qchalf sumQ dotQ nth
firstn skipn combine rev last removelast tl hd'''.split())


class Rewiden(Exception):
    """a variable turned out to hold ints and floats: restart the translation of the function with it widened"""


class ClassInfo:
    def __init__(self, name, node, cfg):
        self.name = name
        self.node = node
        self.cfg = cfg
        self.mode = cfg['mode']
        self.base = None          # ClassInfo of the (single) base inside the target list
        self.family = None
        self.defs = {}            # method name -> Fn (translated methods defined in this class)
        self.abstract = set()     # names of @abstractmethod methods defined here
        self.subclasses = []

    def mro(self):
        c = self
        while c is not None:
            yield c
            c = c.base


class Family:
    def __init__(self, root):
        self.root = root
        self.members = []
        self.fields = {}
        self.field_order = []

    @property
    def name(self):
        return self.root.name

    @property
    def tname(self):
        return self.root.name + '_t'

    @property
    def tagged(self):
        return len(self.members) > 1

    def concrete(self):
        return [c for c in self.members if c.is_concrete]


def zlit(n):
    return '(%d)' % n if n < 0 else '%d' % n


def lit_value(node):
    """numeric value of a literal (possibly negated), else None"""
    if isinstance(node, ast.Constant) and type(node.value) in (int, float):
        return node.value
    if isinstance(node, ast.UnaryOp) and isinstance(node.op, ast.USub) and isinstance(node.operand, ast.Constant) \
            and type(node.operand.value) in (int, float):
        return -node.operand.value
    return None


class NumTranslator(Translator):
    def __init__(self, repo, name):
        Translator.__init__(self, repo)
        self.tname = name
        self.cfg = NUM_TARGETS[name]
        self.file = self.cfg['file']
        self.classes = {}
        self.enums = {}
        self.families = []
        self.unit_order = []
        self.sources = [self.file]
        self.while_fuel = dict(self.cfg.get('while_fuel', {}))   # qualified name -> [fuel measure of its 1st, 2nd, .. while loop]

    # ------------------------------------------------------------------------------------------ loading
    def module_bindings(self, relfile, seen):
        """names bound at the top level of a module (following `from sparseSpACE.X import *`): name -> set of origins"""
        if relfile in seen:
            return {}
        seen.add(relfile)
        path = os.path.join(self.repo, relfile)
        mod = ast.parse(open(path).read())
        res = {}

        def add(n, origin):
            res.setdefault(n, set()).add(origin)

        def walk(stmts):
            for st in stmts:
                if isinstance(st, (ast.FunctionDef, ast.AsyncFunctionDef)):
                    add(st.name, 'def:%s:%d' % (relfile, st.lineno))
                elif isinstance(st, ast.ClassDef):
                    add(st.name, 'class:%s' % relfile)
                elif isinstance(st, ast.Import):
                    for al in st.names:
                        add(al.asname or al.name.split('.')[0], 'import:' + (al.name if al.asname else al.name.split('.')[0]))
                elif isinstance(st, ast.ImportFrom):
                    for al in st.names:
                        if al.name == '*':
                            m = st.module or ''
                            if not m.startswith('sparseSpACE.'):
                                raise Reject(st, 'star import from %s in %s (cannot see which names it rebinds)' % (m, relfile))
                            sub = m.replace('.', '/') + '.py'
                            for n, o in self.module_bindings(sub, seen).items():
                                if not n.startswith('_'):
                                    for x in o:
                                        add(n, x)
                        else:
                            add(al.asname or al.name, 'from:%s:%s' % (st.module, al.name))
                elif isinstance(st, (ast.Assign, ast.AugAssign, ast.AnnAssign)):
                    tg = st.targets if isinstance(st, ast.Assign) else [st.target]
                    for t in tg:
                        for n in ast.walk(t):
                            if isinstance(n, ast.Name):
                                add(n.id, 'assign:%s:%d' % (relfile, st.lineno))
                elif isinstance(st, (ast.If, ast.Try, ast.With, ast.For, ast.While)):
                    for fld in ('body', 'orelse', 'finalbody'):
                        walk(getattr(st, fld, []) or [])
                    for h in getattr(st, 'handlers', []) or []:
                        walk(h.body)
        walk(mod.body)
        return res

    def load(self):
        cfg = self.cfg
        self.curfile = self.file
        src = open(os.path.join(self.repo, self.file)).read()
        mod = ast.parse(src)
        # ---- name resolution: the names the translation relies on are bound as expected
        binds = self.module_bindings(self.file, set())
        for n, want in (('np', 'import:numpy'), ('math', 'import:math')):
            if n in binds and binds[n] != {want}:
                raise Reject(mod, "name %r is bound by %s (expected only `%s`)" % (n, sorted(binds[n]), want))
        for n in BUILTINS_USED:
            if n in binds:
                raise Reject(mod, 'builtin %r is rebound at module level (%s)' % (n, sorted(binds[n])))
        listed = [c['name'] for c in cfg['classes']] + list(cfg.get('enums', []))
        for n in listed:
            if binds.get(n) != {'class:%s' % self.file}:
                raise Reject(mod, 'class %s is not bound exactly once, by its class statement in %s (%s)'
                             % (n, self.file, sorted(binds.get(n, []))))
        for n, want in (('Enum', 'from:enum:Enum'), ('ABC', 'from:abc:ABC'), ('abstractmethod', 'from:abc:abstractmethod'),
                        ('defaultdict', 'from:collections:defaultdict')):
            if n in binds and binds[n] != {want}:
                raise Reject(mod, 'name %r is bound by %s' % (n, sorted(binds[n])))
        nodes = {}
        for st in mod.body:
            if isinstance(st, ast.ClassDef):
                nodes[st.name] = st
        # ---- enums
        for en in cfg.get('enums', []):
            nd = nodes[en]
            if [ast.unparse(b) for b in nd.bases] != ['Enum'] or nd.keywords or nd.decorator_list:
                raise Reject(nd, 'enum class %s must derive from Enum only' % en)
            members, vals = [], set()
            for st in nd.body:
                if isinstance(st, ast.Expr) and isinstance(st.value, ast.Constant) and isinstance(st.value.value, str):
                    continue
                if not (isinstance(st, ast.Assign) and len(st.targets) == 1 and isinstance(st.targets[0], ast.Name)
                        and isinstance(st.value, ast.Constant) and type(st.value.value) is int):
                    raise Reject(st, 'enum %s may only contain NAME = <int literal>' % en)
                if st.value.value in vals:
                    raise Reject(st, 'enum %s: duplicate value (alias members)' % en)
                vals.add(st.value.value)
                members.append(ident(st.targets[0].id, st))
            if not members:
                raise Reject(nd, 'enum %s without members' % en)
            self.enums[en] = members
        # ---- classes
        for cc in cfg['classes']:
            nd = nodes[cc['name']]
            if nd.keywords or nd.decorator_list:
                raise Reject(nd, 'class keywords / decorators on %s' % nd.name)
            self.classes[nd.name] = ClassInfo(nd.name, nd, cc)
        for ci in self.classes.values():
            inside = []
            for b in ci.node.bases:
                bn = ast.unparse(b)
                if bn in self.classes:
                    inside.append(self.classes[bn])
                elif bn in IGNORED_BASES:
                    pass
                elif ci.mode == 'record':
                    raise Reject(ci.node, 'base class %s of %s is outside the target list' % (bn, ci.name))
                # param mode: a base outside the list is tolerated; a method that would have to be looked up there is rejected
            if len(inside) > 1:
                raise Reject(ci.node, 'multiple inheritance inside the target list')
            if inside:
                if inside[0].mode != ci.mode:
                    raise Reject(ci.node, 'class %s and its base %s are translated in different modes' % (ci.name, inside[0].name))
                ci.base = inside[0]
                inside[0].subclasses.append(ci)
        # closed world: every class of the module deriving from a record class is listed
        for nm, nd in nodes.items():
            if nm in self.classes:
                continue
            for b in nd.bases:
                bn = ast.unparse(b)
                if bn in self.classes and self.classes[bn].mode == 'record':
                    raise Reject(nd, 'class %s derives from %s but is not in the target list (closed-world dispatch would be wrong)'
                                 % (nm, bn))
        # ... also in the other modules of the package
        pkg = os.path.dirname(os.path.join(self.repo, self.file))
        for fn_ in sorted(os.listdir(pkg)):
            if not fn_.endswith('.py') or os.path.join(os.path.dirname(self.file), fn_) == self.file:
                continue
            try:
                omod = ast.parse(open(os.path.join(pkg, fn_)).read())
            except SyntaxError:
                continue
            for nd in ast.walk(omod):
                if isinstance(nd, ast.ClassDef):
                    for b in nd.bases:
                        bn = ast.unparse(b).split('.')[-1]
                        if bn in self.classes and self.classes[bn].mode == 'record':
                            self.curfile = os.path.join(os.path.dirname(self.file), fn_)
                            raise Reject(nd, 'class %s derives from %s outside the translated module (closed-world dispatch would '
                                             'be wrong)' % (nd.name, bn))
        # families
        for ci in self.classes.values():
            if ci.mode == 'record' and ci.base is None:
                fam = Family(ci)
                self.families.append(fam)
                stack = [ci]
                while stack:
                    c = stack.pop(0)
                    c.family = fam
                    fam.members.append(c)
                    stack = c.subclasses + stack
                fam.members.sort(key=lambda c: c.node.lineno)
        # ---- methods
        for ci in self.classes.values():
            seen = set()
            ci.nodes = {}
            for st in ci.node.body:
                if isinstance(st, ast.Expr) and isinstance(st.value, ast.Constant) and isinstance(st.value.value, str):
                    continue
                if not isinstance(st, ast.FunctionDef):
                    if ci.mode == 'record':
                        raise Reject(st, 'class-level statement %s in %s' % (type(st).__name__, ci.name))
                    continue
                if st.name in seen:
                    raise Reject(st, 'method %s defined twice' % st.name)
                seen.add(st.name)
                decos = [ast.unparse(d) for d in st.decorator_list]
                if decos == ['abstractmethod']:
                    body = [x for x in st.body if not (isinstance(x, ast.Expr) and isinstance(x.value, ast.Constant)
                                                       and isinstance(x.value.value, str))]
                    if ci.mode == 'record' or st.name in ci.cfg.get('methods', []):
                        if not (len(body) == 1 and isinstance(body[0], ast.Pass)):
                            raise Reject(st, 'abstract method %s with a body' % st.name)
                    ci.abstract.add(st.name)
                    continue
                ci.nodes[st.name] = st
                if ci.mode == 'param':
                    continue          # units of param classes are created per RECEIVER class, see param_unit
                q = ci.name + '.' + st.name
                f = self.new_fn(q, st, ci)
                ci.defs[st.name] = f
                self.unit_order.append(q)
        for ci in self.classes.values():
            if ci.mode == 'param':
                for a_ in ci.cfg.get('write_only', []):
                    if a_ in ci.cfg['attrs']:
                        raise Reject(ci.node, 'attribute %s of %s is declared both write-only and readable' % (a_, ci.name))
                for m in ci.cfg['methods']:
                    f = self.param_unit(ci, m, ci.node)
                    if f is None:
                        raise Reject(ci.node, 'method %s.%s not found in %s and its listed bases' % (ci.name, m, ci.name))
                    self.unit_order.append(f.qual)
        for ci in self.classes.values():
            # concrete = every abstract method of the MRO is implemented below it
            need = set()
            for c in reversed(list(ci.mro())):
                need |= c.abstract
                need -= set(c.nodes)
            ci.is_concrete = not need
        self.unit_order.sort(key=lambda q: self.fns[q].node.lineno)

    def new_fn(self, q, st, ci):
        """a translation unit: the function definition st seen from (receiver) class ci"""
        decos = [ast.unparse(d) for d in st.decorator_list]
        if decos == []:
            kind = 'init' if st.name == '__init__' else 'method'
        elif decos == ['staticmethod']:
            kind = 'static'
        else:
            raise Reject(st, 'decorator %s' % decos)
        if kind == 'init' and ci.mode == 'param':
            raise Reject(st, '__init__ of a class translated in param mode')
        if st.name.startswith('__') and not st.name.endswith('__') and ci.mode != 'param':
            raise Reject(st, 'name-mangled method %s' % st.name)
        if q in self.fns:
            raise Reject(st, 'translation unit %s defined twice' % q)
        f = Fn(q, st, kind, self.file)
        f.cls = ci
        f.widen = set()
        f.self_attrs = []
        self.fns[q] = f
        self.signature(f)
        return f

    def param_unit(self, recv, m, node, within=None):
        """method m for receivers of dynamic class exactly recv (param mode): found through the MRO of the listed classes.
        A name-mangled method (self.__m inside class `within`) is the one defined in `within` itself."""
        q = recv.name + '.' + m
        if q in self.fns:
            return self.fns[q]
        if m.startswith('__') and not m.endswith('__'):
            c = within if within is not None else recv
            if m in c.nodes:
                f = self.new_fn(q, c.nodes[m], recv)
                f.defcls = c
                return f
            return None
        for c in recv.mro():
            if m in c.nodes:
                f = self.new_fn(q, c.nodes[m], recv)
                f.defcls = c
                return f
            if m in c.abstract:
                return None
        return None

    def signature(self, f):
        a = f.node.args
        if a.vararg or a.kwarg or a.kwonlyargs or a.posonlyargs:
            raise Reject(f.node, 'star / keyword-only parameters')
        args = list(a.args)
        if f.kind in ('method', 'init'):
            if not args or args[0].arg != 'self':
                raise Reject(f.node, 'method without self')
            args = args[1:]
        defaults = [None] * (len(args) - len(a.defaults)) + list(a.defaults)
        for ar, df in zip(args, defaults):
            if ar.annotation is None:
                raise Reject(ar, 'parameter %s without annotation' % ar.arg)
            t = self.ann(ar.annotation, ar)
            dterm = None
            if df is not None:
                if isinstance(df, ast.Constant) and df.value is None:
                    if t[0] != 'opt':
                        t = ('opt', t)
                    dterm = 'None'
                elif isinstance(df, ast.Constant) and type(df.value) is bool and t == BOOL:
                    dterm = 'true' if df.value else 'false'
                elif isinstance(df, ast.Constant) and type(df.value) is int and t == INT:
                    dterm = zlit(df.value)
                elif isinstance(df, ast.Constant) and type(df.value) is int and t == FLOAT:
                    dterm = '(py_Z2Qc %s)' % zlit(df.value)
                elif isinstance(df, ast.Attribute) and isinstance(df.value, ast.Name) and t == ('enum', df.value.id) \
                        and df.attr in self.enums[df.value.id]:
                    dterm = '%s_%s' % (df.value.id, df.attr)
                else:
                    raise Reject(df, 'default value of parameter %s' % ar.arg)
            if ar.arg.startswith('self_'):
                raise Reject(ar, 'parameter name %s clashes with the self_<attr> parameters' % ar.arg)
            f.params.append((self.ident(ar.arg, ar), t, dterm))
        f.recursive = f.qual in self.cfg.get('fuel', {})

    def ident(self, name, node):
        if name in RESERVED_NUM or name.startswith('Qc') or name.startswith('mk_') or name.startswith('set_') \
                or name in self.classes or name in self.enums or any(name.startswith(c + '_') for c in list(self.classes) + list(self.enums)):
            raise Reject(node, 'identifier %r clashes with a name used by the translation' % name)
        return ident(name, node)

    def ann(self, a, node):
        """type of a parameter annotation (a typing precondition of the generated function)"""
        if isinstance(a, ast.Name):
            if a.id == 'float':
                return FLOAT
            if a.id in self.enums:
                return ('enum', a.id)
            if a.id in self.classes and self.classes[a.id].mode == 'record':
                return ('obj', self.classes[a.id].family.name)
            if a.id in ('int', 'bool'):
                return ann_type(a, node)
        if isinstance(a, ast.Constant) and isinstance(a.value, str) and a.value in self.classes \
                and self.classes[a.value].mode == 'record':
            return ('obj', self.classes[a.value].family.name)
        if isinstance(a, ast.Subscript) and isinstance(a.value, ast.Name):
            n, s = a.value.id, a.slice
            if n in ('List', 'Sequence'):
                return ('list', self.ann(s, node))
            if n == 'Tuple' and isinstance(s, ast.Tuple) and len(s.elts) == 2 and isinstance(s.elts[1], ast.Constant) \
                    and s.elts[1].value is Ellipsis:
                return ('tuple', self.ann(s.elts[0], node))
            if n == 'Tuple' and isinstance(s, ast.Tuple) and len(s.elts) == 2:
                return ('pair', self.ann(s.elts[0], node), self.ann(s.elts[1], node))
            if n == 'Optional':
                return ('opt', self.ann(s, node))
            if n == 'Dict' and isinstance(s, ast.Tuple) and len(s.elts) == 2 and self.ann(s.elts[0], node) == FLOAT \
                    and self.ann(s.elts[1], node) == ('list', FLOAT):
                return FDICT
        raise Reject(node, 'unsupported parameter annotation %s' % ast.unparse(a))

    # ------------------------------------------------------------------------------------------ driver
    def translate(self):
        self.load()
        prev = None
        for it in range(8):
            self.strict = False
            self.run_pass()
            snap = ({f.name: dict(f.fields) for f in self.families},
                    {q: (f.ret, f.returns_alias, tuple(f.self_attrs), tuple(sorted(f.widen))) for q, f in self.fns.items()})
            if snap == prev:
                break
            prev = snap
        else:
            raise Reject(None, 'type inference did not converge')
        self.strict = True
        return self.run_pass()

    def run_pass(self):
        self.done = []
        self.state = {}
        self.dispatchers = {}
        self.newfam = {f.name: {} for f in self.families}
        # constructors first (they fix the attribute types), then everything in source order; callees on demand
        for q in [q for q in self.unit_order if self.fns[q].kind == 'init'] + self.unit_order:
            self.ensure(q, None)
        for fam in self.families:
            for a, t in self.newfam[fam.name].items():
                fam.fields[a] = t
            fam.field_order = [a for a in fam.field_order if a in fam.fields] + \
                              [a for a in fam.fields if a not in fam.field_order]
        return self.done

    def ensure(self, q, node):
        st = self.state.get(q)
        if st == 2:
            return
        if st == 1:
            raise Reject(node, 'recursion through %s without a declared fuel measure' % q)
        self.state[q] = 1
        f = self.fns[q]
        text = NumFnTranslator(self, f).run()
        self.state[q] = 2
        self.done.append((q, text))

    def fam_by_name(self, n):
        for f in self.families:
            if f.name == n:
                return f
        return None

    def fam_field_type(self, fam, attr, node):
        t = self.newfam[fam.name].get(attr, fam.fields.get(attr))
        if t is None:
            if self.strict:
                raise Reject(node, 'attribute %s is not assigned by any constructor of the family %s' % (attr, fam.name))
            return UNK
        return t

    def note_fam_field(self, fam, attr, t, node):
        old = self.newfam[fam.name].get(attr, UNK)
        self.newfam[fam.name][attr] = join(old, t, node)
        if attr not in fam.field_order:
            fam.field_order.append(attr)

    def resolve(self, ci, m):
        """method m as seen from class ci (MRO inside the target list); None if not found"""
        if ci.mode == 'param':
            return self.param_unit(ci, m, ci.node)
        for c in ci.mro():
            if m in c.defs:
                return c.defs[m]
            if m in c.abstract:
                return None
        return None


class NumFnTranslator(FnTranslator):
    def __init__(self, tr, f):
        FnTranslator.__init__(self, tr, f)
        self.thread_self = False
        self.views_ok = set()

    # ------------------------------------------------------------------------------------------ function
    def run(self):
        while True:
            self.ntemp = 0
            self.rets = []
            self.used_iters = set()
            self.loop_depth = 0
            self.range_vars = set()
            self.f.self_attrs_new = []
            self.nwhile = 0
            try:
                return self.run_once()
            except Rewiden:
                continue

    def widen(self, name, node):
        if name in self.f.widen:
            self.rej(node, 'variable %s holds ints and floats in a way that is not translated' % name)
        self.f.widen.add(name)
        raise Rewiden()

    def run_once(self):
        f = self.f
        tr = self.tr
        tr.curfile = f.file
        ci = f.cls
        env = {}
        if ci.mode == 'record' and f.kind != 'init':
            for c in ci.family.members:       # the attribute types come from the constructors of the family
                if '__init__' in c.defs:
                    tr.ensure(c.name + '.__init__', f.node)
        if f.kind == 'method' and ci.mode == 'record':
            env['self'] = dict(t=('obj', ci.family.name), owned=False, depth=0)
        for (n, t, d) in f.params:
            if n in env:
                self.rej(f.node, 'duplicate parameter ' + n)
            env[n] = dict(t=t, owned=not is_mutable(t), depth=0)
        body = list(f.node.body)
        if body and isinstance(body[0], ast.Expr) and isinstance(body[0].value, ast.Constant) and \
                isinstance(body[0].value.value, str):
            body = body[1:]
        src = '(* %s:%d-%d  %s *)' % (f.file, f.node.lineno, f.node.end_lineno, f.qual)
        dc = getattr(f, 'defcls', None)
        if dc is not None and dc is not ci:
            src += '\n(* inherited from %s; translated for receivers of dynamic class %s *)' % (dc.name, ci.name)
        defaults = [(n, d) for n, t, d in f.params if d is not None]
        if defaults:
            src += '\n(* default arguments: %s *)' % ', '.join('%s = %s' % nd for nd in defaults)
        if f.kind == 'init':
            return self.run_init_num(body, env, src)
        if not self.definitely_returns(body):
            body.append(ast.Return(value=None, lineno=f.node.end_lineno, col_offset=0))
        self.ret_t = f.ret
        lines, endenv = self.block(body, env, [], 2)
        rt = UNK
        for t in self.rets:
            rt = join(rt, t, f.node)
        f.ret = rt
        if tr.strict and has_unk(rt):
            self.rej(f.node, 'return type of %s could not be determined' % f.qual)
        # parameters in the order of the declaration in the target configuration (stable under reordering of the reads)
        f.self_attrs = [a for a in ci.cfg.get('attrs', {}) if a in f.self_attrs_new]
        params = ''
        if f.kind == 'method' and ci.mode == 'record':
            params += ' (self : %s)' % ci.family.tname
        if ci.mode == 'param':
            for a in f.self_attrs:
                params += ' (self_%s : %s)' % (a, gt(ci.cfg['attrs'][a], f.node))
            if f.self_attrs:
                src += '\n(* attributes read through self, parameters here: %s *)' % ', '.join(f.self_attrs)
        params += ''.join(' (%s : %s)' % (n, gt(t, f.node) if not has_unk(t) else '_') for n, t, d in f.params)
        rts = gt(rt, f.node) if not has_unk(rt) else '_'
        sig = '%s : option %s' % (params, rts)
        if f.recursive:
            meas = tr.cfg['fuel'][f.qual]
            head = 'Fixpoint %s_rec (fuel : nat)%s :=\n  match fuel with\n  | O => None\n  | S fuel =>' % (f.gname, sig)
            text = src + '\n(* fuel passed by the wrapper: %s *)\n' % meas + head + '\n  run_flow (V:=unit) (\n' + '\n'.join(lines) + ')\n  end.\n'
            allp = []
            if f.kind == 'method' and ci.mode == 'record':
                allp.append('self')
            if ci.mode == 'param':
                allp += ['self_' + a for a in f.self_attrs]
            allp += [n for n, t, d in f.params]
            text += 'Definition %s%s :=\n  %s_rec (%s) %s.\n' % (f.gname, sig, f.gname, meas, ' '.join(allp))
        else:
            text = src + '\nDefinition %s%s :=\n  run_flow (V:=unit) (\n' % (f.gname, sig) + '\n'.join(lines) + ').\n'
        return text

    def run_init_num(self, body, env, src):
        """__init__ of a record class:  [super(C, self).__init__(..)] ; (self.a = e | assert c)*"""
        f, tr, ci = self.f, self.tr, self.f.cls
        fam = ci.family
        ind = 2
        sp = ' ' * ind
        L = []
        params = ''.join(' (%s : %s)' % (n, gt(t, f.node)) for n, t, d in f.params)
        clsp = ' (cls : %s_cls)' % fam.name if fam.tagged else ''
        have_self = False
        assigned = {}
        stmts = list(body)
        if stmts and isinstance(stmts[0], ast.Expr) and isinstance(stmts[0].value, ast.Call) and \
                isinstance(stmts[0].value.func, ast.Attribute) and stmts[0].value.func.attr == '__init__':
            c = stmts[0].value
            sup = c.func.value
            ok = isinstance(sup, ast.Call) and isinstance(sup.func, ast.Name) and sup.func.id == 'super' and not sup.keywords and \
                (len(sup.args) == 0 or (len(sup.args) == 2 and isinstance(sup.args[0], ast.Name) and sup.args[0].id == ci.name
                                        and isinstance(sup.args[1], ast.Name) and sup.args[1].id == 'self'))
            if not ok:
                self.rej(c, 'constructor call other than super(%s, self).__init__(..)' % ci.name)
            if ci.base is None:
                self.rej(c, 'super().__init__ in a class without a translated base class')
            g = None
            for b in ci.base.mro():
                if '__init__' in b.defs:
                    g = b.defs['__init__']
                    break
            if g is None:
                self.rej(c, 'no translated __init__ in the bases of %s' % ci.name)
            tr.ensure(g.qual, c)
            binds, terms = self.call_args(g, c, env)
            L += self.emit_binds(binds, ind)
            L.append(sp + 'self <- (%s%s %s) ;;' % (g.gname, ' cls' if fam.tagged else '', ' '.join(terms)))
            have_self = True
            env['self'] = dict(t=('obj', fam.name), owned=False, depth=0)
            stmts = stmts[1:]
        for st in stmts:
            if isinstance(st, ast.Assert):
                if st.msg is not None:
                    self.rej(st, 'assert with message')
                binds, term, t = self.expr(st.test, env)
                if t not in (BOOL, UNK):
                    self.rej(st, 'assert on a non-boolean value')
                L += self.emit_binds(binds, ind)
                L.append(sp + '_ <~ (py_assert %s (Nxt tt)) ;;' % term)
                continue
            if not (isinstance(st, ast.Assign) and len(st.targets) == 1 and isinstance(st.targets[0], ast.Attribute)
                    and isinstance(st.targets[0].value, ast.Name) and st.targets[0].value.id == 'self'):
                self.rej(st, '__init__ may only contain super().__init__(..) first, `self.attr = expr` and assert statements')
            a = st.targets[0].attr
            self.init_assigned = assigned if not have_self else None
            binds, term, t = self.expr(st.value, env)
            L += self.emit_binds(binds, ind)
            self.check_store(st.value, t, st)
            if t[0] == 'iter':
                self.rej(st, 'storing an iterator')
            tr.note_fam_field(fam, a, t, st)
            ft = tr.fam_field_type(fam, a, st)
            if ft == FLOAT and t == INT:
                term = '(py_Z2Qc %s)' % term
            if have_self:
                L.append(sp + 'let self := set_%s_f_%s self %s in' % (fam.name, a, term))
            else:
                L.append(sp + 'let _f_%s := %s in' % (a, term))
                assigned[a] = '_f_%s' % a
        self.init_assigned = None
        f.ret = ('obj', fam.name)
        if have_self:
            L.append(sp + 'Ret self')
        else:
            order = fam.field_order
            missing = [a for a in order if a not in assigned]
            if missing and tr.strict:
                self.rej(f.node, 'constructor of %s does not assign the attribute(s) %s that other constructors of the family '
                                 'assign (partially initialised objects are not translated)' % (ci.name, ', '.join(missing)))
            args = ' '.join(assigned.get(a, '_') for a in order)
            L.append(sp + 'Ret (mk_%s%s %s)' % (fam.tname, ' cls' if fam.tagged else '', args))
        text = src + '\nDefinition %s%s%s : option %s :=\n  run_flow (V:=unit) (\n' % (f.gname, clsp, params, fam.tname) + \
            '\n'.join(L) + ').\n'
        return text

    def definitely_returns(self, stmts):
        if stmts and isinstance(stmts[-1], ast.Raise):
            return True
        return FnTranslator.definitely_returns(self, stmts)

    def assigned(self, stmts):
        """names (re)bound by a statement list (objects are immutable here: no 'self')"""
        res = []

        def add(n):
            if n not in res:
                res.append(n)

        def target(t):
            if isinstance(t, ast.Name):
                add(t.id)
            elif isinstance(t, ast.Tuple):
                for x in t.elts:
                    target(x)
            elif isinstance(t, ast.Subscript) and isinstance(t.value, ast.Name):
                add(t.value.id)
            elif isinstance(t, ast.Attribute) and isinstance(t.value, ast.Name) and t.value.id == 'self':
                pass          # rejected or dropped (write-only) by assign()
            else:
                self.rej(t, 'assignment target %s' % type(t).__name__)
        for st in stmts:
            for n in ast.walk(st):
                if isinstance(n, ast.Call) and isinstance(n.func, ast.Attribute) and n.func.attr in ('append', 'extend', 'add', 'remove'):
                    v = n.func.value
                    if isinstance(v, ast.Name):
                        add(v.id)
                    elif isinstance(v, ast.Subscript) and isinstance(v.value, ast.Name):    # D[k].append(v)
                        add(v.value.id)
                if isinstance(n, ast.Assign):
                    for t in n.targets:
                        target(t)
                if isinstance(n, ast.AugAssign):
                    target(n.target)
        return res

    # ------------------------------------------------------------------------------------------ statements
    def block(self, stmts, env, out, ind):
        sp = ' ' * ind
        if stmts:
            st, rest = stmts[0], stmts[1:]
            if isinstance(st, ast.Raise):
                if rest:
                    self.rej(rest[0], 'statement after raise')
                if st.cause is not None:
                    self.rej(st, 'raise ... from')
                ex = st.exc
                ok = ex is not None and ((isinstance(ex, ast.Name)) or (isinstance(ex, ast.Call) and isinstance(ex.func, ast.Name)
                     and all(isinstance(a, ast.Constant) for a in ex.args) and not ex.keywords))
                nm = ex.id if isinstance(ex, ast.Name) else (ex.func.id if ok else None)
                if not ok or nm not in ('RuntimeError', 'ValueError', 'AssertionError', 'NotImplementedError'):
                    self.rej(st, 'raise of anything but a builtin exception with constant arguments')
                return [sp + '(* %s *)' % ast.unparse(st).replace('(*', '( *').replace('*)', '* )'), sp + 'Fail'], None
            if isinstance(st, ast.While):
                # while c: body  ->  vars <~ (py_while FUEL (fun vars => Some [c]) (fun vars => [body]) vars) ;; ...
                # FUEL is the measure declared for this loop in the target configuration (a nat term over the variables in
                # scope); running out of fuel is the explicit outcome Fail.  Undeclared loops are rejected.
                measures = self.tr.while_fuel.get(self.f.qual, [])
                k = self.nwhile
                self.nwhile += 1
                if k >= len(measures):
                    self.rej(st, 'while loop (no fuel measure declared for it)')
                if st.orelse:
                    self.rej(st, 'while ... else')
                env = dict(env)
                vs = [n for n in env if n in self.assigned(st.body)]
                binds, term, t = self.expr(st.test, env)
                if t not in (BOOL, UNK):
                    self.rej(st, 'while on a non-boolean value (truthiness of %s is not translated)' % (t,))
                for pt, _e in binds:
                    if 'self' in pt:
                        self.rej(st, 'method call on self in a while condition')
                cond = '(fun %s => %s)' % (self.lam_pat(vs), self.opt_chain(binds, 'Some %s' % term).strip())
                self.loop_depth += 1
                lb, eb = self.block(st.body, dict(env), vs, ind + 4)
                self.loop_depth -= 1
                self.merge(env, [eb], vs, st)
                L = [sp + '%s <~ (py_while (%s) %s (fun %s =>' % (self.pat(vs), measures[k], cond, self.lam_pat(vs))] + lb + \
                    [sp + '  ) %s) ;;' % self.tuple_term(vs)]
                lines, e = self.block(rest, env, out, ind)
                return L + lines, e
            if isinstance(st, ast.If) and self.definitely_returns(st.body) and self.definitely_returns(st.orelse):
                # both branches return / raise: the conditional is the end of the block
                if rest:
                    self.rej(rest[0], 'statement after an if whose branches both return')
                binds, term, t = self.expr(st.test, env)
                if t not in (BOOL, UNK):
                    self.rej(st, 'if on a non-boolean value (truthiness of %s is not translated)' % (t,))
                L = self.emit_binds(binds, ind)
                la, ea = self.block(st.body, dict(env), out, ind + 4)
                lb, eb = self.block(st.orelse, dict(env), out, ind + 4)
                return L + [sp + 'if %s then (' % term] + la + [sp + '  ) else ('] + lb + [sp + '  )'], None
            if isinstance(st, ast.Assign) and len(st.targets) == 1 and isinstance(st.targets[0], ast.Tuple):
                # (a, b) = e  for a pair-valued e
                env = dict(env)
                tg = st.targets[0]
                if not all(isinstance(x, ast.Name) for x in tg.elts) or len(tg.elts) != 2:
                    self.rej(st, 'unpacking into anything but two names')
                binds, term, t = self.expr(st.value, env)
                if t != UNK and t[0] != 'pair':
                    self.rej(st, 'unpacking of a value of type %s (only pairs)' % (t,))
                L = self.emit_binds(binds, ind)
                names = [x.id for x in tg.elts]
                for k, n in enumerate(names):
                    self.setvar(env, n, t[1 + k] if t != UNK else UNK, True, st)
                L.append(sp + "let '(%s, %s) := %s in" % (names[0], names[1], term))
                lines, e = self.block(rest, env, out, ind)
                return L + lines, e
        return FnTranslator.block(self, stmts, env, out, ind)

    def merge(self, env, ends, vs, node):
        for n in vs:
            for e in ends:
                if e is None:
                    continue
                if {env[n]['t'], e[n]['t']} == {INT, FLOAT}:
                    self.widen(n, node)
        return FnTranslator.merge(self, env, ends, vs, node)

    def setvar(self, env, name, t, owned, node):
        if name.startswith('self_'):
            self.rej(node, 'variable name %s clashes with the self_<attr> parameters' % name)
        self.tr.ident(name, node)
        if name in env and {env[name]['t'], t} == {INT, FLOAT} and env[name]['depth'] < self.loop_depth:
            self.widen(name, node)
        return FnTranslator.setvar(self, env, name, t, owned, node)

    def assign(self, target, value, st, env, L, ind):
        sp = ' ' * ind
        if isinstance(target, ast.Name):
            binds, term, t = self.expr(value, env, consume=isinstance(value, ast.Call))
            L += self.emit_binds(binds, ind)
            fresh_slice = isinstance(value, ast.Subscript) and isinstance(value.slice, ast.Slice) and t[0] == 'list'
            if is_mutable(t) and not isinstance(value, self.FRESH) and not fresh_slice:
                self.rej(st, 'assignment `%s` makes two names refer to one mutable object (aliasing)' % ast.unparse(st))
            if target.id in self.f.widen and t == INT:
                term, t = '(py_Z2Qc %s)' % term, FLOAT
            # a slice may be read but not mutated (it would be a view if the sequence is a numpy array at run time)
            self.setvar(env, target.id, t, not fresh_slice, st)
            L.append(sp + 'let %s := %s in' % (target.id, term))
            return
        if isinstance(target, ast.Attribute) and isinstance(target.value, ast.Name) and target.value.id == 'self' \
                and self.f.cls.mode == 'param' and target.attr in self.f.cls.cfg.get('write_only', []):
            # an attribute that no translated function reads (declared write-only in the target configuration): the value is
            # evaluated, the store is dropped -- the state of the object after the call is not part of the generated function
            binds, term, t = self.expr(value, env)
            L += self.emit_binds(binds, ind)
            L.append(sp + '(* dropped: %s  (write-only attribute) *)' % ast.unparse(st).replace('(*', '( *').replace('*)', '* )'))
            return
        if isinstance(target, ast.Attribute):
            self.rej(st, 'assignment to the attribute %s outside a constructor (objects are immutable values here)'
                     % ast.unparse(target))
        return FnTranslator.assign(self, target, value, st, env, L, ind)

    def store_sub(self, x, tx, ti, tyi, tv, tyv, env, st, L, ind):
        sp = ' ' * ind
        if tx == FARR or (tx[0] == 'list' and tx[1] == FLOAT):
            if not env[x]['owned']:
                self.rej(st, 'mutation of %s, which may be shared with the caller or another object (aliasing)' % x)
            if tyi not in (INT, UNK):
                self.rej(st, 'index of type %s' % (tyi,))
            if tyv == INT:
                tv = '(py_Z2Qc %s)' % tv
            elif tyv not in (FLOAT, UNK):
                self.rej(st, 'storing a value of type %s in a float array' % (tyv,))
            L.append(sp + '%s <- (py_setitem %s %s %s) ;;' % (x, x, ti, tv))
            return
        return FnTranslator.store_sub(self, x, tx, ti, tyi, tv, tyv, env, st, L, ind)

    def augassign(self, st, env, L, ind):
        # x op= v  is  x = x op v ;  a[i] op= v  is  a[i] = a[i] op v  with i evaluated once (it must not raise)
        if not isinstance(st.op, (ast.Add, ast.Sub, ast.Mult, ast.Div)):
            self.rej(st, 'augmented assignment operator %s' % type(st.op).__name__)
        tg = st.target
        if isinstance(tg, ast.Name):
            if tg.id not in env:
                self.rej(st, 'unknown variable ' + tg.id)
            if is_mutable(env[tg.id]['t']):
                self.rej(st, 'augmented assignment to the mutable object %s' % tg.id)
            load = ast.copy_location(ast.Name(id=tg.id, ctx=ast.Load()), tg)
            val = ast.copy_location(ast.BinOp(left=load, op=st.op, right=st.value), st)
            return self.assign(ast.copy_location(ast.Name(id=tg.id, ctx=ast.Store()), tg), val, st, env, L, ind)
        if isinstance(tg, ast.Subscript) and isinstance(tg.value, ast.Name) and tg.value.id != 'self' \
                and not isinstance(tg.slice, ast.Slice):
            x = tg.value.id
            if x not in env:
                self.rej(st, 'unknown variable ' + x)
            tx = env[x]['t']
            if not (tx == FARR or (tx[0] == 'list' and tx[1] in (FLOAT, INT))):
                return FnTranslator.augassign(self, st, env, L, ind)
            bi, ti, tyi = self.expr(tg.slice, env)
            if bi:
                self.rej(st, 'raising index expression in an augmented assignment')
            load = ast.copy_location(ast.Subscript(value=ast.copy_location(ast.Name(id=x, ctx=ast.Load()), tg),
                                                   slice=tg.slice, ctx=ast.Load()), tg)
            val = ast.copy_location(ast.BinOp(left=load, op=st.op, right=st.value), st)
            bv, tv, tyv = self.expr(val, env)
            L += self.emit_binds(bv, ind)
            return self.store_sub(x, tx, ti, tyi, tv, tyv, env, st, L, ind)
        self.rej(st, 'augmented assignment target %s' % ast.unparse(tg))

    def expr_stmt(self, st, env, L, cont, ind):
        c = st.value
        sp = ' ' * ind
        if isinstance(c, ast.Call) and isinstance(c.func, ast.Attribute) and c.func.attr == 'append' and \
                isinstance(c.func.value, ast.Subscript) and isinstance(c.func.value.value, ast.Name) and \
                c.func.value.value.id in env and env[c.func.value.value.id]['t'] == FDICT:
            # D[k].append(v) on a defaultdict(list) keyed by floats: the key is created on first access (insertion order)
            x = c.func.value.value.id
            self.plain_args(c, 1)
            if not env[x]['owned']:
                self.rej(st, 'mutation of %s, which may be shared with the caller or another object (aliasing)' % x)
            bk, tk, tyk = self.expr(c.func.value.slice, env)
            bv, tv, tyv = self.expr(c.args[0], env)
            L += self.emit_binds(bk + bv, ind)
            self.need(tyk in (FLOAT, INT, UNK) and tyv in (FLOAT, INT, UNK), st, 'dictionary entry of types %s -> %s' % (tyk, tyv))
            L.append(sp + 'let %s := py_fdict_append %s %s %s in' % (x, x, self.num(tk, tyk, FLOAT), self.num(tv, tyv, FLOAT)))
            return cont()
        if isinstance(c, ast.Call) and isinstance(c.func, ast.Attribute) and isinstance(c.func.value, ast.Attribute) \
                and c.func.attr in ('append', 'extend', 'add', 'remove'):
            self.rej(st, 'mutation of an attribute outside a constructor')
        return FnTranslator.expr_stmt(self, st, env, L, cont, ind)

    # ------------------------------------------------------------------------------------------ iteration
    def iterable(self, it, target, env):
        if isinstance(it, ast.Call) and isinstance(it.func, ast.Name) and it.func.id == 'enumerate' and it.func.id not in env:
            self.plain_args(it, 1)
            b, term, t = self.expr(it.args[0], env)
            if not (isinstance(target, ast.Tuple) and len(target.elts) == 2 and all(isinstance(e, ast.Name) for e in target.elts)):
                self.rej(target, 'loop target over enumerate() must be `index, value`')
            if t != UNK and t[0] not in ('list', 'tuple', 'farr'):
                self.rej(it, 'enumerate of a value of type %s' % (t,))
            k, v = target.elts[0].id, target.elts[1].id
            self.tr.ident(k, target); self.tr.ident(v, target)
            vt = UNK if t == UNK else (FLOAT if t == FARR else t[1])
            return b, '(py_enumerate %s)' % term, ('pair', INT, vt), "'(%s, %s)" % (k, v), [(k, INT), (v, vt)], False
        if isinstance(target, ast.Name):
            self.tr.ident(target.id, target)
            if isinstance(it, ast.Name) and it.id in env and env[it.id]['t'] == FARR:
                return [], it.id, FLOAT, target.id, [(target.id, FLOAT)], False
        return FnTranslator.iterable(self, it, target, env)

    # ------------------------------------------------------------------------------------------ expressions
    def num(self, term, t, want):
        """coerce a numeric term of type t to type want"""
        if t == INT and want == FLOAT:
            return '(py_Z2Qc %s)' % term
        return term

    def cmp(self, op, a, ta, b, tb, node):
        S = self.tr.strict
        if UNK in (ta, tb):
            if S:
                self.rej(node, 'comparison of values of unknown type')
            return '?'
        if ta == INT and tb == INT:
            ops = {ast.Lt: '<?', ast.LtE: '<=?', ast.Gt: '>?', ast.GtE: '>=?', ast.Eq: '=?'}
            if isinstance(op, ast.NotEq):
                return '(negb (%s =? %s)%%Z)' % (a, b)
            if type(op) in ops:
                return '(%s %s %s)%%Z' % (a, ops[type(op)], b)
        if ta in (INT, FLOAT) and tb in (INT, FLOAT):
            a, b = self.num(a, ta, FLOAT), self.num(b, tb, FLOAT)
            if isinstance(op, ast.Lt):
                return '(Qc_ltb %s %s)' % (a, b)
            if isinstance(op, ast.LtE):
                return '(Qc_leb %s %s)' % (a, b)
            if isinstance(op, ast.Gt):
                return '(Qc_ltb %s %s)' % (b, a)
            if isinstance(op, ast.GtE):
                return '(Qc_leb %s %s)' % (b, a)
            if isinstance(op, ast.Eq):
                return '(Qc_eqb %s %s)' % (a, b)
            if isinstance(op, ast.NotEq):
                return '(negb (Qc_eqb %s %s))' % (a, b)
        if ta[0] == 'enum' and ta == tb and isinstance(op, (ast.Eq, ast.NotEq)):
            r = '(%s_eqb %s %s)' % (ta[1], a, b)
            return r if isinstance(op, ast.Eq) else '(negb %s)' % r
        if ta == BOOL and tb == BOOL and isinstance(op, (ast.Eq, ast.NotEq)):
            r = '(Bool.eqb %s %s)' % (a, b)
            return r if isinstance(op, ast.Eq) else '(negb %s)' % r
        self.rej(node, 'comparison %s of %s and %s' % (type(op).__name__, ta, tb))

    def expr0(self, e, env):
        S = self.tr.strict
        tr = self.tr
        if isinstance(e, ast.Constant):
            if type(e.value) is float:
                fr = Fraction(repr(e.value))      # the decimal number that is written
                return [], '(py_Qc %s %d)' % (zlit(fr.numerator), fr.denominator), FLOAT
            if type(e.value) is int and e.value >= 0:
                return [], '%d' % e.value, INT
            if e.value is None:
                return [], 'None', NONE
        if isinstance(e, ast.Name) and e.id in env and e.id in self.f.widen and env[e.id]['t'] == INT:
            return [], '(py_Z2Qc %s)' % e.id, FLOAT
        if isinstance(e, ast.Tuple):
            if len(e.elts) != 2:
                self.rej(e, 'tuple expression with %d elements (only pairs)' % len(e.elts))
            pa = [self.expr(x, env) for x in e.elts]
            for x, p in zip(e.elts, pa):
                self.check_store(x, p[2], e)
            return pa[0][0] + pa[1][0], '(%s, %s)' % (pa[0][1], pa[1][1]), ('pair', pa[0][2], pa[1][2])
        if isinstance(e, ast.Attribute):
            v = e.value
            if isinstance(v, ast.Name) and v.id == 'self' and 'self' not in env and self.f.cls.mode == 'param' \
                    and self.f.kind == 'method':
                attrs = self.f.cls.cfg['attrs']
                if e.attr not in attrs:
                    self.rej(e, 'attribute self.%s: no type declared for it in the target configuration' % e.attr)
                if e.attr not in self.f.self_attrs_new:
                    self.f.self_attrs_new.append(e.attr)
                return [], 'self_%s' % e.attr, attrs[e.attr]
            if isinstance(v, ast.Name) and v.id == 'self' and self.f.kind == 'init' and getattr(self, 'init_assigned', None) is not None:
                if e.attr not in self.init_assigned:
                    self.rej(e, 'attribute self.%s is read before it is assigned' % e.attr)
                return [], self.init_assigned[e.attr], tr.fam_field_type(self.f.cls.family, e.attr, e)
            if isinstance(v, ast.Name) and v.id in tr.enums and v.id not in env:
                if e.attr not in tr.enums[v.id]:
                    self.rej(e, 'unknown member %s of enum %s' % (e.attr, v.id))
                return [], '%s_%s' % (v.id, e.attr), ('enum', v.id)
            b, term, t = self.expr(v, env)
            if t == UNK and not S:
                return b, '?', UNK
            if t[0] == 'obj' and len(t) > 1:
                fam = tr.fam_by_name(t[1])
                ft = tr.fam_field_type(fam, e.attr, e)
                return b, '(%s_f_%s %s)' % (fam.name, e.attr, term), ft
            self.rej(e, 'attribute .%s of a value of type %s' % (e.attr, t))
        if isinstance(e, ast.UnaryOp) and isinstance(e.op, (ast.USub, ast.UAdd)):
            b, term, t = self.expr(e.operand, env)
            if t == UNK and not S:
                return b, '?', UNK
            if t not in (INT, FLOAT):
                self.rej(e, 'unary +/- on %s' % (t,))
            if isinstance(e.op, ast.UAdd):
                return b, term, t
            if isinstance(e.operand, ast.Constant) and t == INT:
                return b, '(-%s)' % term, INT
            return b, '(- %s)%%%s' % (term, 'Z' if t == INT else 'Qc'), t
        if isinstance(e, ast.Compare):
            ops = e.ops
            if len(ops) == 1 and isinstance(ops[0], (ast.In, ast.NotIn)):
                return FnTranslator.expr0(self, e, env)
            if len(ops) == 1 and isinstance(ops[0], (ast.Is, ast.IsNot)):
                c = e.comparators[0]
                if not (isinstance(c, ast.Constant) and c.value is None):
                    self.rej(e, '`is` with anything but None')
                b, term, t = self.expr(e.left, env)
                if t == UNK and not S:
                    return b, '?', BOOL
                if t[0] != 'opt':
                    self.rej(e, '`is None` on a value of type %s, which is never None here' % (t,))
                r = '(match %s with None => true | Some _ => false end)' % term
                return b, r if isinstance(ops[0], ast.Is) else '(negb %s)' % r, BOOL
            operands = [e.left] + list(e.comparators)
            parts = [list(self.expr(x, env)) for x in operands]
            binds = []
            for k, p in enumerate(parts):
                if k >= 2 and p[0]:
                    self.rej(e, 'chained comparison whose later operand can raise (short-circuit evaluation)')
                binds += p[0]
                if 0 < k < len(parts) - 1 and not isinstance(operands[k], (ast.Name, ast.Constant)):
                    tmp = self.temp()            # the middle operand is evaluated once
                    binds.append((tmp, 'Some %s' % p[1]))
                    p[1] = tmp
            conj = [self.cmp(op, parts[k][1], parts[k][2], parts[k + 1][1], parts[k + 1][2], e) for k, op in enumerate(ops)]
            return binds, conj[0] if len(conj) == 1 else '(' + ' && '.join(conj) + ')', BOOL
        if isinstance(e, ast.IfExp):
            bc, tc, tyc = self.expr(e.test, env)
            if tyc not in (BOOL, UNK):
                self.rej(e, 'condition of type %s (truthiness is not translated)' % (tyc,))
            ba, ta, tya = self.expr(e.body, env)
            bb, tb, tyb = self.expr(e.orelse, env)
            t = join(tya, tyb, e)
            if is_mutable(t):
                self.rej(e, 'conditional expression of mutable type')
            ta, tb = self.num(ta, tya, t), self.num(tb, tyb, t)
            if not ba and not bb:
                return bc, '(if %s then %s else %s)' % (tc, ta, tb), t
            for pt, _e in ba + bb:
                if 'self' in pt:
                    self.rej(e, 'method call inside a conditional expression')
            tmp = self.temp()
            return bc + [(tmp, 'if %s then (%s) else (%s)' % (tc, self.opt_chain(ba, 'Some %s' % ta).strip(),
                                                              self.opt_chain(bb, 'Some %s' % tb).strip()))], tmp, t
        if isinstance(e, ast.Subscript):
            if isinstance(e.slice, ast.Slice):
                sl = e.slice
                if sl.step is not None:
                    self.rej(e, 'slice with a step')
                bv, tv, tyv = self.expr(e.value, env)
                if tyv == UNK and not S:
                    return bv, '?', UNK
                if tyv[0] not in ('list', 'tuple', 'farr'):
                    self.rej(e, 'slice of a value of type %s' % (tyv,))
                if tyv == FARR and id(e) not in self.views_ok:
                    self.rej(e, 'slice of a numpy array outside sum()/len() (a view: aliasing)')
                bs = []
                bt = []
                for x in (sl.lower, sl.upper):
                    if x is None:
                        bt.append('None')
                        continue
                    bx, tx, tyx = self.expr(x, env)
                    if bx:
                        self.rej(e, 'raising expression as slice bound')
                    if tyx not in (INT, UNK):
                        self.rej(e, 'slice bound of type %s' % (tyx,))
                    bt.append('(Some %s)' % tx)
                rt = ('list', FLOAT) if tyv == FARR else ('list', tyv[1])
                return bv + bs, '(py_slice %s %s %s)' % (tv, bt[0], bt[1]), rt
            bv, tv, tyv = self.expr(e.value, env)
            if tyv == FARR:
                bi, ti, tyi = self.expr(e.slice, env)
                self.need(tyi in (INT, UNK), e, 'index of type %s' % (tyi,))
                tmp = self.temp()
                return bv + bi + [(tmp, 'py_getitem %s %s' % (tv, ti))], tmp, FLOAT
            if tyv[0] == 'pair':
                k = lit_value(e.slice)
                if k not in (0, 1) or type(k) is not int:
                    self.rej(e, 'index of a pair that is not the literal 0 or 1')
                return bv, '(%s %s)' % ('fst' if k == 0 else 'snd', tv), tyv[1 + k]
        if isinstance(e, ast.Call):
            return self.call(e, env)
        if isinstance(e, ast.BinOp):
            return self.binop(e, env)
        return FnTranslator.expr0(self, e, env)

    def binop(self, e, env):
        S = self.tr.strict
        bl, tl, tyl = self.expr(e.left, env)
        br, tr_, tyr = self.expr(e.right, env)
        b = bl + br
        op = e.op
        if UNK in (tyl, tyr) and not S:
            return b, '?', UNK
        if tyl in (INT, FLOAT) and tyr in (INT, FLOAT):
            rv = lit_value(e.right)
            if tyl == INT and tyr == INT:
                if isinstance(op, (ast.Add, ast.Sub, ast.Mult)):
                    return b, '(%s %s %s)%%Z' % (tl, {ast.Add: '+', ast.Sub: '-', ast.Mult: '*'}[type(op)], tr_), INT
                if isinstance(op, (ast.Mod, ast.FloorDiv)):
                    if rv is not None and rv > 0:
                        return b, '(%s %s %s)%%Z' % (tl, 'mod' if isinstance(op, ast.Mod) else '/', tr_), INT
                    if isinstance(op, ast.FloorDiv):
                        tmp = self.temp()
                        return b + [(tmp, 'py_floordiv %s %s' % (tl, tr_))], tmp, INT
                    self.rej(e, '% with a divisor that is not a positive literal')
                if isinstance(op, ast.Pow):
                    x = e.right
                    if (rv is not None and rv >= 0) or (isinstance(x, ast.Name) and x.id in self.range_vars):
                        return b, '(py_pow %s %s)' % (tl, tr_), INT
                    lv = lit_value(e.left)
                    if rv is not None and lv is not None and lv != 0:
                        # literal ** negative literal: a float, total
                        return b, '(/ (Qcpower (py_Z2Qc %s) %d%%nat))%%Qc' % (tl, -rv), FLOAT
                    # exponent of unknown sign: int for e >= 0, float for e < 0 in Python; the rational number here
                    tmp = self.temp()
                    return b + [(tmp, 'py_fpow (py_Z2Qc %s) %s' % (tl, tr_))], tmp, FLOAT
            fl, fr_ = self.num(tl, tyl, FLOAT), self.num(tr_, tyr, FLOAT)
            if isinstance(op, (ast.Add, ast.Sub, ast.Mult)):
                return b, '(%s %s %s)%%Qc' % (fl, {ast.Add: '+', ast.Sub: '-', ast.Mult: '*'}[type(op)], fr_), FLOAT
            if isinstance(op, ast.Div):
                if rv is not None and rv != 0:
                    return b, '(%s / %s)%%Qc' % (fl, fr_), FLOAT         # a non-zero literal divisor cannot raise
                tmp = self.temp()
                return b + [(tmp, 'py_fdiv %s %s' % (fl, fr_))], tmp, FLOAT
            if isinstance(op, ast.Pow) and tyr == INT:
                if rv is not None and rv >= 0:
                    return b, '(Qcpower %s %d%%nat)' % (fl, rv), FLOAT
                tmp = self.temp()
                return b + [(tmp, 'py_fpow %s %s' % (fl, tr_))], tmp, FLOAT
            self.rej(e, 'operator %s on %s and %s' % (type(op).__name__, tyl, tyr))
        # not numeric: lists, sets, int arrays as before (these terms carry no scope delimiter: they are arguments)
        if tyl[0] == 'list' and tyr[0] == 'list' and isinstance(op, ast.Add):
            return b, '(%s ++ %s)' % (tl, tr_), ('list', join(tyl[1], tyr[1], e))
        self.rej(e, 'operator %s on %s and %s' % (type(op).__name__, tyl, tyr))

    # ------------------------------------------------------------------------------------------ calls
    def call(self, c, env):
        S = self.tr.strict
        tr = self.tr
        fn = c.func
        if isinstance(fn, ast.Name) and fn.id not in env:
            n = fn.id
            if n in ('len', 'sum') and len(c.args) == 1 and isinstance(c.args[0], ast.Subscript) and isinstance(c.args[0].slice, ast.Slice):
                self.views_ok.add(id(c.args[0]))
            if n == 'defaultdict':
                self.need(len(c.args) == 1 and not c.keywords and isinstance(c.args[0], ast.Name) and c.args[0].id == 'list'
                          and 'list' not in env, c, 'defaultdict(..) other than defaultdict(list)')
                return [], '[]', FDICT
            if n == 'len':
                self.plain_args(c, 1)
                b, term, t = self.expr(c.args[0], env)
                if t[0] == 'pair':
                    return b, '%d' % (len(t) - 1), INT
                self.need(t[0] in ('list', 'tuple', 'set', 'dict', 'nparr', 'farr', 'fdict') or t == UNK, c, 'len of %s' % (t,))
                return b, '(py_len %s)' % term, INT
            if n == 'sum':
                self.plain_args(c, 1)
                b, term, t = self.expr(c.args[0], env, consume=True)
                if t == UNK and not S:
                    return b, '?', UNK
                if t == FARR or (t[0] in ('list', 'tuple', 'iter') and t[1] == FLOAT):
                    return b, '(py_fsum %s)' % term, FLOAT
                self.need(t[0] in ('list', 'tuple', 'iter') and t[1] == INT, c, 'sum of %s' % (t,))
                return b, '(py_sum %s)' % term, INT
            if n == 'abs':
                self.plain_args(c, 1)
                b, term, t = self.expr(c.args[0], env)
                if t == FLOAT:
                    return b, '(Qc_abs %s)' % term, FLOAT
                self.need(t in (INT, UNK), c, 'abs of %s' % (t,))
                return b, '(Z.abs %s)' % term, INT
            if n in ('min', 'max') and len(c.args) == 1:
                self.plain_args(c, 1)
                b, term, t = self.expr(c.args[0], env)
                if t == UNK and not S:
                    return b, '?', UNK
                self.need(t[0] in ('list', 'tuple') and t[1] == INT, c, '%s of %s (only a list of ints)' % (n, t))
                tmp = self.temp()
                return b + [(tmp, 'py_list_%s %s' % (n, term))], tmp, INT          # ValueError for an empty list
            if n in ('min', 'max') and len(c.args) == 2:
                self.plain_args(c, 2)
                p = [self.expr(a, env) for a in c.args]
                if all(x[2] in (INT, UNK) for x in p):
                    return p[0][0] + p[1][0], '(Z.%s %s %s)' % (n, p[0][1], p[1][1]), INT
                self.need(all(x[2] in (INT, FLOAT) for x in p), c, '%s of %s' % (n, [x[2] for x in p]))
                return p[0][0] + p[1][0], '(Qc_%s %s %s)' % (n, self.num(p[0][1], p[0][2], FLOAT), self.num(p[1][1], p[1][2], FLOAT)), FLOAT
            if n == 'float':
                self.plain_args(c, 1)
                b, term, t = self.expr(c.args[0], env)
                self.need(t in (INT, FLOAT, UNK), c, 'float() of %s' % (t,))
                return b, self.num(term, t, FLOAT), FLOAT
            if n == 'int':
                self.plain_args(c, 1)
                b, term, t = self.expr(c.args[0], env)
                if t == FLOAT:
                    return b, '(py_int_of_float %s)' % term, INT
                self.need(t in (INT, UNK), c, 'int() of %s' % (t,))
                return b, term, INT
            if n in tr.classes:
                ci = tr.classes[n]
                self.need(ci.mode == 'record', c, 'construction of an object of class %s (translated in param mode)' % n)
                self.need(ci.is_concrete, c, 'construction of an object of the abstract class %s' % n)
                g = None
                for k in ci.mro():
                    if '__init__' in k.defs:
                        g = k.defs['__init__']
                        break
                self.need(g is not None, c, 'class %s has no translated __init__' % n)
                tr.ensure(g.qual, c)
                binds, terms = self.call_args(g, c, env)
                fam = ci.family
                tmp = self.temp()
                tag = ' %s_C_%s' % (fam.name, ci.name) if fam.tagged else ''
                binds.append((tmp, '%s%s %s' % (g.gname, tag, ' '.join(terms))))
                return binds, tmp, ('obj', fam.name)
            if n in ('print', 'super', 'isinstance', 'enumerate', 'sorted'):
                self.rej(c, 'call of %s in this position' % n)
            return FnTranslator.call(self, c, env)
        if isinstance(fn, ast.Attribute):
            m = fn.attr
            v = fn.value
            if isinstance(v, ast.Name) and v.id == 'np' and 'np' not in env:
                if m == 'zeros':
                    self.plain_args(c, 1)
                    b, term, t = self.expr(c.args[0], env)
                    self.need(t in (INT, UNK), c, 'np.zeros of %s (only a length)' % (t,))
                    tmp = self.temp()
                    return b + [(tmp, 'np_zeros %s' % term)], tmp, FARR
                if m == 'array':
                    self.plain_args(c, 1)
                    self.need(isinstance(c.args[0], (ast.List, ast.ListComp)), c, 'np.array of anything but a fresh list of floats')
                    b, term, t = self.expr(c.args[0], env)
                    self.need(t == UNK or (t[0] == 'list' and t[1] in (FLOAT, UNK)), c, 'np.array of %s' % (t,))
                    return b, term, FARR
                self.rej(c, 'numpy function np.%s' % m)
            if isinstance(v, ast.Name) and v.id in tr.classes and v.id not in env:
                ci = tr.classes[v.id]
                g = tr.resolve(ci, m)
                self.need(g is not None and g.kind == 'static', c, 'call of %s.%s (not a translated static method)' % (v.id, m))
                return self.call_unit(g, None, c, env)
            if isinstance(v, ast.Name) and v.id == 'self' and self.f.kind == 'method' and self.f.cls.mode == 'param' \
                    and 'self' not in env and m in self.f.cls.cfg.get('opaque', {}):
                # an accessor outside the subset, declared opaque: its result is a parameter (option T, None = it raises)
                self.need(not c.args and not c.keywords, c, 'opaque accessor self.%s called with arguments' % m)
                a = 'call_' + m
                self.need(a in self.f.cls.cfg['attrs'], c, 'opaque accessor %s without declared parameter' % m)
                if a not in self.f.self_attrs_new:
                    self.f.self_attrs_new.append(a)
                tmp = self.temp()
                rt = self.f.cls.cfg['opaque'][m]
                return [(tmp, 'self_%s' % a)], ('tt' if rt == NONE else tmp), rt
            if isinstance(v, ast.Name) and v.id == 'self' and self.f.kind == 'method' and self.f.cls.mode == 'param':
                g = tr.param_unit(self.f.cls, m, c, within=getattr(self.f, 'defcls', self.f.cls))
                self.need(g is not None, c, 'call of self.%s: not among the translated methods of %s and its listed bases'
                          % (m, self.f.cls.name))
                return self.call_unit(g, 'self', c, env)
            # method call on an object of a record family / l.index(x) on a list of ints
            b, term, t = self.expr(v, env)
            if m == 'index' and t != UNK and t[0] in ('list', 'tuple') and t[1] == INT:
                self.plain_args(c, 1)
                ba, ta, tya = self.expr(c.args[0], env)
                self.need(tya in (INT, UNK), c, '.index of a value of type %s' % (tya,))
                tmp = self.temp()
                return b + ba + [(tmp, 'py_list_index %s %s' % (term, ta))], tmp, INT      # ValueError if absent
            if t == UNK and not S:
                for a in c.args:
                    self.expr(a, env)
                return b, '?', UNK
            if t[0] == 'obj' and len(t) > 1:
                fam = tr.fam_by_name(t[1])
                if isinstance(v, ast.Name) and v.id == 'self' and self.f.kind == 'method':
                    cands = [k for k in fam.concrete() if self.f.cls in list(k.mro())]
                else:
                    cands = fam.concrete()
                self.need(cands, c, 'method call on an object of a family without concrete classes')
                res = []
                for k in cands:
                    g = tr.resolve(k, m)
                    self.need(g is not None and g.kind in ('method', 'static'), c, 'method %s is not defined for class %s' % (m, k.name))
                    res.append((k, g))
                gs = []
                for k, g in res:
                    if g not in gs:
                        gs.append(g)
                if len(gs) == 1:
                    bb, tt, ty = self.call_unit(gs[0], term, c, env)
                    return b + bb, tt, ty
                bb, tt, ty = self.call_dispatch(fam, m, res, term, c, env)
                return b + bb, tt, ty
            self.rej(c, 'call of %s on a value of type %s' % (m, t))
        self.rej(c, 'call of %s' % ast.unparse(fn))

    def call_args(self, g, c, env):
        """argument terms of a call of the translated unit g, in parameter order; binds in evaluation order"""
        self.need(not any(isinstance(a, ast.Starred) for a in c.args), c, 'star arguments')
        self.need(len(c.args) <= len(g.params), c, 'too many arguments for %s' % g.qual)
        self.need(not g.returns_alias, c, 'call of %s, which returns one of its mutable attributes/arguments (aliasing)' % g.qual)
        given = {}
        for (n, t, d), a in zip(g.params, c.args):
            given[n] = a
        for k in c.keywords:
            self.need(k.arg is not None and k.arg in [p[0] for p in g.params] and k.arg not in given, c,
                      'keyword argument %s of %s' % (k.arg, g.qual))
            given[k.arg] = k.value
        order = list(c.args) + [k.value for k in c.keywords]
        trans = {}
        binds = []
        for a in order:
            b, term, t = self.expr(a, env)
            binds += b
            trans[id(a)] = (term, t)
        terms = []
        for (n, t, d) in g.params:
            if n in given:
                term, ta = trans[id(given[n])]
                if ta == INT and t == FLOAT:
                    term, ta = '(py_Z2Qc %s)' % term, FLOAT
                if t[0] == 'opt' and ta[0] != 'opt' and ta != UNK:
                    if ta == NONE:
                        term, ta = 'None', t
                    else:
                        term, ta = '(Some %s)' % term, ('opt', ta)
                if ta == FARR and t == ('list', FLOAT):
                    ta = t
                if not (ta == UNK and not self.tr.strict) and not same_repr(ta, t):
                    self.rej(c, 'argument %s of %s has type %s, expected %s' % (n, g.qual, ta, t))
                terms.append(term)
            else:
                self.need(d is not None, c, 'missing argument %s of %s' % (n, g.qual))
                terms.append(d)
        return binds, terms

    def call_unit(self, g, recv, c, env):
        """call of one translated function; recv: None (static / function), 'self' (param mode), or the term of the receiver"""
        tr = self.tr
        rec = g.qual == self.f.qual
        if rec:
            self.need(self.f.recursive, c, 'recursive call of %s without a declared fuel measure' % g.qual)
        else:
            tr.ensure(g.qual, c)
        binds, terms = self.call_args(g, c, env)
        pre = []
        if g.cls.mode == 'param' and g.kind == 'method':
            self.need(recv == 'self', c, 'method %s of a class translated in param mode called on another object' % g.qual)
            for a in g.self_attrs:
                if a not in self.f.self_attrs_new:
                    self.f.self_attrs_new.append(a)
                pre.append('self_' + a)
        elif g.kind == 'method':
            pre.append(recv)
        name = g.gname + ('_rec fuel' if rec else '')
        tmp = self.temp()
        binds.append((tmp, ' '.join([name] + pre + terms)))
        rt = g.ret
        if rt == NONE:
            return binds, 'tt', NONE
        return binds, tmp, rt

    def call_dispatch(self, fam, m, res, recv, c, env):
        tr = self.tr
        key = (fam.name, m, tuple(k.name for k, g in res))
        for k, g in res:
            self.need(g.qual != self.f.qual, c, 'recursion through dynamic dispatch')
            tr.ensure(g.qual, c)
        g0 = res[0][1]
        for k, g in res[1:]:
            self.need(len(g.params) == len(g0.params) and all(same_repr(p[1], q_[1]) and p[0] == q_[0] and p[2] == q_[2]
                                                              for p, q_ in zip(g.params, g0.params)), c,
                      'overriding methods %s and %s have different signatures' % (g0.qual, g.qual))
            self.need(g.kind == g0.kind == 'method', c, 'dispatch over static methods')
        rt = UNK
        for k, g in res:
            rt = join(rt, g.ret, c)
        dname = '%s_dyn_%s' % (fam.name, m) if len(res) == len(fam.concrete()) else \
            '%s_dyn_%s_below_%s' % (fam.name, m, self.f.cls.name)
        if key not in tr.dispatchers:
            params = ''.join(' (%s : %s)' % (n, gt(t, c) if not has_unk(t) else '_') for n, t, d in g0.params)
            rts = gt(rt, c) if not has_unk(rt) else '_'
            lines = ['(* dynamic dispatch of .%s on an object of the family %s (closed world: %s) *)'
                     % (m, fam.name, ', '.join(k.name for k, g in res)),
                     'Definition %s (self : %s)%s : option %s :=' % (dname, fam.tname, params, rts),
                     '  match %s_cls_of self with' % fam.name]
            covered = set()
            for k, g in res:
                call = ' '.join([g.gname, 'self'] + [n for n, t, d in g0.params])
                if g.ret == INT and rt == FLOAT:
                    call = 'option_map py_Z2Qc (%s)' % call
                lines.append('  | %s_C_%s => %s' % (fam.name, k.name, call))
                covered.add(k.name)
            if len(covered) < len(fam.concrete()):
                lines.append('  | _ => None')
            lines.append('  end.\n')
            tr.dispatchers[key] = dname
            tr.done.append(('dispatch:' + dname, '\n'.join(lines)))
        fake = Fn(g0.qual, g0.node, 'method', g0.file)
        fake.params = g0.params
        fake.returns_alias = any(g.returns_alias for k, g in res)
        binds, terms = self.call_args(fake, c, env)
        tmp = self.temp()
        binds.append((tmp, ' '.join([dname, recv] + terms)))
        if rt == NONE:
            return binds, 'tt', NONE
        return binds, tmp, rt


NUM_HEADER = '''(* GENERATED by harness/translate/py2gallina.py --target %s -- DO NOT EDIT.  Regenerated from the Python source at
   every ./setup.sh %s and at the start of every ./check %s run; the translation scheme is documented in the translator,
   the meaning of the py_* / np_* operations in Base/PyLib.v and Base/PyNum.v.
   TRUSTED READING: Python floats are exact rationals (Qc); float arithmetic and float comparisons are exact; rounding
   is not modelled.
   sources: %s *)
From Coq Require Import ZArith List Bool QArith Qcanon.
From SG Require Import Base.QcUtil Base.PyLib Base.PyNum.
Import ListNotations.
Open Scope Z_scope.
Open Scope py_scope.
'''


def render_num(tr, fns):
    cfg = tr.cfg
    out = [NUM_HEADER % (tr.tname, cfg['prop'], cfg['prop'], ', '.join(tr.sources))]
    for en, members in tr.enums.items():
        out.append('(* enum %s *)' % en)
        out.append('Inductive %s : Type := %s.' % (en, ' | '.join('%s_%s' % (en, m) for m in members)))
        cases = ' '.join('| %s_%s, %s_%s => true' % (en, m, en, m) for m in members)
        out.append('Definition %s_eqb (a b : %s) : bool := match a, b with %s%s end.\n'
                   % (en, en, cases, ' | _, _ => false' if len(members) > 1 else ''))
    # families in dependency order of their field types
    fams = list(tr.families)
    order = []

    def visit(fam, stack):
        if fam in order:
            return
        if fam in stack:
            raise Reject(fam.root.node, 'cyclic object types between families')
        for a in fam.field_order:
            def deps(t):
                if t[0] == 'obj' and len(t) > 1:
                    visit(tr.fam_by_name(t[1]), stack + [fam])
                for x in t[1:]:
                    if isinstance(x, tuple):
                        deps(x)
            deps(fam.fields[a])
        order.append(fam)
    for fam in fams:
        visit(fam, [])
    for fam in order:
        n = fam.name
        out.append('(* objects of the class family %s: %s *)' % (n, ', '.join(
            c.name + ('' if c.is_concrete else ' (abstract)') for c in fam.members)))
        conc = fam.concrete()
        if fam.tagged:
            if not conc:
                raise Reject(fam.root.node, 'family %s has no concrete class' % n)
            out.append('Inductive %s_cls : Type := %s.' % (n, ' | '.join('%s_C_%s' % (n, c.name) for c in conc)))
        rec = []
        if fam.tagged:
            rec.append('  %s_cls_of : %s_cls' % (n, n))
        for a in fam.field_order:
            rec.append('  %s_f_%s : %s' % (n, a, gt(fam.fields[a])))
        out.append('Record %s : Type := mk_%s {\n' % (fam.tname, fam.tname) + ';\n'.join(rec) + '\n}.')
        for a in fam.field_order:
            args = ' '.join('v' if b == a else '(%s_f_%s o)' % (n, b) for b in fam.field_order)
            tag = ' (%s_cls_of o)' % n if fam.tagged else ''
            out.append('Definition set_%s_f_%s (o : %s) v : %s := mk_%s%s %s.' % (n, a, fam.tname, fam.tname, fam.tname, tag, args))
        out.append('')
    for q, text in fns:
        out.append(text)
    return '\n'.join(out)


HEADER = '''(* GENERATED by harness/translate/py2gallina.py -- DO NOT EDIT.  Regenerated from the Python source at every
   ./setup.sh and ./check C01 run; the translation scheme is documented in the translator, the meaning of the py_*
   operations in Base/PyLib.v.
   sources: %s *)
From Coq Require Import ZArith List Bool QArith Qcanon.
From SG Require Import Base.PyLib.
Import ListNotations.
Open Scope Z_scope.
Open Scope py_scope.
'''


def render(tr, fns):
    fl = tr.field_order
    out = [HEADER % ', '.join([UTILS_FILE, CLASS_FILE, GRID_FILE])]
    out.append('(* object state of class %s; attributes not set by __init__ are optional *)' % CLASS_NAME)
    rec = []
    for a in fl:
        t = gt(tr.fields[a])
        if a not in tr.init_fields:
            t = 'option ' + t
        rec.append('  f_%s : %s' % (a, t))
    out.append('Record CombiScheme_t : Type := mk_CombiScheme_t {\n' + ';\n'.join(rec) + '\n}.')
    for a in fl:
        args = ' '.join('v' if b == a else '(f_%s o)' % b for b in fl)
        out.append('Definition set_f_%s (o : CombiScheme_t) v : CombiScheme_t := mk_CombiScheme_t %s.' % (a, args))
    out.append('')
    for q, text in fns:
        out.append(text)
    return '\n'.join(out)


def main(argv):
    import warnings
    warnings.simplefilter('ignore')      # SyntaxWarnings of the parsed sources are not ours
    repo = os.environ.get('VERIF_REPO', '/repo')
    outp = None
    target = 'combischeme'
    to_stdout = False
    extra_fuel = {}
    i = 0
    while i < len(argv):
        if argv[i] == '--repo':
            repo = argv[i + 1]; i += 2
        elif argv[i] == '--out':
            outp = argv[i + 1]; i += 2
        elif argv[i] == '--target' and argv[i + 1] in ['combischeme'] + list(NUM_TARGETS):
            target = argv[i + 1]; i += 2
        elif argv[i] == '--stdout':
            to_stdout = True; i += 1
        elif argv[i] == '--while-fuel' and '=' in argv[i + 1]:
            # development aid: declare a fuel measure  Class.method=<nat term>  (repeatable) in addition to the configuration
            q, m = argv[i + 1].split('=', 1)
            extra_fuel.setdefault(q, []).append(m); i += 2
        else:
            sys.stderr.write(__doc__ + NUM_DOC)
            return 2
    if outp is None:
        outp = os.path.join(VERIF, 'coq', 'Gen', 'CombiSchemeGen.v' if target == 'combischeme' else NUM_TARGETS[target]['out'])
    tr = Translator(repo) if target == 'combischeme' else NumTranslator(repo, target)
    if extra_fuel and target != 'combischeme':
        for q, ms in extra_fuel.items():
            tr.while_fuel.setdefault(q, []).extend(ms)
    rc = 0
    try:
        fns = tr.translate()
        text = render(tr, fns) if target == 'combischeme' else render_num(tr, fns)
    except Reject as r:
        msg = 'py2gallina: REJECT %s:%d: %s' % (tr.curfile, r.line, r.what)
        sys.stderr.write(msg + '\n')
        text = ('(* GENERATED by harness/translate/py2gallina.py -- the translator REJECTED the source:\n   %s\n'
                '   The definition below is ill-typed on purpose: nothing that depends on the generated model may build. *)\n'
                'Definition translator_rejected_the_source : False := I.\n') % msg.replace('*)', '* )').replace('(*', '( *')
        rc = 1
    except (OSError, SyntaxError) as r:
        msg = 'py2gallina: REJECT cannot read/parse the source: %s' % (r,)
        sys.stderr.write(msg + '\n')
        text = ('(* GENERATED by harness/translate/py2gallina.py -- %s *)\n'
                'Definition translator_rejected_the_source : False := I.\n') % msg.replace('*)', '* )').replace('(*', '( *')
        rc = 1
    if to_stdout:
        sys.stdout.write(text)
        return rc
    old = open(outp).read() if os.path.exists(outp) else None
    if old != text:
        os.makedirs(os.path.dirname(outp), exist_ok=True)
        tmp = outp + '.tmp%d' % os.getpid()
        open(tmp, 'w').write(text)
        os.replace(tmp, outp)
        # the compiled form of the previous version must not survive a failing rebuild (a stale .vo would let everything
        # that depends on the generated model keep "building")
        for ext in ('.vo', '.vos', '.vok', '.glob'):
            try:
                os.remove(outp[:-2] + ext)
            except OSError:
                pass
    return rc


if __name__ == '__main__':
    sys.exit(main(sys.argv[1:]))
