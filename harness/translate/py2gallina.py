#!/venv/bin/python
"""py2gallina.py -- FAIL-CLOSED translator from a restricted Python subset to Gallina (Coq 8.16).

Usage:  py2gallina.py [--repo DIR] [--out FILE] [--stdout]
        DIR defaults to $VERIF_REPO or /repo, FILE to <verif>/coq/Gen/CombiSchemeGen.v
Exit 0: FILE holds the translation (rewritten only when its content changed).
Exit 1: the source uses something outside the subset.  stderr names file:line and the construct; FILE is replaced by
        a stub that does not compile, so that every proof depending on the generated model breaks.

What is translated (UNITS below): Utils.get_cross_product and EVERY method of class CombiScheme in combiScheme.py.
The module level of combiScheme.py must consist of the known imports and the class only; ComponentGridInfo.__init__
is checked to be the plain two-field constructor.

TRANSLATION SCHEME (syntax directed; the meaning of every py_* name is fixed in coq/Base/PyLib.v)
  types     parameter annotations are trusted (int, bool, List[..], Set[Tuple[int, ...]]); everything else is inferred
            forward; an expression whose type the translator cannot determine is rejected.  int -> Z, bool -> bool,
            int/int -> Qc, list/tuple -> list, set -> list (duplicate free), dict -> association list,
            ComponentGridInfo -> (list Z * Qc) (an int coefficient is embedded by py_Z2Qc), None -> unit,
            "value or None" -> option.
  object    record CombiScheme_t with one field f_<attr> per attribute assigned anywhere in the class.  Attributes set in
            __init__ have their plain type, all others `option T` (None = not set yet; reading = AttributeError).
  function  method m(self, a..)  ->  CombiScheme_m (self : CombiScheme_t) (a : T).. : option (R * CombiScheme_t)
            static/module function ->  name (a : T)..                               : option R
            None = an exception was raised.  A recursive function gets a structurally decreasing `fuel : nat` argument
            (name_rec) and a wrapper that passes the fuel measure declared in FUEL below; sufficiency of that measure is
            a theorem in Proofs/GenCombiSchemeEq.v.
  block     a statement list with live-out variables V becomes a term of type `flow V R`:
              x = e                let x := [e] in ...              (x <- [e] ;; ... when e can raise)
              self.a = e           let self := set_f_a self [e] in ...
              x[i] = e / x[i] += e x <- py_setitem x i .. ;; ...       (dict: py_dict_get / py_dict_set)
              x.append(e) ...      let x := x ++ [e] in ...          (extend, add, remove(raises) likewise)
              assert c             py_assert [c] (...)               (assert isinstance(..) is dropped, by name)
              print(..)            dropped, by name, together with the evaluation of its arguments
              if c: A else: B      vars <~ (if [c] then [A] else [B]) ;; ...     vars = variables assigned in A or B that
                                                                                 exist before the statement
              for x in e: B        vars <~ (py_for [e] (fun x vars => [B]) vars) ;; ...   (early-exit left fold)
              return e             Ret [e]   (methods: Ret ([e], self))
              end of block         Nxt vars
            A variable first assigned inside a branch or loop body is local to it (a later use is rejected); a loop
            variable must not shadow an existing variable.
  expr      pure expressions become Gallina terms.  Operations that can raise (indexing, dict lookup, set.remove,
            reading a maybe-unset attribute, math.factorial, int/int, calls of translated functions) are bound in
            evaluation order before the statement that contains them; inside the right operand of and/or they stay
            inside the operand (`if a then (t <?- b ;; Some ..) else Some false`) so that short-circuiting is kept.
  aliasing  Gallina values are immutable.  The translation is only valid when no mutated object is reachable through
            two names.  Rejected therefore: `x = y` for a mutable y; storing a bare mutable variable in a container,
            attribute or object; mutating a parameter before it was rebound to a fresh copy; mutating a variable
            that does not own its value; passing `self.attr` of mutable type to a method; calling a method that returns
            one of its mutable attributes.  Iterators (map, itertools.product) may be consumed once.
Anything not listed is rejected: while, try, with, lambda outside map, comprehension conditions, slices, global
state, keyword/star arguments except where named below, float literals, strings, chained comparisons, ...
"""
import ast
import os
import sys

HERE = os.path.dirname(os.path.abspath(__file__))
VERIF = os.path.dirname(os.path.dirname(HERE))

# ---------------------------------------------------------------------------------------------- configuration
CLASS_FILE = 'sparseSpACE/combiScheme.py'
CLASS_NAME = 'CombiScheme'
UTILS_FILE = 'sparseSpACE/Utils.py'
UTILS_FUNCS = ['get_cross_product']
GRID_FILE = 'sparseSpACE/ComponentGridInfo.py'
# fuel measure of recursive functions: name -> index of the parameter p with fuel = S (Z.to_nat p)
FUEL = {'CombiScheme.getGrids': 0}
# parameter types where the annotation is generic: instantiated at the only type used by translated callers
PARAM_OVERRIDE = {('get_cross_product', 'one_d_arrays'): ('list', ('list', ('int',)))}
ALLOWED_IMPORTS_CLASS_FILE = {
    ('import', 'numpy', 'np'), ('import', 'math', None),
    ('from', 'sparseSpACE.ComponentGridInfo', 'ComponentGridInfo'), ('from', 'typing', '*any*'),
    ('from', 'sparseSpACE.Utils', '*'),
}
RESERVED = set('''map filter negb andb orb fst snd Some None Ret Nxt Fail tt true false repeat length app cons nil Z list
option bool unit Qc fun let in if then else match with end as return forall exists fix cofix Type Prop Set at using where
for mod IF nat seq flat_map fold_left existsb forallb tup flow run_flow bindE bindF bindO self_'''.split())

INT, BOOL, FLOAT, NONE, UNK, GRID, NPARR = ('int',), ('bool',), ('float',), ('none',), ('unk',), ('grid',), ('nparr',)
OBJ = ('obj',)
TUPI = ('tuple', INT)


class Reject(Exception):
    def __init__(self, node, what):
        Exception.__init__(self, what)
        self.line = getattr(node, 'lineno', 0)
        self.what = what


def is_mutable(t):
    return t[0] in ('list', 'set', 'dict', 'nparr', 'iter')


def join(a, b, node):
    if a == b:
        return a
    if a == UNK:
        return b
    if b == UNK:
        return a
    if a[0] in ('list', 'tuple') and b[0] in ('list', 'tuple'):
        return ('list' if 'list' in (a[0], b[0]) else 'tuple', join(a[1], b[1], node))
    if a[0] == b[0] and len(a) == len(b) and a[0] in ('set', 'iter', 'opt', 'dict', 'pair'):
        return (a[0],) + tuple(join(x, y, node) for x, y in zip(a[1:], b[1:]))
    if a == NONE and b[0] != 'opt':
        return ('opt', b)
    if b == NONE and a[0] != 'opt':
        return ('opt', a)
    if a[0] == 'opt' and b == NONE:
        return a
    if b[0] == 'opt' and a == NONE:
        return b
    if a[0] == 'opt' and b[0] != 'opt':
        return ('opt', join(a[1], b, node))
    if b[0] == 'opt' and a[0] != 'opt':
        return ('opt', join(a, b[1], node))
    raise Reject(node, 'conflicting types %s and %s' % (a, b))


def has_unk(t):
    return t == UNK or any(isinstance(x, tuple) and has_unk(x) for x in t[1:])


def gt(t, node=None):
    """Gallina type"""
    k = t[0]
    if k == 'int':
        return 'Z'
    if k == 'bool':
        return 'bool'
    if k == 'float':
        return 'Qc'
    if k == 'none':
        return 'unit'
    if k in ('list', 'tuple', 'set', 'iter'):
        return '(list %s)' % gt(t[1], node)
    if k == 'nparr':
        return '(list Z)'
    if k == 'dict':
        return '(list (%s * %s))' % (gt(t[1], node), gt(t[2], node))
    if k == 'pair':
        return '(%s)' % ' * '.join(gt(x, node) for x in t[1:])
    if k == 'grid':
        return '(list Z * Qc)'
    if k == 'obj':
        return 'CombiScheme_t'
    if k == 'opt':
        return '(option %s)' % gt(t[1], node)
    raise Reject(node, 'type of this expression could not be determined')


def same_repr(a, b):
    try:
        return gt(a) == gt(b)
    except Reject:
        return False


def is_tupi(t):
    return t[0] in ('tuple', 'list') and t[1] == INT


def ann_type(a, node):
    """type of a parameter annotation"""
    if isinstance(a, ast.Name):
        if a.id == 'int':
            return INT
        if a.id == 'bool':
            return BOOL
    if isinstance(a, ast.Subscript) and isinstance(a.value, ast.Name):
        n = a.value.id
        s = a.slice
        if n in ('List', 'Sequence'):
            return ('list', ann_type(s, node))
        if n == 'Set':
            return ('set', ann_type(s, node))
        if n == 'Tuple' and isinstance(s, ast.Tuple) and len(s.elts) == 2 and isinstance(s.elts[1], ast.Constant) \
                and s.elts[1].value is Ellipsis:
            return ('tuple', ann_type(s.elts[0], node))
    raise Reject(node, 'unsupported parameter annotation %s' % ast.dump(a)[:80])


def ident(name, node):
    if name in RESERVED or name.startswith('_t') or name.startswith('py_') or name.startswith('f_') \
            or name.startswith('CombiScheme') or name.startswith('np_'):
        raise Reject(node, 'identifier %r clashes with a name used by the translation' % name)
    if not name.isidentifier() or not name.isascii():
        raise Reject(node, 'identifier %r' % name)
    return name


class Fn:
    def __init__(self, qual, node, kind, file):
        self.qual = qual          # 'CombiScheme.getGrids' | 'get_cross_product'
        self.node = node
        self.kind = kind          # 'method' | 'static' | 'func' | 'init'
        self.file = file
        self.params = []          # (name, type, default-term)
        self.ret = UNK
        self.returns_alias = False
        self.recursive = False
        self.calls = set()

    @property
    def gname(self):
        return self.qual.replace('.', '_') if '.' in self.qual else 'Utils_' + self.qual


class Translator:
    def __init__(self, repo):
        self.repo = repo
        self.fns = {}
        self.fields = {}          # attr -> type
        self.init_fields = []     # attrs set by __init__, in order
        self.field_order = []
        self.strict = False
        self.curfile = '?'

    # ------------------------------------------------------------------------------------------ loading
    def load(self):
        src = open(os.path.join(self.repo, CLASS_FILE)).read()
        self.curfile = CLASS_FILE
        mod = ast.parse(src)
        cls = None
        for st in mod.body:
            if isinstance(st, ast.Import):
                for al in st.names:
                    if ('import', al.name, al.asname) not in ALLOWED_IMPORTS_CLASS_FILE:
                        raise Reject(st, 'module-level import %s as %s' % (al.name, al.asname))
            elif isinstance(st, ast.ImportFrom):
                for al in st.names:
                    if ('from', st.module, al.name) not in ALLOWED_IMPORTS_CLASS_FILE and \
                            ('from', st.module, '*any*') not in ALLOWED_IMPORTS_CLASS_FILE:
                        raise Reject(st, 'module-level import from %s: %s' % (st.module, al.name))
                    if al.asname is not None:
                        raise Reject(st, 'import ... as %s' % al.asname)
            elif isinstance(st, ast.ClassDef) and st.name == CLASS_NAME and cls is None:
                cls = st
            else:
                raise Reject(st, 'module-level statement %s (only the known imports and class %s are allowed)'
                             % (type(st).__name__, CLASS_NAME))
        if cls is None:
            raise Reject(mod, 'class %s not found' % CLASS_NAME)
        if cls.bases or cls.keywords or cls.decorator_list:
            raise Reject(cls, 'class bases / decorators')
        for st in cls.body:
            if isinstance(st, ast.Expr) and isinstance(st.value, ast.Constant) and isinstance(st.value.value, str):
                continue    # docstring
            if not isinstance(st, ast.FunctionDef):
                raise Reject(st, 'class-level statement %s' % type(st).__name__)
            decos = [d.id if isinstance(d, ast.Name) else '?' for d in st.decorator_list]
            if decos == []:
                kind = 'init' if st.name == '__init__' else 'method'
            elif decos == ['staticmethod']:
                kind = 'static'
            else:
                raise Reject(st, 'decorator %s' % decos)
            q = CLASS_NAME + '.' + st.name
            if q in self.fns:
                raise Reject(st, 'method %s defined twice' % st.name)
            self.fns[q] = Fn(q, st, kind, CLASS_FILE)
        # Utils
        self.curfile = UTILS_FILE
        umod = ast.parse(open(os.path.join(self.repo, UTILS_FILE)).read())
        product_ok = False
        for st in umod.body:
            names = []
            if isinstance(st, (ast.FunctionDef, ast.ClassDef)):
                names = [st.name]
            elif isinstance(st, ast.Assign):
                names = [t.id for t in st.targets if isinstance(t, ast.Name)]
            elif isinstance(st, ast.ImportFrom):
                for al in st.names:
                    if (al.asname or al.name) == 'product':
                        if st.module == 'itertools' and al.name == 'product' and not product_ok:
                            product_ok = True
                        else:
                            raise Reject(st, "name 'product' bound by something else than `from itertools import product`")
                    if al.name == '*':
                        raise Reject(st, 'star import in Utils.py (could rebind product / get_cross_product)')
                continue
            elif isinstance(st, ast.Import):
                names = [(al.asname or al.name) for al in st.names]
            for n in names:
                if n == 'product':
                    raise Reject(st, "module-level rebinding of 'product'")
                if n in UTILS_FUNCS:
                    if not isinstance(st, ast.FunctionDef) or n in self.fns:
                        raise Reject(st, 'module-level rebinding of %s' % n)
                    if st.decorator_list:
                        raise Reject(st, 'decorator on %s' % n)
                    self.fns[n] = Fn(n, st, 'func', UTILS_FILE)
        if not product_ok:
            raise Reject(umod, '`from itertools import product` not found in Utils.py')
        for n in UTILS_FUNCS:
            if n not in self.fns:
                raise Reject(umod, 'function %s not found in Utils.py' % n)
        # a name of a translated Utils function must not be shadowed in the class file (checked above: no defs)
        # ComponentGridInfo = plain pair constructor
        self.curfile = GRID_FILE
        gmod = ast.parse(open(os.path.join(self.repo, GRID_FILE)).read())
        want = "Module(body=[ClassDef(name='ComponentGridInfo', bases=[Name(id='object', ctx=Load())], keywords=[], " \
               "body=[FunctionDef(name='__init__', args=arguments(posonlyargs=[], args=[arg(arg='self'), " \
               "arg(arg='levelvector'), arg(arg='coefficient')], kwonlyargs=[], kw_defaults=[], defaults=[]), " \
               "body=[Assign(targets=[Attribute(value=Name(id='self', ctx=Load()), attr='levelvector', ctx=Store())], " \
               "value=Name(id='levelvector', ctx=Load())), Assign(targets=[Attribute(value=Name(id='self', ctx=Load()), " \
               "attr='coefficient', ctx=Store())], value=Name(id='coefficient', ctx=Load()))], decorator_list=[]"
        got = ast.dump(gmod)
        if not got.replace(', type_params=[]', '').startswith(want):
            raise Reject(gmod, 'ComponentGridInfo is no longer the plain (levelvector, coefficient) constructor')
        # signatures
        for f in self.fns.values():
            self.curfile = f.file
            a = f.node.args
            if a.vararg or a.kwarg or a.kwonlyargs or a.posonlyargs:
                raise Reject(f.node, 'star / keyword-only parameters')
            args = list(a.args)
            if f.kind in ('method', 'init'):
                if not args or args[0].arg != 'self':
                    raise Reject(f.node, 'method without self')
                args = args[1:]
            defaults = [None] * (len(args) - len(a.defaults)) + list(a.defaults)
            for ar, df in zip(args, defaults):
                if (f.qual, ar.arg) in PARAM_OVERRIDE:
                    t = PARAM_OVERRIDE[(f.qual, ar.arg)]
                elif ar.annotation is None:
                    raise Reject(ar, 'parameter %s without annotation' % ar.arg)
                else:
                    t = ann_type(ar.annotation, ar)
                dterm = None
                if df is not None:
                    if isinstance(df, ast.Constant) and type(df.value) is bool and t == BOOL:
                        dterm = 'true' if df.value else 'false'
                    elif isinstance(df, ast.Constant) and type(df.value) is int and t == INT:
                        dterm = '(%d)' % df.value
                    else:
                        raise Reject(df, 'default value of parameter %s' % ar.arg)
                f.params.append((ident(ar.arg, ar), t, dterm))
            # call graph
            for n in ast.walk(f.node):
                if isinstance(n, ast.Call):
                    fn = n.func
                    if isinstance(fn, ast.Attribute) and isinstance(fn.value, ast.Name):
                        if fn.value.id in (CLASS_NAME, 'self'):
                            nm = self.unmangle(fn.attr)
                            if CLASS_NAME + '.' + nm in self.fns:
                                f.calls.add(CLASS_NAME + '.' + nm)
                    elif isinstance(fn, ast.Name) and fn.id in self.fns:
                        f.calls.add(fn.id)
            f.recursive = f.qual in f.calls
            if f.recursive != (f.qual in FUEL):
                raise Reject(f.node, 'recursion of %s does not match the declared fuel measures' % f.qual)
        # topological order
        order, state = [], {}

        def visit(q, stack):
            if state.get(q) == 2:
                return
            if state.get(q) == 1:
                raise Reject(self.fns[q].node, 'mutual recursion through %s' % ' -> '.join(stack + [q]))
            state[q] = 1
            for c in sorted(self.fns[q].calls, key=lambda c: self.fns[c].node.lineno):
                if c != q:
                    visit(c, stack + [q])
            state[q] = 2
            order.append(q)
        for q in sorted(self.fns, key=lambda q: (self.fns[q].file != UTILS_FILE, self.fns[q].node.lineno)):
            visit(q, [])
        init = CLASS_NAME + '.__init__'
        self.order = [q for q in order if q == init] + [q for q in order if q != init]

    @staticmethod
    def unmangle(attr):
        return attr

    # ------------------------------------------------------------------------------------------ driver
    def translate(self):
        self.load()
        if CLASS_NAME + '.__init__' not in self.fns:
            raise Reject(None, 'class without __init__')
        prev = None
        for it in range(6):
            self.strict = False
            self.run_pass()
            snap = (dict(self.fields), {q: (f.ret, f.returns_alias) for q, f in self.fns.items()})
            if snap == prev:
                break
            prev = snap
        else:
            raise Reject(None, 'type inference did not converge')
        self.strict = True
        return self.run_pass()

    def run_pass(self):
        out = []
        newfields = {}
        self.newfields = newfields
        for q in self.order:
            f = self.fns[q]
            self.curfile = f.file
            out.append((q, FnTranslator(self, f).run()))
        for a, t in newfields.items():
            self.fields[a] = t
        if not self.field_order:
            pass
        self.field_order = list(self.init_fields) + sorted(a for a in self.fields if a not in self.init_fields)
        return out

    def field_type(self, attr, node):
        if attr not in self.fields:
            if self.strict:
                raise Reject(node, 'attribute self.%s is never assigned in the class' % attr)
            return UNK
        return self.fields[attr]

    def note_field(self, attr, t, node):
        old = self.newfields.get(attr, self.fields.get(attr, UNK))
        self.newfields[attr] = join(old, t, node)


class FnTranslator:
    def __init__(self, tr, f):
        self.tr = tr
        self.f = f
        self.ntemp = 0
        self.rets = []            # types of returned values (NONE for bare return)
        self.used_iters = set()
        self.loop_depth = 0
        self.range_vars = set()   # loop variables of range(...) with non-negative start

    def temp(self):
        self.ntemp += 1
        return '_t%d' % self.ntemp

    def rej(self, node, what):
        raise Reject(node, what)

    # ------------------------------------------------------------------------------------------ function
    def run(self):
        f = self.f
        env = {}
        if f.kind in ('method', 'init'):
            env['self'] = dict(t=OBJ, owned=True, depth=0)
        for (n, t, d) in f.params:
            if n in env:
                self.rej(f.node, 'duplicate parameter ' + n)
            env[n] = dict(t=t, owned=not is_mutable(t), depth=0)
        body = list(f.node.body)
        if body and isinstance(body[0], ast.Expr) and isinstance(body[0].value, ast.Constant) and \
                isinstance(body[0].value.value, str):
            body = body[1:]
        if f.kind == 'init':
            return self.run_init(body, env)
        if not self.definitely_returns(body):
            # falling off the end of a function = `return None`
            body.append(ast.Return(value=None, lineno=f.node.end_lineno, col_offset=0))
        # the return type of the previous pass decides how values are wrapped
        self.ret_t = f.ret
        lines, endenv = self.block(body, env, [], 2)
        rt = UNK
        for t in self.rets:
            rt = join(rt, t, f.node)
        f.ret = rt
        if self.tr.strict and has_unk(rt):
            self.rej(f.node, 'return type of %s could not be determined' % f.qual)
        params = ''.join(' (%s : %s)' % (n, gt(t, f.node) if not has_unk(t) else '_') for n, t, d in f.params)
        rts = gt(rt, f.node) if not has_unk(rt) else '_'
        if f.kind == 'method':
            sig = ' (self : CombiScheme_t)%s : option (%s * CombiScheme_t)' % (params, rts)
        else:
            sig = '%s : option %s' % (params, rts)
        src = '(* %s:%d-%d  %s *)' % (f.file, f.node.lineno, f.node.end_lineno, f.qual)
        defaults = [(n, d) for n, t, d in f.params if d is not None]
        if defaults:
            src += '\n(* default arguments: %s *)' % ', '.join('%s = %s' % nd for nd in defaults)
        if f.recursive:
            p = f.params[FUEL[f.qual]][0]
            head = 'Fixpoint %s_rec (fuel : nat)%s :=\n  match fuel with\n  | O => None\n  | S fuel =>' % (f.gname, sig)
            text = src + '\n' + head + '\n  run_flow (V:=unit) (\n' + '\n'.join(lines) + ')\n  end.\n'
            text += 'Definition %s%s :=\n  %s_rec (S (Z.to_nat %s))%s.\n' % (
                f.gname, sig, f.gname, p, ''.join(' ' + n for n, t, d in f.params))
        else:
            text = src + '\nDefinition %s%s :=\n  run_flow (V:=unit) (\n' % (f.gname, sig) + '\n'.join(lines) + ').\n'
        return text

    def run_init(self, body, env):
        f = self.f
        vals = {}
        order = []
        for st in body:
            if not (isinstance(st, ast.Assign) and len(st.targets) == 1 and isinstance(st.targets[0], ast.Attribute)
                    and isinstance(st.targets[0].value, ast.Name) and st.targets[0].value.id == 'self'):
                self.rej(st, '__init__ may only contain `self.attr = expr` statements')
            a = st.targets[0].attr
            if a in vals:
                self.rej(st, 'attribute %s assigned twice in __init__' % a)
            binds, term, t = self.expr(st.value, env)
            if binds:
                self.rej(st, 'raising expression in __init__')
            self.check_store(st.value, t, st)
            vals[a] = term
            order.append(a)
            self.tr.note_field(a, t, st)
        self.tr.init_fields = order
        f.ret = OBJ
        params = ''.join(' (%s : %s)' % (n, gt(t, f.node)) for n, t, d in f.params)
        allf = self.tr.field_order or order
        args = ' '.join('(%s)' % vals[a] if a in vals else 'None' for a in allf)
        src = '(* %s:%d-%d  %s *)' % (f.file, f.node.lineno, f.node.end_lineno, f.qual)
        return src + '\nDefinition %s%s : option CombiScheme_t :=\n  Some (mk_CombiScheme_t %s).\n' % (f.gname, params, args)

    def definitely_returns(self, stmts):
        if not stmts:
            return False
        s = stmts[-1]
        if isinstance(s, ast.Return):
            return True
        if isinstance(s, ast.If):
            return self.definitely_returns(s.body) and self.definitely_returns(s.orelse)
        return False

    # ------------------------------------------------------------------------------------------ helpers
    def tuple_term(self, names):
        if not names:
            return 'tt'
        if len(names) == 1:
            return names[0]
        return '(' + ', '.join(names) + ')'

    def pat(self, names):
        if not names:
            return '_'
        if len(names) == 1:
            return names[0]
        return "'(" + ', '.join(names) + ')'

    def lam_pat(self, names):
        if not names:
            return '(_ : unit)'
        if len(names) == 1:
            return names[0]
        return "'(" + ', '.join(names) + ')'

    def emit_binds(self, binds, ind):
        return [' ' * ind + '%s <- (%s) ;;' % (p, e) for p, e in binds]

    def opt_chain(self, binds, final):
        return ' '.join('%s <?- (%s) ;;' % (p, e) for p, e in binds) + ' ' + final

    def assigned(self, stmts):
        """names (re)bound by a statement list, 'self' for any change of the object state"""
        res = []

        def add(n):
            if n not in res:
                res.append(n)

        def target(t):
            if isinstance(t, ast.Name):
                add(t.id)
            elif isinstance(t, ast.Attribute) and isinstance(t.value, ast.Name) and t.value.id == 'self':
                add('self')
            elif isinstance(t, ast.Subscript) and isinstance(t.value, ast.Name):
                add(t.value.id)
            elif isinstance(t, ast.Subscript) and isinstance(t.value, ast.Attribute) and \
                    isinstance(t.value.value, ast.Name) and t.value.value.id == 'self':
                add('self')
            else:
                self.rej(t, 'assignment target %s' % type(t).__name__)
        for st in stmts:
            for n in ast.walk(st):
                if isinstance(n, ast.Call) and isinstance(n.func, ast.Attribute):
                    v = n.func.value
                    if isinstance(v, ast.Name) and v.id == 'self':
                        add('self')       # every method takes and returns the object state
                    elif n.func.attr in ('append', 'extend', 'add', 'remove'):
                        if isinstance(v, ast.Name):
                            add(v.id)
                        elif isinstance(v, ast.Attribute) and isinstance(v.value, ast.Name) and v.value.id == 'self':
                            add('self')
                if isinstance(n, ast.Assign):
                    for t in n.targets:
                        target(t)
                if isinstance(n, ast.AugAssign):
                    target(n.target)
        return res

    def check_store(self, node, t, where):
        """a bare mutable variable / attribute must not be stored (aliasing)"""
        if is_mutable(t) and isinstance(node, (ast.Name, ast.Attribute, ast.Subscript)):
            self.rej(where, 'storing the mutable object %s without copying it (aliasing)' % ast.unparse(node))

    # ------------------------------------------------------------------------------------------ statements
    def block(self, stmts, env, out, ind):
        """returns (lines, env at the end or None when the block cannot fall through)"""
        sp = ' ' * ind
        if not stmts:
            return [sp + 'Nxt ' + self.tuple_term(out)], env
        st, rest = stmts[0], stmts[1:]
        env = dict(env)
        L = []

        def cont():
            lines, e = self.block(rest, env, out, ind)
            return L + lines, e

        if isinstance(st, ast.Pass):
            return cont()
        if isinstance(st, ast.Return):
            if rest:
                self.rej(rest[0], 'statement after return')
            if st.value is None or (isinstance(st.value, ast.Constant) and st.value.value is None):   # return / return None
                self.rets.append(NONE)
                term, t = None, NONE
            elif isinstance(st.value, ast.Tuple):
                parts = [self.expr(e, env) for e in st.value.elts]
                binds = sum((p[0] for p in parts), [])
                L += self.emit_binds(binds, ind)
                term = '(' + ', '.join(p[1] for p in parts) + ')'
                t = ('pair',) + tuple(p[2] for p in parts)
                self.rets.append(t)
            else:
                binds, term, t = self.expr(st.value, env, consume=True)
                L += self.emit_binds(binds, ind)
                if is_mutable(t) and isinstance(st.value, ast.Attribute):
                    self.f.returns_alias = True
                if is_mutable(t) and isinstance(st.value, ast.Name) and not env[st.value.id]['owned']:
                    self.f.returns_alias = True
                self.rets.append(t)
            rt = self.ret_t
            if rt[0] == 'opt' and t[0] != 'opt':
                term = 'None' if t == NONE else 'Some %s' % term
            elif t == NONE:
                term = 'tt'
            elif t == INT and rt == FLOAT:
                term = '(py_Z2Qc %s)' % term
            if self.f.kind == 'method':
                term = '(%s, self)' % term
            return L + [sp + 'Ret %s' % term], None
        if isinstance(st, ast.Assert):
            if st.msg is not None:
                self.rej(st, 'assert with message')
            if isinstance(st.test, ast.Call) and isinstance(st.test.func, ast.Name) and st.test.func.id == 'isinstance':
                L.append(sp + '(* dropped: %s *)' % ast.unparse(st).replace('*)', '* )'))
                return cont()
            binds, term, t = self.expr(st.test, env)
            if t not in (BOOL, UNK):
                self.rej(st, 'assert on a non-boolean value')
            L += self.emit_binds(binds, ind)
            lines, e = self.block(rest, env, out, ind)
            return L + [sp + 'py_assert %s (' % term] + lines + [sp + ')'], e
        if isinstance(st, ast.Expr):
            return self.expr_stmt(st, env, L, cont, ind)
        if isinstance(st, ast.Assign):
            if len(st.targets) != 1:
                self.rej(st, 'multiple assignment targets')
            self.assign(st.targets[0], st.value, st, env, L, ind)
            return cont()
        if isinstance(st, ast.AugAssign):
            self.augassign(st, env, L, ind)
            return cont()
        if isinstance(st, ast.If):
            binds, term, t = self.expr(st.test, env)
            if t not in (BOOL, UNK):
                self.rej(st, 'if on a non-boolean value (truthiness of %s is not translated)' % (t,))
            L += self.emit_binds(binds, ind)
            vs = [n for n in env if n in self.assigned(st.body + st.orelse)]
            la, ea = self.block(st.body, env, vs, ind + 4)
            lb, eb = self.block(st.orelse, env, vs, ind + 4)
            self.merge(env, [ea, eb], vs, st)
            L += [sp + '%s <~ (if %s then (' % (self.pat(vs), term)] + la + [sp + '  ) else ('] + lb + [sp + '  )) ;;']
            if ea is None and eb is None:
                if rest:
                    self.rej(rest[0], 'statement after an if whose branches both return')
                return L + [sp + 'Nxt ' + self.tuple_term(out)], None
            return cont()
        if isinstance(st, ast.For):
            if st.orelse:
                self.rej(st, 'for ... else')
            binds, it, elt, tpat, tnames, nonneg = self.iterable(st.iter, st.target, env)
            L += self.emit_binds(binds, ind)
            benv = dict(env)
            for n, t in tnames:
                if n in env:
                    self.rej(st, 'loop variable %s shadows an existing variable' % n)
                benv[n] = dict(t=t, owned=False, depth=self.loop_depth + 1)
                if nonneg:
                    self.range_vars.add(n)
            vs = [n for n in env if n in self.assigned(st.body)]
            self.loop_depth += 1
            lb, eb = self.block(st.body, benv, vs, ind + 4)
            self.loop_depth -= 1
            self.merge(env, [eb], vs, st)
            for n, t in tnames:
                self.range_vars.discard(n)
            L += [sp + '%s <~ (py_for %s (fun %s %s =>' % (self.pat(vs), it, tpat, self.lam_pat(vs))] + lb + \
                 [sp + '  ) %s) ;;' % self.tuple_term(vs)]
            return cont()
        self.rej(st, 'statement %s' % type(st).__name__)

    def merge(self, env, ends, vs, node):
        """types / ownership of the live-out variables after a branch or loop"""
        for n in vs:
            t = env[n]['t']
            owned = env[n]['owned']
            for e in ends:
                if e is None:
                    continue
                t2 = e[n]['t']
                if not same_repr(t, t2) and not (has_unk(t) or has_unk(t2)):
                    self.rej(node, 'variable %s changes its type in a branch / loop body' % n)
                t = join(t, t2, node)
                owned = owned and e[n]['owned']
            env[n] = dict(env[n], t=t, owned=owned)

    def setvar(self, env, name, t, owned, node):
        ident(name, node)
        if name == 'self':
            self.rej(node, 'assignment to self')
        if name in env and not same_repr(env[name]['t'], t) and not has_unk(t) and not has_unk(env[name]['t']) \
                and env[name]['depth'] < self.loop_depth:
            self.rej(node, 'variable %s changes its type inside a loop' % name)
        d = env[name]['depth'] if name in env else self.loop_depth
        env[name] = dict(t=t, owned=owned, depth=d)
        self.used_iters.discard(name)

    FRESH = (ast.List, ast.ListComp, ast.Dict, ast.BinOp, ast.Call, ast.Tuple, ast.Constant, ast.Compare, ast.BoolOp,
             ast.UnaryOp)

    def assign(self, target, value, st, env, L, ind):
        sp = ' ' * ind
        if isinstance(target, ast.Name):
            # binding an iterator to a name does not consume it; every later use of the name is checked
            binds, term, t = self.expr(value, env, consume=isinstance(value, ast.Call))
            L += self.emit_binds(binds, ind)
            if is_mutable(t) and not isinstance(value, self.FRESH):
                self.rej(st, 'assignment `%s` makes two names refer to one mutable object (aliasing)' % ast.unparse(st))
            self.setvar(env, target.id, t, True, st)
            L.append(sp + 'let %s := %s in' % (target.id, term))
            return
        if isinstance(target, ast.Attribute) and isinstance(target.value, ast.Name) and target.value.id == 'self':
            binds, term, t = self.expr(value, env)
            L += self.emit_binds(binds, ind)
            self.check_store(value, t, st)
            if t == ('iter',):
                self.rej(st, 'storing an iterator')
            a = target.attr
            self.tr.note_field(a, t, st)
            if a not in self.tr.init_fields:
                term = '(Some %s)' % term
            L.append(sp + 'let self := set_f_%s self %s in' % (a, term))
            return
        if isinstance(target, ast.Subscript) and isinstance(target.value, ast.Name) and target.value.id != 'self':
            x = target.value.id
            if x not in env:
                self.rej(st, 'unknown variable ' + x)
            tx = env[x]['t']
            bi, ti, tyi = self.expr(target.slice, env)
            bv, tv, tyv = self.expr(value, env)
            L += self.emit_binds(bi + bv, ind)
            self.check_store(value, tyv, st)
            self.store_sub(x, tx, ti, tyi, tv, tyv, env, st, L, ind)
            return
        self.rej(st, 'assignment target %s' % ast.unparse(target))

    def store_sub(self, x, tx, ti, tyi, tv, tyv, env, st, L, ind):
        sp = ' ' * ind
        if not env[x]['owned']:
            self.rej(st, 'mutation of %s, which may be shared with the caller or another object (aliasing)' % x)
        if tx[0] == 'list':
            if tyi not in (INT, UNK):
                self.rej(st, 'list index of type %s' % (tyi,))
            env[x] = dict(env[x], t=('list', join(tx[1], tyv, st)))
            L.append(sp + '%s <- (py_setitem %s %s %s) ;;' % (x, x, ti, tv))
        elif tx[0] == 'dict':
            if not (is_tupi(tyi) or tyi == UNK):
                self.rej(st, 'dict key of type %s (only tuples of ints)' % (tyi,))
            env[x] = dict(env[x], t=('dict', TUPI, join(tx[2], tyv, st)))
            L.append(sp + 'let %s := py_dict_set %s %s %s in' % (x, x, ti, tv))
        elif tx == UNK and not self.tr.strict:
            pass
        else:
            self.rej(st, 'item assignment on a value of type %s' % (tx,))

    def augassign(self, st, env, L, ind):
        sp = ' ' * ind
        if not isinstance(st.op, (ast.Add, ast.Sub)):
            self.rej(st, 'augmented assignment operator %s' % type(st.op).__name__)
        op = '+' if isinstance(st.op, ast.Add) else '-'
        bv, tv, tyv = self.expr(st.value, env)
        if tyv not in (INT, UNK):
            self.rej(st, 'augmented assignment with a value of type %s' % (tyv,))
        tg = st.target
        if isinstance(tg, ast.Name):
            if tg.id not in env:
                self.rej(st, 'unknown variable ' + tg.id)
            if env[tg.id]['t'] not in (INT, UNK):
                self.rej(st, 'augmented assignment to a variable of type %s' % (env[tg.id]['t'],))
            L += self.emit_binds(bv, ind)
            L.append(sp + 'let %s := (%s %s %s) in' % (tg.id, tg.id, op, tv))
            self.setvar(env, tg.id, INT, True, st)
            return
        if isinstance(tg, ast.Subscript) and isinstance(tg.value, ast.Name) and tg.value.id != 'self':
            x = tg.value.id
            if x not in env:
                self.rej(st, 'unknown variable ' + x)
            tx = env[x]['t']
            bi, ti, tyi = self.expr(tg.slice, env)
            if bi:
                self.rej(st, 'raising index expression in an augmented assignment')
            old = self.temp()
            if tx[0] == 'list':
                L.append(sp + '%s <- (py_getitem %s %s) ;;' % (old, x, ti))
                elt = tx[1]
            elif tx[0] == 'dict':
                L.append(sp + '%s <- (py_dict_get %s %s) ;;' % (old, x, ti))
                elt = tx[2]
            elif tx == UNK and not self.tr.strict:
                return
            else:
                self.rej(st, 'augmented item assignment on a value of type %s' % (tx,))
            if elt not in (INT, UNK):
                self.rej(st, 'augmented item assignment on elements of type %s' % (elt,))
            L += self.emit_binds(bv, ind)
            self.store_sub(x, tx, ti, tyi, '(%s %s %s)' % (old, op, tv), INT, env, st, L, ind)
            return
        self.rej(st, 'augmented assignment target %s' % ast.unparse(tg))

    def expr_stmt(self, st, env, L, cont, ind):
        sp = ' ' * ind
        c = st.value
        if isinstance(c, ast.Constant) and isinstance(c.value, str):
            return cont()
        if not isinstance(c, ast.Call):
            self.rej(st, 'expression statement %s' % type(c).__name__)
        if isinstance(c.func, ast.Name) and c.func.id == 'print':
            L.append(sp + '(* dropped: %s *)' % ast.unparse(st).replace('(*', '( *').replace('*)', '* )'))
            return cont()
        if isinstance(c.func, ast.Attribute) and c.func.attr in ('append', 'extend', 'add', 'remove') and \
                not (isinstance(c.func.value, ast.Name) and c.func.value.id == 'self'):
            if len(c.args) != 1 or c.keywords:
                self.rej(st, 'arguments of .%s' % c.func.attr)
            m = c.func.attr
            recv = c.func.value
            ba, ta, tya = self.expr(c.args[0], env, consume=(m == 'extend'))
            L += self.emit_binds(ba, ind)
            if m != 'extend':
                self.check_store(c.args[0], tya, st)
            if isinstance(recv, ast.Name):
                x = recv.id
                if x not in env:
                    self.rej(st, 'unknown variable ' + x)
                if not env[x]['owned']:
                    self.rej(st, 'mutation of %s, which may be shared with the caller or another object (aliasing)' % x)
                cur, tx = x, env[x]['t']
            elif isinstance(recv, ast.Attribute) and isinstance(recv.value, ast.Name) and recv.value.id == 'self':
                bb, cur, tx = self.expr(recv, env)
                L += self.emit_binds(bb, ind)
            else:
                self.rej(st, 'receiver of .%s' % m)
            if tx[0] == 'list' and m == 'append':
                nt = ('list', join(tx[1], tya, st))
                new = '(%s ++ [%s])' % (cur, ta)
            elif tx[0] == 'list' and m == 'extend':
                if tya[0] not in ('list', 'tuple', 'iter', 'set') and tya != UNK:
                    self.rej(st, 'extend with a value of type %s' % (tya,))
                nt = ('list', join(tx[1], tya[1] if tya != UNK else UNK, st))
                new = '(%s ++ %s)' % (cur, ta)
            elif tx[0] == 'set' and m == 'add':
                if not (is_tupi(tya) and tya[0] == 'tuple') and tya != UNK:
                    self.rej(st, 'set element of type %s (only tuples of ints)' % (tya,))
                nt = ('set', TUPI)
                new = '(py_set_add %s %s)' % (ta, cur)
            elif tx[0] == 'set' and m == 'remove':
                if not (is_tupi(tya) and tya[0] == 'tuple') and tya != UNK:
                    self.rej(st, 'set element of type %s (only tuples of ints)' % (tya,))
                nt = tx
                tmp = self.temp()
                L.append(sp + '%s <- (py_set_remove %s %s) ;;' % (tmp, ta, cur))
                new = tmp
            elif tx == UNK and not self.tr.strict:
                return cont()
            else:
                self.rej(st, '.%s on a value of type %s' % (m, tx))
            if isinstance(recv, ast.Name):
                env[recv.id] = dict(env[recv.id], t=nt)
                L.append(sp + 'let %s := %s in' % (recv.id, new))
            else:
                self.tr.note_field(recv.attr, nt, st)
                if recv.attr not in self.tr.init_fields:
                    new = '(Some %s)' % new
                L.append(sp + 'let self := set_f_%s self %s in' % (recv.attr, new))
            return cont()
        # any other call: evaluated for its effect on the object state
        binds, term, t = self.expr(c, env)
        if not binds:
            self.rej(st, 'call statement without effect: %s' % ast.unparse(c))
        L += self.emit_binds(binds, ind)
        return cont()

    # ------------------------------------------------------------------------------------------ iteration
    def iterable(self, it, target, env):
        """-> binds, list term, element type, lambda binder, [(name, type)], range-with-nonnegative-start?"""
        nonneg = False
        if isinstance(it, ast.Call) and isinstance(it.func, ast.Attribute) and it.func.attr == 'items' and not it.args:
            b, term, t = self.expr(it.func.value, env)
            if t[0] != 'dict' and t != UNK:
                self.rej(it, '.items() on a value of type %s' % (t,))
            if not (isinstance(target, ast.Tuple) and len(target.elts) == 2 and
                    all(isinstance(e, ast.Name) for e in target.elts)):
                self.rej(target, 'loop target over .items() must be `key, value`')
            k, v = target.elts[0].id, target.elts[1].id
            ident(k, target); ident(v, target)
            kt, vt = (t[1], t[2]) if t != UNK else (UNK, UNK)
            return b, term, ('pair', kt, vt), "'(%s, %s)" % (k, v), [(k, kt), (v, vt)], False
        if not isinstance(target, ast.Name):
            self.rej(target, 'loop target %s' % type(target).__name__)
        ident(target.id, target)
        if isinstance(it, ast.Call) and isinstance(it.func, ast.Name) and it.func.id == 'range':
            nonneg = len(it.args) == 1 or (len(it.args) == 2 and isinstance(it.args[0], ast.Constant) and
                                           type(it.args[0].value) is int and it.args[0].value >= 0)
        b, term, t = self.expr(it, env, consume=True)
        if t == UNK:
            return b, term, UNK, target.id, [(target.id, UNK)], nonneg
        if t[0] not in ('list', 'tuple', 'set', 'iter', 'nparr'):
            self.rej(it, 'iteration over a value of type %s' % (t,))
        elt = INT if t[0] == 'nparr' else t[1]
        return b, term, elt, target.id, [(target.id, elt)], nonneg

    # ------------------------------------------------------------------------------------------ expressions
    def expr(self, e, env, consume=False):
        """-> (binds [(pattern, option-term)], pure term, type).  consume: an iterator may be used (once) here."""
        binds, term, t = self.expr0(e, env)
        if t[0] == 'iter' and not consume:
            self.rej(e, 'iterator used in a position where it is not consumed exactly once')
        return binds, term, t

    def need(self, cond, node, what):
        if not cond:
            self.rej(node, what)

    def expr0(self, e, env):
        S = self.tr.strict
        if isinstance(e, ast.Constant):
            if type(e.value) is bool:
                return [], 'true' if e.value else 'false', BOOL
            if type(e.value) is int:
                return [], '(%d)' % e.value if e.value < 0 else '%d' % e.value, INT
            self.rej(e, 'constant %r' % (e.value,))
        if isinstance(e, ast.Name):
            if e.id not in env:
                self.rej(e, 'variable %s is not defined on every path to this use (or is a global)' % e.id)
            t = env[e.id]['t']
            if t[0] == 'iter':
                if e.id in self.used_iters or env[e.id]['depth'] != self.loop_depth:
                    self.rej(e, 'iterator %s may be consumed more than once' % e.id)
                self.used_iters.add(e.id)
            return [], e.id, t
        if isinstance(e, ast.Attribute):
            if isinstance(e.value, ast.Name) and e.value.id == 'self':
                self.need('self' in env, e, 'self outside a method')
                t = self.tr.field_type(e.attr, e)
                if e.attr in self.tr.init_fields:
                    return [], '(f_%s self)' % e.attr, t
                tmp = self.temp()
                return [(tmp, 'f_%s self' % e.attr)], tmp, t
            b, term, t = self.expr(e.value, env)
            if t == GRID and e.attr == 'levelvector':
                return b, '(fst %s)' % term, TUPI
            if t == GRID and e.attr == 'coefficient':
                return b, '(snd %s)' % term, FLOAT
            self.rej(e, 'attribute .%s' % e.attr)
        if isinstance(e, ast.UnaryOp):
            b, term, t = self.expr(e.operand, env)
            if isinstance(e.op, ast.USub):
                self.need(t in (INT, UNK), e, 'unary minus on %s' % (t,))
                return b, '(- %s)' % term, INT
            if isinstance(e.op, ast.Not):
                self.need(t in (BOOL, UNK), e, '`not` on a non-boolean value (truthiness is not translated)')
                return b, '(negb %s)' % term, BOOL
            self.rej(e, 'unary operator %s' % type(e.op).__name__)
        if isinstance(e, ast.BoolOp):
            isand = isinstance(e.op, ast.And)
            parts = [self.expr(v, env) for v in e.values]
            for p in parts:
                self.need(p[2] in (BOOL, UNK), e, 'and/or on non-boolean values (truthiness is not translated)')
            # right to left: a op (b op c)
            binds, term, _ = parts[-1]
            for p in reversed(parts[:-1]):
                if not binds:
                    binds, term = p[0], '(%s %s %s)' % (p[1], '&&' if isand else '||', term)
                else:
                    for pt, _e in binds:
                        if 'self' in pt:
                            self.rej(e, 'method call in the right operand of and/or')
                    tmp = self.temp()
                    inner = '(' + self.opt_chain(binds, 'Some %s' % term) + ')'
                    if isand:
                        ite = 'if %s then %s else Some false' % (p[1], inner)
                    else:
                        ite = 'if %s then Some true else %s' % (p[1], inner)
                    binds, term = p[0] + [(tmp, ite)], tmp
            return binds, term, BOOL
        if isinstance(e, ast.Compare):
            self.need(len(e.ops) == 1, e, 'chained comparison')
            op = e.ops[0]
            bl, tl, tyl = self.expr(e.left, env)
            br, tr_, tyr = self.expr(e.comparators[0], env)
            if isinstance(op, (ast.In, ast.NotIn)):
                if tyr[0] == 'set':
                    self.need((is_tupi(tyl) and tyl[0] == 'tuple') or tyl == UNK, e,
                              'membership of a value of type %s in a set (only tuples of ints)' % (tyl,))
                    term = '(py_set_mem %s %s)' % (tl, tr_)
                elif tyr[0] == 'dict':
                    self.need((is_tupi(tyl) and tyl[0] == 'tuple') or tyl == UNK, e, 'dict key of type %s' % (tyl,))
                    term = '(py_dict_mem %s %s)' % (tl, tr_)
                elif tyr == UNK and not S:
                    term = '?'
                else:
                    self.rej(e, '`in` on a value of type %s' % (tyr,))
                if isinstance(op, ast.NotIn):
                    term = '(negb %s)' % term
                return bl + br, term, BOOL
            ops = {ast.Lt: '<?', ast.LtE: '<=?', ast.Gt: '>?', ast.GtE: '>=?', ast.Eq: '=?'}
            if type(op) in ops or isinstance(op, ast.NotEq):
                self.need(tyl in (INT, UNK) and tyr in (INT, UNK), e, 'comparison of %s and %s (only ints)' % (tyl, tyr))
                if isinstance(op, ast.NotEq):
                    return bl + br, '(negb (%s =? %s))' % (tl, tr_), BOOL
                return bl + br, '(%s %s %s)' % (tl, ops[type(op)], tr_), BOOL
            self.rej(e, 'comparison operator %s' % type(op).__name__)
        if isinstance(e, ast.BinOp):
            return self.binop(e, env)
        if isinstance(e, ast.List):
            parts = [self.expr(x, env) for x in e.elts]
            t = UNK
            for x, p in zip(e.elts, parts):
                self.check_store(x, p[2], e)
                t = join(t, p[2], e)
            return sum((p[0] for p in parts), []), '[' + '; '.join(p[1] for p in parts) + ']', ('list', t)
        if isinstance(e, ast.Dict):
            self.need(not e.keys, e, 'non-empty dict literal')
            return [], '[]', ('dict', TUPI, UNK)
        if isinstance(e, ast.ListComp):
            self.need(len(e.generators) == 1, e, 'nested comprehension generators')
            g = e.generators[0]
            self.need(not g.ifs and not g.is_async, e, 'comprehension condition')
            b, it, elt, tpat, tnames, nonneg = self.iterable(g.iter, g.target, env)
            cenv = dict(env)
            for n, t in tnames:
                cenv[n] = dict(t=t, owned=False, depth=self.loop_depth)
            be, te, tye = self.expr(e.elt, cenv)
            self.check_store(e.elt, tye, e)
            if not be:
                return b, '(map (fun %s => %s) %s)' % (tpat, te, it), ('list', tye)
            for pt, _e in be:
                if 'self' in pt:
                    self.rej(e, 'method call inside a comprehension')
            tmp = self.temp()
            return b + [(tmp, 'py_mapM (fun %s => %s) %s' % (tpat, self.opt_chain(be, 'Some %s' % te), it))], tmp, \
                ('list', tye)
        if isinstance(e, ast.Subscript):
            self.need(not isinstance(e.slice, ast.Slice), e, 'slice')
            bv, tv, tyv = self.expr(e.value, env)
            bi, ti, tyi = self.expr(e.slice, env)
            tmp = self.temp()
            if tyv[0] in ('list', 'tuple', 'nparr'):
                self.need(tyi in (INT, UNK), e, 'index of type %s' % (tyi,))
                return bv + bi + [(tmp, 'py_getitem %s %s' % (tv, ti))], tmp, INT if tyv[0] == 'nparr' else tyv[1]
            if tyv[0] == 'dict':
                self.need(is_tupi(tyi) or tyi == UNK, e, 'dict key of type %s' % (tyi,))
                return bv + bi + [(tmp, 'py_dict_get %s %s' % (tv, ti))], tmp, tyv[2]
            if tyv == UNK and not S:
                return bv + bi, '?', UNK
            self.rej(e, 'subscript on a value of type %s' % (tyv,))
        if isinstance(e, ast.Call):
            return self.call(e, env)
        self.rej(e, 'expression %s' % type(e).__name__)

    def binop(self, e, env):
        S = self.tr.strict
        bl, tl, tyl = self.expr(e.left, env)
        br, tr_, tyr = self.expr(e.right, env)
        b = bl + br
        op = e.op
        if UNK in (tyl, tyr) and not S:
            return b, '?', UNK
        if tyl == INT and tyr == INT:
            if isinstance(op, (ast.Add, ast.Sub, ast.Mult)):
                return b, '(%s %s %s)' % (tl, {ast.Add: '+', ast.Sub: '-', ast.Mult: '*'}[type(op)], tr_), INT
            if isinstance(op, (ast.Mod, ast.FloorDiv)):
                c = e.right
                self.need(isinstance(c, ast.Constant) and type(c.value) is int and c.value > 0, e,
                          '% or // with a divisor that is not a positive literal')
                return b, '(%s %s %s)' % (tl, 'mod' if isinstance(op, ast.Mod) else '/', tr_), INT
            if isinstance(op, ast.Pow):
                x = e.right
                ok = (isinstance(x, ast.Constant) and type(x.value) is int and x.value >= 0) or \
                     (isinstance(x, ast.Name) and x.id in self.range_vars)
                self.need(ok, e, '** with an exponent that is not visibly non-negative (literal or range() loop variable)')
                return b, '(py_pow %s %s)' % (tl, tr_), INT
            if isinstance(op, ast.Div):
                tmp = self.temp()
                return b + [(tmp, 'py_truediv %s %s' % (tl, tr_))], tmp, FLOAT
        if tyl[0] == 'list' and tyr[0] == 'list' and isinstance(op, ast.Add):
            return b, '(%s ++ %s)' % (tl, tr_), ('list', join(tyl[1], tyr[1], e))
        if tyl[0] == 'set' and tyr[0] == 'set' and isinstance(op, ast.BitOr):
            return b, '(py_set_union %s %s)' % (tl, tr_), ('set', join(tyl[1], tyr[1], e))
        if tyl == NPARR and tyr == NPARR and isinstance(op, ast.Add):
            tmp = self.temp()
            return b + [(tmp, 'np_add %s %s' % (tl, tr_))], tmp, NPARR
        if tyl == NPARR and tyr == INT and isinstance(op, ast.Mult):
            return b, '(np_scale %s %s)' % (tl, tr_), NPARR
        self.rej(e, 'operator %s on %s and %s' % (type(op).__name__, tyl, tyr))

    def plain_args(self, c, n=None):
        self.need(not c.keywords and not any(isinstance(a, ast.Starred) for a in c.args), c,
                  'keyword / star arguments in call of %s' % ast.unparse(c.func))
        if n is not None:
            self.need(len(c.args) == n, c, 'call of %s with %d arguments' % (ast.unparse(c.func), len(c.args)))

    def dtype_int(self, c):
        self.need(len(c.keywords) == 1 and c.keywords[0].arg == 'dtype' and isinstance(c.keywords[0].value, ast.Name)
                  and c.keywords[0].value.id == 'int' and len(c.args) == 1, c, 'numpy call other than f(x, dtype=int)')

    def call(self, c, env):
        S = self.tr.strict
        fn = c.func
        if isinstance(fn, ast.Name):
            n = fn.id
            self.need(n not in env, c, 'call of a local variable')
            if n in ('tuple', 'list'):
                self.plain_args(c, 1)
                b, term, t = self.expr(c.args[0], env, consume=True)
                if t == UNK and not S:
                    return b, term, UNK
                self.need(t[0] in ('list', 'tuple', 'iter', 'nparr'), c, '%s() of a value of type %s' % (n, t))
                return b, term, (n, INT if t == NPARR else t[1])
            if n == 'set':
                self.plain_args(c)
                if not c.args:
                    return [], '[]', ('set', TUPI)
                self.need(len(c.args) == 1, c, 'set() with several arguments')
                b, term, t = self.expr(c.args[0], env, consume=True)
                if t == UNK and not S:
                    return b, '?', ('set', TUPI)
                self.need(t[0] in ('list', 'iter') and (t[1] == UNK or (is_tupi(t[1]) and t[1][0] == 'tuple')), c,
                          'set() of a value of type %s (only lists of int tuples)' % (t,))
                return b, '(py_set_of_list %s)' % term, ('set', TUPI)
            if n == 'range':
                self.plain_args(c)
                self.need(len(c.args) in (1, 2), c, 'range with %d arguments' % len(c.args))
                parts = [self.expr(a, env) for a in c.args]
                for p in parts:
                    self.need(p[2] in (INT, UNK), c, 'range over %s' % (p[2],))
                b = sum((p[0] for p in parts), [])
                if len(parts) == 1:
                    return b, '(py_range %s)' % parts[0][1], ('tuple', INT)
                return b, '(py_range2 %s %s)' % (parts[0][1], parts[1][1]), ('tuple', INT)
            if n in ('len', 'abs', 'sum'):
                self.plain_args(c, 1)
                b, term, t = self.expr(c.args[0], env, consume=(n == 'sum'))
                if n == 'len':
                    self.need(t[0] in ('list', 'tuple', 'set', 'dict', 'nparr') or t == UNK, c, 'len of %s' % (t,))
                    return b, '(py_len %s)' % term, INT
                if n == 'abs':
                    self.need(t in (INT, UNK), c, 'abs of %s' % (t,))
                    return b, '(Z.abs %s)' % term, INT
                self.need(t == UNK or (t[0] in ('list', 'tuple', 'iter') and t[1] in (INT, UNK)), c, 'sum of %s' % (t,))
                return b, '(py_sum %s)' % term, INT
            if n in ('min', 'max'):
                self.plain_args(c, 2)
                p = [self.expr(a, env) for a in c.args]
                self.need(all(x[2] in (INT, UNK) for x in p), c, '%s of non-int values' % n)
                return p[0][0] + p[1][0], '(Z.%s %s %s)' % (n, p[0][1], p[1][1]), INT
            if n == 'map':
                self.plain_args(c, 3)
                lam = c.args[0]
                self.need(isinstance(lam, ast.Lambda) and len(lam.args.args) == 2 and not lam.args.defaults
                          and not lam.args.vararg and not lam.args.kwarg, c, 'map with anything but a two-argument lambda')
                pa = [self.expr(a, env, consume=True) for a in c.args[1:]]
                lenv = dict(env)
                names = []
                for a, p in zip(lam.args.args, pa):
                    self.need(p[2] == UNK or p[2][0] in ('list', 'tuple', 'iter'), c, 'map over %s' % (p[2],))
                    lenv[ident(a.arg, c)] = dict(t=p[2][1] if p[2] != UNK else UNK, owned=False, depth=self.loop_depth)
                    names.append(a.arg)
                bb, tb, tyb = self.expr(lam.body, lenv)
                self.need(not bb, c, 'raising expression inside a lambda')
                return pa[0][0] + pa[1][0], '(py_map2 (fun %s %s => %s) %s %s)' % (names[0], names[1], tb, pa[0][1], pa[1][1]), \
                    ('iter', tyb)
            if n == 'product':
                self.need(self.f.file == UTILS_FILE, c, 'product() outside Utils.py')
                self.need(len(c.args) == 1 and isinstance(c.args[0], ast.Starred) and not c.keywords, c,
                          'product called with anything but one starred argument')
                b, term, t = self.expr(c.args[0].value, env)
                self.need(t == UNK or (t[0] in ('list', 'tuple') and t[1][0] in ('list', 'tuple')), c, 'product(*%s)' % (t,))
                return b, '(py_product %s)' % term, ('iter', ('tuple', t[1][1]))
            if n == 'ComponentGridInfo':
                self.need(not c.args and sorted(k.arg for k in c.keywords) == ['coefficient', 'levelvector'], c,
                          'ComponentGridInfo(...) without exactly the keywords levelvector=, coefficient=')
                kw = {k.arg: k.value for k in c.keywords}
                bl, tl, tyl = self.expr(kw['levelvector'], env)
                bc, tc, tyc = self.expr(kw['coefficient'], env)
                self.check_store(kw['levelvector'], tyl, c)
                self.need(tyl == UNK or tyl == NPARR or is_tupi(tyl), c, 'levelvector of type %s' % (tyl,))
                self.need(tyc in (INT, FLOAT, UNK), c, 'coefficient of type %s' % (tyc,))
                if tyc == INT:
                    tc = '(py_Z2Qc %s)' % tc
                # keyword arguments are evaluated in source order
                first = c.keywords[0].arg
                b = bl + bc if first == 'levelvector' else bc + bl
                return b, '(%s, %s)' % (tl, tc), GRID
            if n in self.tr.fns and self.tr.fns[n].kind == 'func':
                return self.call_translated(self.tr.fns[n], c, env, None)
            self.rej(c, 'call of %s' % n)
        if isinstance(fn, ast.Attribute) and isinstance(fn.value, ast.Name):
            base, m = fn.value.id, fn.attr
            if base == 'math' and m == 'factorial' and 'math' not in env:
                self.plain_args(c, 1)
                b, term, t = self.expr(c.args[0], env)
                self.need(t in (INT, UNK), c, 'factorial of %s' % (t,))
                tmp = self.temp()
                return b + [(tmp, 'py_factorial %s' % term)], tmp, INT
            if base == 'np' and m == 'array' and 'np' not in env:
                self.dtype_int(c)
                b, term, t = self.expr(c.args[0], env)
                self.need(t == UNK or is_tupi(t), c, 'np.array of %s' % (t,))
                return b, term, NPARR
            if base == 'np' and m == 'ones' and 'np' not in env:
                self.dtype_int(c)
                b, term, t = self.expr(c.args[0], env)
                self.need(t in (INT, UNK), c, 'np.ones of %s' % (t,))
                tmp = self.temp()
                return b + [(tmp, 'np_ones %s' % term)], tmp, NPARR
            if base == CLASS_NAME and base not in env:
                q = CLASS_NAME + '.' + m
                self.need(q in self.tr.fns and self.tr.fns[q].kind == 'static', c, 'call of %s.%s' % (base, m))
                return self.call_translated(self.tr.fns[q], c, env, None)
            if base == 'self':
                q = CLASS_NAME + '.' + m
                self.need(q in self.tr.fns and self.tr.fns[q].kind in ('method', 'static'), c, 'call of self.%s' % m)
                return self.call_translated(self.tr.fns[q], c, env, 'self')
        self.rej(c, 'call of %s' % ast.unparse(fn))

    def call_translated(self, g, c, env, recv):
        self.need(not any(isinstance(a, ast.Starred) for a in c.args), c, 'star arguments')
        self.need(len(c.args) <= len(g.params), c, 'too many arguments for %s' % g.qual)
        self.need(not g.returns_alias, c, 'call of %s, which returns one of its mutable attributes/arguments (aliasing)' % g.qual)
        given = {}
        for (n, t, d), a in zip(g.params, c.args):
            given[n] = a
        for k in c.keywords:
            self.need(k.arg is not None and k.arg in [p[0] for p in g.params] and k.arg not in given, c,
                      'keyword argument %s of %s' % (k.arg, g.qual))
            given[k.arg] = k.value
        # evaluation order = source order (positional, then keywords as written)
        order = list(c.args) + [k.value for k in c.keywords]
        trans = {}
        binds = []
        for a in order:
            b, term, t = self.expr(a, env)
            binds += b
            trans[id(a)] = (term, t)
            if is_mutable(t) and isinstance(a, ast.Attribute) and g.kind == 'method':
                self.rej(c, 'passing the mutable attribute %s to a method (aliasing)' % ast.unparse(a))
        terms = []
        for (n, t, d) in g.params:
            if n in given:
                term, ta = trans[id(given[n])]
                if not (ta == UNK and not self.tr.strict) and not same_repr(ta, t):
                    self.rej(c, 'argument %s of %s has type %s, expected %s' % (n, g.qual, ta, t))
                terms.append(term)
            else:
                self.need(d is not None, c, 'missing argument %s of %s' % (n, g.qual))
                terms.append(d)
        tmp = self.temp()
        name = g.gname
        if g.qual == self.f.qual:
            name = g.gname + '_rec fuel'
        if g.kind == 'method':
            self.need('self' in env, c, 'method call outside a method')
            binds.append(("'(%s, self)" % tmp, '%s self %s' % (name, ' '.join(terms))))
        else:
            binds.append((tmp, ('%s %s' % (name, ' '.join(terms))).strip()))
        rt = g.ret
        if rt == NONE:
            return binds, 'tt', NONE
        return binds, tmp, rt


HEADER = '''(* GENERATED by harness/translate/py2gallina.py -- DO NOT EDIT.  Regenerated from the Python source at every
   ./setup.sh and ./check C01 run; the translation scheme is documented in the translator, the meaning of the py_*
   operations in Base/PyLib.v.
   sources: %s *)
From Coq Require Import ZArith List Bool QArith Qcanon.
From SG Require Import Base.PyLib.
Import ListNotations.
Open Scope Z_scope.
Open Scope py_scope.
'''


def render(tr, fns):
    fl = tr.field_order
    out = [HEADER % ', '.join([UTILS_FILE, CLASS_FILE, GRID_FILE])]
    out.append('(* object state of class %s; attributes not set by __init__ are optional *)' % CLASS_NAME)
    rec = []
    for a in fl:
        t = gt(tr.fields[a])
        if a not in tr.init_fields:
            t = 'option ' + t
        rec.append('  f_%s : %s' % (a, t))
    out.append('Record CombiScheme_t : Type := mk_CombiScheme_t {\n' + ';\n'.join(rec) + '\n}.')
    for a in fl:
        args = ' '.join('v' if b == a else '(f_%s o)' % b for b in fl)
        out.append('Definition set_f_%s (o : CombiScheme_t) v : CombiScheme_t := mk_CombiScheme_t %s.' % (a, args))
    out.append('')
    for q, text in fns:
        out.append(text)
    return '\n'.join(out)


def main(argv):
    repo = os.environ.get('VERIF_REPO', '/repo')
    outp = os.path.join(VERIF, 'coq', 'Gen', 'CombiSchemeGen.v')
    to_stdout = False
    i = 0
    while i < len(argv):
        if argv[i] == '--repo':
            repo = argv[i + 1]; i += 2
        elif argv[i] == '--out':
            outp = argv[i + 1]; i += 2
        elif argv[i] == '--stdout':
            to_stdout = True; i += 1
        else:
            sys.stderr.write(__doc__)
            return 2
    tr = Translator(repo)
    rc = 0
    try:
        fns = tr.translate()
        text = render(tr, fns)
    except Reject as r:
        msg = 'py2gallina: REJECT %s:%d: %s' % (tr.curfile, r.line, r.what)
        sys.stderr.write(msg + '\n')
        text = ('(* GENERATED by harness/translate/py2gallina.py -- the translator REJECTED the source:\n   %s\n'
                '   The definition below is ill-typed on purpose: nothing that depends on the generated model may build. *)\n'
                'Definition translator_rejected_the_source : False := I.\n') % msg.replace('*)', '* )').replace('(*', '( *')
        rc = 1
    except (OSError, SyntaxError) as r:
        msg = 'py2gallina: REJECT cannot read/parse the source: %s' % (r,)
        sys.stderr.write(msg + '\n')
        text = ('(* GENERATED by harness/translate/py2gallina.py -- %s *)\n'
                'Definition translator_rejected_the_source : False := I.\n') % msg.replace('*)', '* )').replace('(*', '( *')
        rc = 1
    if to_stdout:
        sys.stdout.write(text)
        return rc
    old = open(outp).read() if os.path.exists(outp) else None
    if old != text:
        os.makedirs(os.path.dirname(outp), exist_ok=True)
        tmp = outp + '.tmp%d' % os.getpid()
        open(tmp, 'w').write(text)
        os.replace(tmp, outp)
    return rc


if __name__ == '__main__':
    sys.exit(main(sys.argv[1:]))
