#!/usr/bin/env python3
"""Source-derived model for property C16: the matrix-entry code and the scalar hat functions of
sparseSpACE/GridOperation.py (class DensityEstimation) -> coq/Gen/DensityGen.v.

A thin front end of the shared translator harness/translate/py2gallina.py (imported, NOT modified; nothing of the existing
targets is touched).  What this front end adds, all fail-closed (anything else in the methods is rejected as before):
  * target `density` (param mode, see NUM_DOC of the translator): DensityEstimation.calculate_R_value_analytically,
    .hat_function_non_symmetric, .hat_function, .check_adjacency; attributes read through self become parameters:
    self.dim : int, self.grid.modified_basis : bool (a two-step attribute path, accepted only in this exact form and turned into
    the parameter self_grid_modified_basis);
  * DECLARED PARAMETER TYPES for the unannotated/abstractly annotated parameters: Sequence[int] stays a list of ints;
  * AST NORMALISATIONS applied to the method bodies BEFORE the shared translator sees them (each is a semantics-preserving
    rewriting of Python, part of the trusted translation scheme; each applies only to the exact shape described, everything else
    is left alone and then accepted or rejected by the shared translator):
      N1  `name = lambda a1, .., ak: E`  (plain positional parameters, no defaults; the name is only ever CALLED with k positional
          arguments that are names, constants or subscripts/attributes of names - no calls, so evaluating an argument twice or not at
          all has no effect besides the same possible IndexError) : the definition is removed and every call `name(x1..xk)` is
          replaced by E[ai := xi].  Python evaluates the arguments before the body; the substituted arguments are pure, so the
          value is the same; an argument that is never used in E is not evaluated any more (it cannot raise: names/constants only
          are allowed in unused positions).
      N2  `if C: S1 else: S2` where S1 and S2 are sequences of simple assignments `v = e` to the SAME set of names, C is pure (see N1),
          no right-hand side reads a name assigned in the same branch: replaced by one assignment `v = (e1 if C else e2)` per name
          (conditional expressions are lazy, so only the chosen right-hand side is evaluated, as in the if statement); for
          lambda-valued names the pair (lambda1 if C else lambda2) is expanded at the calls like N1:
          `f(x..)` -> `(E1[x..] if C else E2[x..])`.
      N3  `if not all((G for d in range(..))): BODY`  ->  `for d in range(..): if not (G): BODY`  (BODY must end in return;
          all() stops at the first false element, so does the loop);
      N5  (take_closest only) `if C: v = e else: v = [names]` for names v not assigned before, C not reading them -> `v = [names]` in front,
          then `if C: v = e` (the hoisted right-hand sides are displays of names: nothing can raise);
      N4  a chained comparison `a <= b <= c` whose middle operand is pure -> `a <= b and b <= c`.
    The rewritten bodies are printed into the generated file as a comment (ast.unparse), so the reader sees what was translated.
Usage: py2gallina_c16.py [--repo DIR] [--out FILE] [--stdout]      (VERIF_REPO is respected like in the shared translator)"""
import ast
import copy
import os
import sys

sys.path.insert(0, os.path.dirname(os.path.abspath(__file__)))
import py2gallina as P          # noqa: E402

TARGET = 'density'
N5_METHODS = {'take_closest'}
ATTRS = {'dim': P.INT, 'grid_modified_basis': P.BOOL, 'debug': P.BOOL}
METHODS = ['calculate_R_value_analytically', 'hat_function_non_symmetric', 'hat_function', 'check_adjacency', 'get_hat_domain',
           'take_closest']
P.NUM_TARGETS[TARGET] = dict(
    file='sparseSpACE/GridOperation.py', out='DensityGen.v', prop='C16',
    classes=[dict(name='MachineLearning', mode='param', methods=[], attrs=ATTRS),
             dict(name='DensityEstimation', mode='param', methods=METHODS, attrs=ATTRS)],
    fuel={})


# ------------------------------------------------------------------------------------------------ normalisation
def pure(e, allow_sub=True):
    """names, constants, subscripts / attributes of pure expressions: no calls, no operators"""
    if isinstance(e, (ast.Name, ast.Constant)):
        return True
    if allow_sub and isinstance(e, ast.Subscript) and not isinstance(e.slice, ast.Slice):
        return pure(e.value) and pure(e.slice)
    if allow_sub and isinstance(e, ast.Attribute):
        return pure(e.value)
    return False


def pure_cond(e):
    """comparison / boolean combination of pure operands"""
    if isinstance(e, ast.Compare):
        return pure(e.left) and all(pure(c) for c in e.comparators)
    if isinstance(e, ast.BoolOp):
        return all(pure_cond(v) for v in e.values)
    if isinstance(e, ast.UnaryOp) and isinstance(e.op, ast.Not):
        return pure_cond(e.operand)
    return False


class Subst(ast.NodeTransformer):
    def __init__(self, m):
        self.m = m

    def visit_Name(self, n):
        if isinstance(n.ctx, ast.Load) and n.id in self.m:
            return copy.deepcopy(self.m[n.id])
        return n

    def visit_Lambda(self, n):
        raise P.Reject(n, 'nested lambda')


def names_loaded(e):
    return {n.id for n in ast.walk(e) if isinstance(n, ast.Name) and isinstance(n.ctx, ast.Load)}


def lam_ok(l):
    a = l.args
    return isinstance(l, ast.Lambda) and not (a.vararg or a.kwarg or a.kwonlyargs or a.posonlyargs or a.defaults or a.kw_defaults)


class Normaliser:
    def __init__(self, fn):
        self.fn = fn
        self.lams = {}        # name -> ('one', lambda) | ('sel', cond, lambda1, lambda2)
        self.assigned_before = {a.arg for a in fn.args.args}
        self.applied = []

    def rej(self, node, msg):
        raise P.Reject(node, msg)

    # N1/N2 expansion of the calls
    def expand_calls(self, node):
        norm = self

        class T(ast.NodeTransformer):
            def visit_Call(self, c):
                c = self.generic_visit(c)
                if isinstance(c.func, ast.Name) and c.func.id in norm.lams:
                    ent = norm.lams[c.func.id]
                    if c.keywords:
                        norm.rej(c, 'keyword arguments in a call of the local lambda %s' % c.func.id)

                    def inst(l):
                        ps = [a.arg for a in l.args.args]
                        if len(ps) != len(c.args):
                            norm.rej(c, 'call of the local lambda %s with %d arguments' % (c.func.id, len(c.args)))
                        used = names_loaded(l.body)
                        for p_, x in zip(ps, c.args):
                            if not pure(x, allow_sub=(p_ in used)):
                                norm.rej(c, 'argument of the local lambda %s is not a pure expression' % c.func.id)
                        free = used - set(ps)
                        if free:
                            norm.rej(l, 'lambda with free variables %s' % sorted(free))
                        return Subst(dict(zip(ps, c.args))).visit(copy.deepcopy(l.body))
                    if ent[0] == 'one':
                        return ast.copy_location(inst(ent[1]), c)
                    return ast.copy_location(ast.IfExp(test=copy.deepcopy(ent[1]), body=inst(ent[2]), orelse=inst(ent[3])), c)
                return c

            def visit_Name(self, n):
                if isinstance(n.ctx, ast.Load) and n.id in norm.lams:
                    # reached only when the name is used other than as the function of a call (calls are rewritten bottom-up first)
                    norm.rej(n, 'local lambda %s used other than by calling it' % n.id)
                return n

            def visit_Lambda(self, n):
                norm.rej(n, 'lambda outside the shapes N1/N2')
        # calls first (their func names are consumed), then stray names are rejected
        class Calls(T):
            def visit_Name(self, n):
                return n
        node = Calls().visit(node)
        for n in ast.walk(node):
            if isinstance(n, ast.Name) and n.id in self.lams:
                self.rej(n, 'local lambda %s used other than by calling it (or assigned twice)' % n.id)
            if isinstance(n, ast.Lambda):
                self.rej(n, 'lambda outside the shapes N1/N2')
        return node

    def lead(self, stmts):
        k = 0
        while k < len(stmts) and isinstance(stmts[k], ast.Assign) and len(stmts[k].targets) == 1 and isinstance(stmts[k].targets[0], ast.Name):
            k += 1
        return k

    def simple_assigns(self, stmts):
        out = []
        for s in stmts:
            if not (isinstance(s, ast.Assign) and len(s.targets) == 1 and isinstance(s.targets[0], ast.Name)):
                return None
            out.append((s.targets[0].id, s.value, s))
        return out

    def block(self, stmts):
        res = []
        for s in stmts:
            # comments / docstrings stay
            if isinstance(s, ast.Assign) and len(s.targets) == 1 and isinstance(s.targets[0], ast.Name) and isinstance(s.value, ast.Lambda):
                if not lam_ok(s.value):
                    self.rej(s, 'lambda with defaults / star parameters')
                if s.targets[0].id in self.lams:
                    self.rej(s, 'local lambda %s assigned twice' % s.targets[0].id)
                self.lams[s.targets[0].id] = ('one', s.value)
                self.applied.append('N1 %s (line %d)' % (s.targets[0].id, s.lineno))
                continue
            if isinstance(s, ast.If) and s.orelse:
                a1, a2 = self.simple_assigns(s.body), self.simple_assigns(s.orelse)
                if a1 is not None and a2 is not None and any(isinstance(v, ast.Lambda) for _, v, _ in a1 + a2):
                    d1, d2 = dict((n, v) for n, v, _ in a1), dict((n, v) for n, v, _ in a2)
                    if len(d1) != len(a1) or len(d2) != len(a2) or set(d1) != set(d2):
                        self.rej(s, 'N2: the two branches do not assign the same names once each')
                    if not pure_cond(s.test):
                        self.rej(s, 'N2: condition is not a pure comparison')
                    for d in (d1, d2):
                        for n, v in d.items():
                            if not isinstance(v, ast.Lambda) and names_loaded(v) & set(d):
                                self.rej(s, 'N2: a right-hand side reads a name assigned in the same branch')
                    for n, _v, _s in a1:                      # order of the first branch
                        v1, v2 = d1[n], d2[n]
                        if isinstance(v1, ast.Lambda) != isinstance(v2, ast.Lambda):
                            self.rej(s, 'N2: %s is a lambda in one branch only' % n)
                        if isinstance(v1, ast.Lambda):
                            if not (lam_ok(v1) and lam_ok(v2)) or n in self.lams:
                                self.rej(s, 'N2: lambda %s' % n)
                            self.lams[n] = ('sel', s.test, v1, v2)
                        else:
                            res.append(ast.copy_location(ast.Assign(
                                targets=[ast.Name(id=n, ctx=ast.Store())],
                                value=ast.IfExp(test=copy.deepcopy(s.test), body=self.expand_calls(v1), orelse=self.expand_calls(v2)),
                                lineno=s.lineno), s))
                    self.applied.append('N2 (line %d)' % s.lineno)
                    continue
            # N5: `if C: v.. = e.. else: v.. = pure..` with names that are not assigned before and an else branch that consists only of
            # simple assignments of list displays of NAMES (pure: nothing can raise, no side effect): the else assignments are hoisted
            # in front of the if and the else branch is dropped (C cannot read the names: they do not exist yet)
            if isinstance(s, ast.If) and s.orelse and self.fn.name in N5_METHODS:
                a1, a2 = self.simple_assigns(s.body), self.simple_assigns(s.orelse)
                if a1 and a2 and [n for n, _, _ in a1] == [n for n, _, _ in a2] \
                        and all(isinstance(v, ast.List) and all(isinstance(x, ast.Name) for x in v.elts) for _, v, _ in a2) \
                        and not any(n in self.assigned_before for n, _, _ in a1) \
                        and not (names_loaded(s.test) & {n for n, _, _ in a1}):
                    for n, v, st in a2:
                        res.append(st)
                        self.assigned_before.add(n)
                    s.orelse = []
                    self.applied.append('N5 (line %d)' % s.lineno)
            if isinstance(s, ast.Assign):
                for t in s.targets:
                    if isinstance(t, ast.Name):
                        self.assigned_before.add(t.id)
            # N3
            if isinstance(s, ast.If) and not s.orelse and isinstance(s.test, ast.UnaryOp) and isinstance(s.test.op, ast.Not) \
                    and isinstance(s.test.operand, ast.Call) and isinstance(s.test.operand.func, ast.Name) \
                    and s.test.operand.func.id == 'all' and len(s.test.operand.args) == 1 and not s.test.operand.keywords \
                    and isinstance(s.test.operand.args[0], ast.GeneratorExp):
                g = s.test.operand.args[0]
                if len(g.generators) != 1 or g.generators[0].ifs or g.generators[0].is_async \
                        or not isinstance(g.generators[0].target, ast.Name) \
                        or not (isinstance(g.generators[0].iter, ast.Call) and isinstance(g.generators[0].iter.func, ast.Name)
                                and g.generators[0].iter.func.id == 'range'):
                    self.rej(s, 'N3: generator of all() is not a single `for d in range(..)`')
                if not (s.body and isinstance(s.body[-1], ast.Return)):
                    self.rej(s, 'N3: body of `if not all(..)` does not end in return')
                inner = ast.If(test=ast.UnaryOp(op=ast.Not(), operand=g.elt), body=self.block(s.body), orelse=[])
                loop = ast.For(target=g.generators[0].target, iter=g.generators[0].iter, body=[ast.copy_location(inner, s)], orelse=[])
                res.append(ast.copy_location(loop, s))
                self.applied.append('N3 (line %d)' % s.lineno)
                continue
            # recurse into compound statements
            if isinstance(s, ast.For):
                s.body = self.block(s.body)
                if s.orelse:
                    self.rej(s, 'for .. else')
                s.iter = self.expand_calls(s.iter)
                res.append(s)
                continue
            if isinstance(s, ast.If):
                s.test = self.expand_calls(s.test)
                s.body = self.block(s.body)
                s.orelse = self.block(s.orelse)
                res.append(s)
                continue
            res.append(self.expand_calls(s))
        return res

    def run(self):
        self.fn.body = self.block(self.fn.body)

        class N4(ast.NodeTransformer):
            def visit_Compare(self, c):
                c = self.generic_visit(c)
                if len(c.ops) == 2 and pure(c.comparators[0]):
                    mid = c.comparators[0]
                    return ast.copy_location(ast.BoolOp(op=ast.And(), values=[
                        ast.Compare(left=c.left, ops=[c.ops[0]], comparators=[mid]),
                        ast.Compare(left=copy.deepcopy(mid), ops=[c.ops[1]], comparators=[c.comparators[1]])]), c)
                return c
        self.fn.body = [N4().visit(s) for s in self.fn.body]
        ast.fix_missing_locations(self.fn)
        return self.fn


class GridAttr(ast.NodeTransformer):
    """self.grid.modified_basis -> self.grid_modified_basis (the only accepted use of self.grid)"""
    def visit_Attribute(self, a):
        if isinstance(a.value, ast.Attribute) and isinstance(a.value.value, ast.Name) and a.value.value.id == 'self' \
                and a.value.attr == 'grid':
            if a.attr != 'modified_basis':
                raise P.Reject(a, 'attribute self.grid.%s' % a.attr)
            return ast.copy_location(ast.Attribute(value=ast.Name(id='self', ctx=ast.Load()), attr='grid_modified_basis', ctx=a.ctx), a)
        return self.generic_visit(a)


_BaseTr = P.NumTranslator
_BaseFn = P.NumFnTranslator
NORMALISED = {}


class C16Translator(_BaseTr):
    def signature(self, f):
        if self.tname == TARGET and f.node.name in METHODS and not getattr(f.node, '_c16_done', False):
            GridAttr().visit(f.node)
            nz = Normaliser(f.node)
            nz.run()
            f.node._c16_done = True
            NORMALISED[f.node.name] = (nz.applied, ast.unparse(f.node))
        return _BaseTr.signature(self, f)


class C16FnTranslator(_BaseFn):
    """additions of the C16 target (semantics in coq/Base/PyNumSeq.v), all fail closed:
         [x for x in L if C]            (element = the loop variable, one `if`)  -> filter / py_filterM (C may raise: first exception wins)
         max(G, default=c) / min(..)    G = (x for x in L if C) of floats, c a float/int literal -> py_fmax_default / py_fmin_default
         max(l) / min(l) on a list of floats                                   -> py_fmax / py_fmin (None = ValueError on [])
         not l   for a list l                                                  -> emptiness test"""
    def filtered(self, comp, env):
        """-> binds, term of the filtered list, element type; comp is a ListComp / GeneratorExp of the accepted shape"""
        self.need(len(comp.generators) == 1, comp, 'nested comprehension generators')
        g = comp.generators[0]
        self.need(not g.is_async and len(g.ifs) == 1, comp, 'comprehension with %d conditions' % len(g.ifs))
        self.need(isinstance(g.target, ast.Name) and isinstance(comp.elt, ast.Name) and comp.elt.id == g.target.id, comp,
                  'filtering comprehension whose element is not the loop variable')
        b, it, elt, tpat, tnames, _nn = self.iterable(g.iter, g.target, env)
        cenv = dict(env)
        for n, t in tnames:
            cenv[n] = dict(t=t, owned=False, depth=self.loop_depth)
        bc, tc, tyc = self.expr(g.ifs[0], cenv)
        if tyc == P.UNK and not self.tr.strict:
            return b, '?', elt
        self.need(tyc == P.BOOL, comp, 'comprehension condition of type %s' % (tyc,))
        if not bc:
            return b, '(filter (fun %s => %s) %s)' % (tpat, tc, it), elt
        for pt, _e in bc:
            if 'self' in pt:
                self.rej(comp, 'method call inside a comprehension condition')
        tmp = self.temp()
        return b + [(tmp, 'py_filterM (fun %s => %s) %s' % (tpat, self.opt_chain(bc, 'Some %s' % tc), it))], tmp, elt

    def expr0(self, e, env):
        if self.tr.tname == TARGET:
            if isinstance(e, ast.ListComp) and len(e.generators) == 1 and e.generators[0].ifs:
                b, term, elt = self.filtered(e, env)
                return b, term, ('list', elt)
            if isinstance(e, ast.UnaryOp) and isinstance(e.op, ast.Not):
                b, term, t = self.expr(e.operand, env)
                if t != P.UNK and t[0] == 'list':
                    return b, '(match %s with [] => true | _ :: _ => false end)' % term, P.BOOL
        return _BaseFn.expr0(self, e, env)

    def call(self, c, env):
        fn = c.func
        if self.tr.tname == TARGET and isinstance(fn, ast.Name) and fn.id == 'bisect_left' and fn.id not in env:
            binds = self.tr.module_bindings(self.tr.file, set())
            self.need(binds.get('bisect_left') == {'from:bisect:bisect_left'}, c,
                      'bisect_left is not bound exactly by `from bisect import bisect_left` (%s)' % sorted(binds.get('bisect_left', [])))
            self.plain_args(c, 2)
            b1, t1, ty1 = self.expr(c.args[0], env)
            b2, t2, ty2 = self.expr(c.args[1], env)
            if (ty1 == P.UNK or ty2 == P.UNK) and not self.tr.strict:
                return b1 + b2, '?', P.INT
            self.need(ty1 == ('list', P.FLOAT) and ty2 in (P.INT, P.FLOAT), c, 'bisect_left of %s, %s' % (ty1, ty2))
            tmp = self.temp()
            return b1 + b2 + [(tmp, 'py_bisect_left %s %s' % (t1, self.num(t2, ty2, P.FLOAT)))], tmp, P.INT
        if self.tr.tname == TARGET and isinstance(fn, ast.Name) and fn.id in ('min', 'max') and fn.id not in env and len(c.args) == 1:
            if isinstance(c.args[0], ast.GeneratorExp):
                self.need(len(c.keywords) == 1 and c.keywords[0].arg == 'default', c, '%s of a generator without default=' % fn.id)
                dv = P.lit_value(c.keywords[0].value)
                self.need(dv is not None, c, 'default= that is not a numeric literal')
                b, term, elt = self.filtered(c.args[0], env)
                if term == '?':
                    return b, '?', P.UNK
                self.need(elt == P.FLOAT, c, '%s of a generator of %s' % (fn.id, elt))
                bd, td, tyd = self.expr(c.keywords[0].value, env)
                return b, '(py_f%s_default %s %s)' % (fn.id, term, self.num(td, tyd, P.FLOAT)), P.FLOAT
            if not c.keywords:
                b, term, t = self.expr(c.args[0], env)
                if t != P.UNK and t[0] == 'list' and t[1] == P.FLOAT:
                    tmp = self.temp()
                    return b + [(tmp, 'py_f%s %s' % (fn.id, term))], tmp, P.FLOAT       # ValueError for an empty list
        return _BaseFn.call(self, c, env)


P.NumTranslator = C16Translator
P.NumFnTranslator = C16FnTranslator
_render = P.render_num


def render_c16(tr, fns):
    text = _render(tr, fns)
    if tr.tname == TARGET:
        old = 'From SG Require Import Base.QcUtil Base.PyLib Base.PyNum.'
        if old not in text:
            raise P.Reject(ast.parse('0'), 'header of the shared translator changed (front end py2gallina_c16.py must follow)')
        text = text.replace(old, old[:-1] + ' Base.PyNumSeq.', 1)
        text = text.replace('harness/translate/py2gallina.py --target density', 'harness/translate/py2gallina_c16.py', 1)
        doc = ['(* Method bodies AFTER the normalisations N1-N4 of harness/translate/py2gallina_c16.py (what the shared translator saw):']
        for m in METHODS:
            if m in NORMALISED:
                ap, src = NORMALISED[m]
                doc.append('   --- %s   [%s]' % (m, ', '.join(ap) or 'unchanged'))
                for ln in src.splitlines():
                    if ln.strip().startswith(('"""', "'''")) or ln.strip().startswith(':'):
                        continue
                    doc.append('   | ' + ln.replace('(*', '( *').replace('*)', '* )'))
        doc.append('*)')
        text = text + '\n' + '\n'.join(doc) + '\n'
    return text


P.render_num = render_c16


def main(argv):
    args = ['--target', TARGET]
    i = 0
    while i < len(argv):
        if argv[i] in ('--repo', '--out') and i + 1 < len(argv):
            args += argv[i:i + 2]; i += 2
        elif argv[i] == '--stdout':
            args.append('--stdout'); i += 1
        else:
            sys.stderr.write(__doc__)
            return 2
    return P.main(args)


if __name__ == '__main__':
    sys.exit(main(sys.argv[1:]))
