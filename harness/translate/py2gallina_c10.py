#!/usr/bin/env python3
"""Source-derived model for property C10: GlobalLagrangeGrid.get_parent (sparseSpACE/Grid.py) -> coq/Gen/LagrangeParentGen.v.

The hierarchy scan every knot list of the hierarchical Lagrange grids depends on (knots = sorted(parents[get_parent(x)] + [x])).
Self-contained fail-closed front end (Python `ast` -> Gallina), statement by statement, whitelisted node kinds only:
  def with annotated parameters float / Sequence[float] / Sequence[int] (self is not used in the body), return annotation float;
  NAME = EXPR (fresh local, single assignment);  for NAME in reversed(range(E)) | range(E) | range(E, E): BODY  (BODY may return/break,
  assigns nothing);  if C: return E  /  elif C: break  chains without else;  return E;  assert False;
  EXPR: parameter / local, int / bool constant, E + E, E - E (int), LIST[E] (IndexError -> no result), len(LIST), LIST.index(NAME)
  on a float list (ValueError -> no result);  C: E == E, E < E on ints.
Semantics: coq/Base/PyLib.v (flow, bindE, py_getitem, py_len, py_range, py_range2) and coq/Base/PyBreak.v (py_for_b = for with break,
py_list_index_Qc, py_reversed); floats are exact rationals (Qc), == on floats is exact equality, ints are Z.
Anything else -> Reject (exit 1) and a non-compiling stub is written.
Usage: py2gallina_c10.py [--repo DIR] [--out FILE] [--stdout]      (VERIF_REPO is respected)"""
import ast
import os
import sys

ROOT = os.path.dirname(os.path.dirname(os.path.dirname(os.path.abspath(__file__))))
FILE = 'sparseSpACE/Grid.py'
CLASS = 'GlobalLagrangeGrid'
METHOD = 'get_parent'
OUT = 'LagrangeParentGen.v'
INT, FLOAT, BOOL, LISTF, LISTI = 'Z', 'Qc', 'bool', 'list Qc', 'list Z'


class Reject(Exception):
    def __init__(self, node, msg):
        Exception.__init__(self, '%s:%s: %s' % (FILE, getattr(node, 'lineno', '?'), msg))


def need(c, node, msg):
    if not c:
        raise Reject(node, msg)


def ann_type(a):
    if isinstance(a, ast.Name) and a.id == 'float':
        return FLOAT
    if isinstance(a, ast.Name) and a.id == 'int':
        return INT
    if isinstance(a, ast.Subscript) and isinstance(a.value, ast.Name) and a.value.id == 'Sequence':
        s = a.slice
        if isinstance(s, ast.Name) and s.id == 'float':
            return LISTF
        if isinstance(s, ast.Name) and s.id == 'int':
            return LISTI
    raise Reject(a, 'parameter annotation outside the subset: ' + ast.dump(a))


class Fn(object):
    def __init__(self):
        self.n = 0

    def fresh(self, base):
        self.n += 1
        return '%s_%d' % (base, self.n)

    # expression -> (list of (var, optional-term) bindings to evaluate first, pure term, type)
    def expr(self, e, env):
        if isinstance(e, ast.Name):
            need(e.id in env, e, 'unknown name ' + e.id)
            return [], env[e.id][0], env[e.id][1]
        if isinstance(e, ast.Constant):
            if isinstance(e.value, bool):
                return [], 'true' if e.value else 'false', BOOL
            need(isinstance(e.value, int), e, 'constant outside the subset: %r' % (e.value,))
            return [], '(%d)' % e.value, INT
        if isinstance(e, ast.BinOp) and isinstance(e.op, (ast.Add, ast.Sub)):
            b1, t1, y1 = self.expr(e.left, env)
            b2, t2, y2 = self.expr(e.right, env)
            need(y1 == INT and y2 == INT, e, 'arithmetic on %s, %s' % (y1, y2))
            return b1 + b2, '(%s %s %s)' % (t1, '+' if isinstance(e.op, ast.Add) else '-', t2), INT
        if isinstance(e, ast.Subscript):
            need(isinstance(e.value, ast.Name) and e.value.id in env and env[e.value.id][1] in (LISTF, LISTI), e, 'subscript of a non-list')
            bi, ti, yi = self.expr(e.slice, env)
            need(yi == INT, e, 'index of type ' + yi)
            v = self.fresh('x')
            return bi + [(v, '(py_getitem %s %s)' % (env[e.value.id][0], ti))], v, FLOAT if env[e.value.id][1] == LISTF else INT
        if isinstance(e, ast.Call) and isinstance(e.func, ast.Name) and e.func.id == 'len' and e.func.id not in env:
            need(len(e.args) == 1 and not e.keywords and isinstance(e.args[0], ast.Name) and e.args[0].id in env
                 and env[e.args[0].id][1] in (LISTF, LISTI), e, 'len of a non-list')
            return [], '(py_len %s)' % env[e.args[0].id][0], INT
        if isinstance(e, ast.Call) and isinstance(e.func, ast.Attribute) and e.func.attr == 'index':
            o = e.func.value
            need(isinstance(o, ast.Name) and o.id in env and env[o.id][1] == LISTF, e, '.index on something that is not a float list')
            need(len(e.args) == 1 and not e.keywords and isinstance(e.args[0], ast.Name) and e.args[0].id in env
                 and env[e.args[0].id][1] == FLOAT, e, '.index argument outside the subset')
            v = self.fresh('x')
            return [(v, '(py_list_index_Qc %s %s)' % (env[o.id][0], env[e.args[0].id][0]))], v, INT
        raise Reject(e, 'expression outside the subset: ' + type(e).__name__)

    def cond(self, c, env):
        need(isinstance(c, ast.Compare) and len(c.ops) == 1 and isinstance(c.ops[0], (ast.Eq, ast.Lt)), c, 'condition outside the subset')
        b1, t1, y1 = self.expr(c.left, env)
        b2, t2, y2 = self.expr(c.comparators[0], env)
        need(y1 == INT and y2 == INT, c, 'comparison of %s, %s' % (y1, y2))
        return b1 + b2, '(%s %s %s)' % (t1, '=?' if isinstance(c.ops[0], ast.Eq) else '<?', t2)

    @staticmethod
    def binds(bs, inner, fail):
        for v, t in reversed(bs):
            inner = 'match %s with Some %s => %s | None => %s end' % (t, v, inner, fail)
        return inner

    # loop body: if/elif chain of return / break
    def loop_body(self, stmts, env):
        need(len(stmts) == 1 and isinstance(stmts[0], ast.If), stmts[0], 'loop body is not a single if chain')
        return self.loop_if(stmts[0], env)

    def loop_if(self, s, env):
        bs, ct = self.cond(s.test, env)
        need(len(s.body) == 1, s, 'branch with more than one statement')
        a = s.body[0]
        if isinstance(a, ast.Return):
            need(a.value is not None, a, 'bare return')
            rb, rt, ry = self.expr(a.value, env)
            need(ry == FLOAT, a, 'returned value of type ' + ry)
            then = self.binds(rb, 'SRet %s' % rt, 'SFail')
        elif isinstance(a, ast.Break):
            then = 'SBrk tt'
        else:
            raise Reject(a, 'branch statement outside the subset: ' + type(a).__name__)
        if not s.orelse:
            els = 'SNxt tt'
        else:
            need(len(s.orelse) == 1 and isinstance(s.orelse[0], ast.If), s, 'else branch outside the subset (only elif)')
            els = self.loop_if(s.orelse[0], env)
        return self.binds(bs, 'if %s then %s else %s' % (ct, then, els), 'SFail')

    def iter_list(self, it, env):
        def rng(c):
            need(isinstance(c, ast.Call) and isinstance(c.func, ast.Name) and c.func.id == 'range' and 'range' not in env
                 and not c.keywords and len(c.args) in (1, 2), c, 'iterator outside the subset')
            bs, ts = [], []
            for a in c.args:
                b, t, y = self.expr(a, env)
                need(y == INT and not b, a, 'range bound outside the subset')
                ts.append(t)
            return '(py_range %s)' % ts[0] if len(ts) == 1 else '(py_range2 %s %s)' % (ts[0], ts[1])
        if isinstance(it, ast.Call) and isinstance(it.func, ast.Name) and it.func.id == 'reversed' and 'reversed' not in env:
            need(len(it.args) == 1 and not it.keywords, it, 'reversed with other arguments')
            return '(py_reversed %s)' % rng(it.args[0])
        return rng(it)

    def block(self, stmts, env, assigned):
        if not stmts:
            return 'Fail'        # falling off the end: implicit `return None` is not a float
        s, rest = stmts[0], stmts[1:]
        if isinstance(s, ast.Assign):
            need(len(s.targets) == 1 and isinstance(s.targets[0], ast.Name), s, 'assignment target outside the subset')
            nm = s.targets[0].id
            need(nm not in env and nm not in assigned, s, 're-assignment of ' + nm)
            bs, t, y = self.expr(s.value, env)
            env2 = dict(env)
            env2[nm] = (nm, y)
            return self.binds(bs, 'let %s := %s in %s' % (nm, t, self.block(rest, env2, assigned | {nm})), 'Fail')
        if isinstance(s, ast.For):
            need(isinstance(s.target, ast.Name) and s.target.id not in env and not s.orelse, s, 'for target outside the subset')
            lst = self.iter_list(s.iter, env)
            env2 = dict(env)
            env2[s.target.id] = (s.target.id, INT)
            body = self.loop_body(s.body, env2)
            return ('bindF (py_for_b %s (fun (%s : Z) (_ : unit) => %s) tt) (fun _ => %s)'
                    % (lst, s.target.id, body, self.block(rest, env, assigned)))
        if isinstance(s, ast.Return):
            need(s.value is not None, s, 'bare return')
            bs, t, y = self.expr(s.value, env)
            need(y == FLOAT, s, 'returned value of type ' + y)
            return self.binds(bs, 'Ret %s' % t, 'Fail')
        if isinstance(s, ast.Assert):
            need(isinstance(s.test, ast.Constant) and s.test.value is False and s.msg is None, s, 'assert outside the subset (only `assert False`)')
            return 'Fail'
        raise Reject(s, 'statement outside the subset: ' + type(s).__name__)


def translate(repo):
    path = os.path.join(repo, FILE)
    src = open(path).read()
    tree = ast.parse(src)
    cls = [n for n in tree.body if isinstance(n, ast.ClassDef) and n.name == CLASS]
    need(len(cls) == 1, tree, 'class %s not found exactly once' % CLASS)
    fns = [n for n in cls[0].body if isinstance(n, ast.FunctionDef) and n.name == METHOD]
    need(len(fns) == 1, cls[0], 'method %s.%s not found exactly once' % (CLASS, METHOD))
    f = fns[0]
    need(not f.decorator_list and not f.args.vararg and not f.args.kwarg and not f.args.kwonlyargs and not f.args.defaults
         and not getattr(f.args, 'posonlyargs', []), f, 'signature outside the subset')
    args = f.args.args
    need(len(args) >= 1 and args[0].arg == 'self', f, 'first parameter is not self')
    need(isinstance(f.returns, ast.Name) and f.returns.id == 'float', f, 'return annotation is not float')
    env, params = {}, []
    for a in args[1:]:
        need(a.annotation is not None, a, 'parameter %s without annotation' % a.arg)
        ty = ann_type(a.annotation)
        env[a.arg] = (a.arg, ty)
        params.append('(%s : %s)' % (a.arg, ty))
    for n in ast.walk(f):
        need(not (isinstance(n, ast.Name) and n.id == 'self'), n, 'self is used in the body')
    body = f.body
    if body and isinstance(body[0], ast.Expr) and isinstance(body[0].value, ast.Constant) and isinstance(body[0].value.value, str):
        body = body[1:]
    code = Fn().block(body, env, set())
    end = max(getattr(n, 'end_lineno', f.lineno) or f.lineno for n in ast.walk(f))
    out = ['(* GENERATED by harness/translate/py2gallina_c10.py from %s - do not edit. *)' % FILE,
           '(* %s:%d-%d  %s_%s *)' % (FILE, f.lineno, end, CLASS, METHOD),
           'From Coq Require Import ZArith List QArith Qcanon Bool.',
           'From SG Require Import Base.QcUtil Base.PyLib Base.PyBreak.',
           'Import ListNotations.',
           'Open Scope Z_scope.',
           '',
           'Definition %s_%s %s : option Qc :=' % (CLASS, METHOD, ' '.join(params)),
           '  run_flow (V := unit) (%s).' % code,
           '']
    return '\n'.join(out)


def main(argv):
    repo = os.environ.get('VERIF_REPO', '/repo')
    out = os.path.join(ROOT, 'coq', 'Gen', OUT)
    stdout = False
    i = 0
    while i < len(argv):
        if argv[i] == '--repo' and i + 1 < len(argv):
            repo = argv[i + 1]; i += 2
        elif argv[i] == '--out' and i + 1 < len(argv):
            out = argv[i + 1]; i += 2
        elif argv[i] == '--stdout':
            stdout = True; i += 1
        else:
            sys.stderr.write(__doc__)
            return 2
    try:
        text = translate(repo)
        rc = 0
    except (Reject, SyntaxError, OSError) as e:
        sys.stderr.write('py2gallina_c10: REJECTED: %s\n' % e)
        text = ('(* GENERATED by harness/translate/py2gallina_c10.py - the source was REJECTED: %s *)\n'
                'Definition translator_rejected_the_source : True := this_file_does_not_compile.\n' % str(e).replace('*)', '* )'))
        rc = 1
    if stdout:
        sys.stdout.write(text)
        return rc
    try:
        old = open(out).read()
    except OSError:
        old = None
    if old != text:
        os.makedirs(os.path.dirname(out), exist_ok=True)
        with open(out, 'w') as fh:
            fh.write(text)
    return rc


if __name__ == '__main__':
    sys.exit(main(sys.argv[1:]))
