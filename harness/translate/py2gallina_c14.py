#!/venv/bin/python
"""py2gallina_c14.py -- FAIL-CLOSED source-derived model for property C14: the NEW-OBJECT MARKER of class RefinementContainer
(sparseSpACE/RefinementContainer.py) -> coq/Gen/NewMarkerGen.v.

The re-entrant driver loop is idempotent under re-evaluation because evaluate_operation evaluates `get_new_objects()` and then calls
`clear_new_objects()` (repair 0b63da8); refine() `add`s the children behind the marker.  These four methods are the whole mechanism:
    RefinementContainer.clear_new_objects    self.startNewObjects = len(self.refinementObjects)
    RefinementContainer.get_new_objects      return self.refinementObjects[self.startNewObjects:]
    RefinementContainer.new_objects_size     return len(self.refinementObjects) - self.startNewObjects
    RefinementContainer.add                  self.refinementObjects.extend(new_refinement_objects)

Own small front end in the pattern of py2gallina_c08_area.py (object machine).  SCHEME: the part of the object the methods touch is the
record  RefCont_t A = { f_refinementObjects : list A ; f_startNewObjects : Z }  (A = the refinement objects, abstract); the object BEFORE
a call is an arbitrary record.  A method whose body consists of attribute updates becomes  RefCont_t A -> args -> RefCont_t A, a method
whose body is one `return e` becomes  RefCont_t A -> args -> T.  Accepted, and nothing else:
    statements   `self.startNewObjects = e` (e : int);  `self.refinementObjects.extend(p)` (p a parameter: a list of objects);
                 `return e` as the only statement
    expressions  self.refinementObjects, self.startNewObjects, parameters, int constants, len(e), e + e, e - e (ints),
                 e[lo:] (list slice without upper bound and step; Python slice semantics incl. negative / too large bounds =
                 py_slice of coq/Base/PyNum.v)
Decorators, defaults, *args, other statements / attributes / calls, a class-level assignment of one of the two attributes are
rejected with file:line; the output then is a stub that does not compile (nothing depending on the generated model builds).
Usage: py2gallina_c14.py [--repo DIR] [--out FILE] [--stdout]   (DIR defaults to $VERIF_REPO or /repo)"""
import ast
import os
import sys

HERE = os.path.dirname(os.path.abspath(__file__))
VERIF = os.path.dirname(os.path.dirname(HERE))
SRC = 'sparseSpACE/RefinementContainer.py'
CLASS = 'RefinementContainer'
ATTRS = {'refinementObjects': 'list A', 'startNewObjects': 'Z'}
METHODS = [('clear_new_objects', []), ('get_new_objects', []), ('new_objects_size', []), ('add', [('new_refinement_objects', 'list A')])]


class Reject(Exception):
    def __init__(self, node, msg):
        super().__init__('%s:%s: %s' % (SRC, getattr(node, 'lineno', '?'), msg))


def expr(e, env):
    """-> (gallina term, type); env: parameter name -> type"""
    if isinstance(e, ast.Attribute) and isinstance(e.value, ast.Name) and e.value.id == 'self' and isinstance(e.ctx, ast.Load):
        if e.attr not in ATTRS:
            raise Reject(e, 'attribute self.%s outside the modelled part of the object' % e.attr)
        return '(f_%s self)' % e.attr, ATTRS[e.attr]
    if isinstance(e, ast.Name) and isinstance(e.ctx, ast.Load):
        if e.id not in env:
            raise Reject(e, 'name `%s`' % e.id)
        return e.id, env[e.id]
    if isinstance(e, ast.Constant) and type(e.value) is int:
        return '(%d)' % e.value, 'Z'
    if isinstance(e, ast.Call) and isinstance(e.func, ast.Name) and e.func.id == 'len' and len(e.args) == 1 and not e.keywords:
        t, ty = expr(e.args[0], env)
        if ty != 'list A':
            raise Reject(e, 'len of a non-list')
        return '(py_len %s)' % t, 'Z'
    if isinstance(e, ast.BinOp) and isinstance(e.op, (ast.Add, ast.Sub)):
        (a, ta), (b, tb) = expr(e.left, env), expr(e.right, env)
        if ta != 'Z' or tb != 'Z':
            raise Reject(e, 'arithmetic on non-integers')
        return '(%s %s %s)' % (a, '+' if isinstance(e.op, ast.Add) else '-', b), 'Z'
    if isinstance(e, ast.Subscript) and isinstance(e.ctx, ast.Load) and isinstance(e.slice, ast.Slice):
        sl = e.slice
        if sl.lower is None or sl.upper is not None or sl.step is not None:
            raise Reject(e, 'slice other than l[lo:]')
        (l, tl), (lo, tlo) = expr(e.value, env), expr(sl.lower, env)
        if tl != 'list A' or tlo != 'Z':
            raise Reject(e, 'slice of a non-list / non-integer bound')
        return '(py_slice %s (Some %s) None)' % (l, lo), 'list A'
    raise Reject(e, 'expression `%s` outside the subset' % ast.unparse(e))


def method(fn, params):
    a = fn.args
    if [x.arg for x in a.args] != ['self'] + [p for p, _ in params] or a.vararg or a.kwarg or a.kwonlyargs or a.defaults or a.posonlyargs \
            or fn.decorator_list:
        raise Reject(fn, 'signature of %s' % fn.name)
    env = dict(params)
    body = [s for s in fn.body if not (isinstance(s, ast.Expr) and isinstance(s.value, ast.Constant) and isinstance(s.value.value, str))]
    args = ''.join(' (%s : %s)' % (p, t) for p, t in params)
    head = '(* %s:%d-%d  %s.%s *)\n' % (SRC, fn.lineno, fn.end_lineno, CLASS, fn.name)
    if len(body) == 1 and isinstance(body[0], ast.Return) and body[0].value is not None:
        t, ty = expr(body[0].value, env)
        return head + 'Definition %s_%s (self : RefCont_t)%s : %s :=\n  %s.\n' % (CLASS, fn.name, args, ty, t)
    term = 'self'
    lets = []
    if not body:
        raise Reject(fn, 'empty body')
    for s in body:
        if isinstance(s, ast.Assign) and len(s.targets) == 1 and isinstance(s.targets[0], ast.Attribute) \
                and isinstance(s.targets[0].value, ast.Name) and s.targets[0].value.id == 'self' and s.targets[0].attr == 'startNewObjects':
            t, ty = expr(s.value, env)
            if ty != 'Z':
                raise Reject(s, 'startNewObjects assigned a non-integer')
            lets.append('let self := mk_RefCont (f_refinementObjects self) %s in' % t)
        elif isinstance(s, ast.Expr) and isinstance(s.value, ast.Call) and isinstance(s.value.func, ast.Attribute) \
                and s.value.func.attr == 'extend' and len(s.value.args) == 1 and not s.value.keywords \
                and ast.unparse(s.value.func.value) == 'self.refinementObjects':
            t, ty = expr(s.value.args[0], env)
            if ty != 'list A' or not isinstance(s.value.args[0], ast.Name):
                raise Reject(s, 'extend with something else than a parameter list of objects')
            lets.append('let self := mk_RefCont (f_refinementObjects self ++ %s) (f_startNewObjects self) in' % t)
        else:
            raise Reject(s, 'statement `%s` outside the subset' % ast.unparse(s).split('\n')[0])
    return head + 'Definition %s_%s (self : RefCont_t)%s : RefCont_t :=\n  %s\n  %s.\n' % (CLASS, fn.name, args, '\n  '.join(lets), term)


def translate(repo):
    tree = ast.parse(open(os.path.join(repo, SRC)).read())
    cls = [n for n in tree.body if isinstance(n, ast.ClassDef) and n.name == CLASS]
    if len(cls) != 1:
        raise Reject(tree, 'class %s not found exactly once' % CLASS)
    cls = cls[0]
    for st in cls.body:      # a class-level marker would be shared by all containers
        if isinstance(st, (ast.Assign, ast.AnnAssign, ast.AugAssign)) and any(a in ast.unparse(st) for a in ATTRS):
            raise Reject(st, 'class-level attribute `%s`' % ast.unparse(st))
    fns = {}
    for n in cls.body:
        if isinstance(n, ast.FunctionDef):
            if n.name in fns:
                raise Reject(n, 'method %s defined twice' % n.name)
            fns[n.name] = n
    out = ['(* GENERATED by harness/translate/py2gallina_c14.py -- DO NOT EDIT.  Regenerated from %s at the start of every\n'
           '   ./check C14 run and by ./setup.sh C14.  Scheme: see the header of the translator. *)' % SRC,
           'From Coq Require Import ZArith List Bool.\nFrom SG Require Import Base.PyLib Base.PyNum.\nImport ListNotations.\nOpen Scope Z_scope.\n',
           'Section NewMarker.\nVariable A : Type.      (* the refinement objects *)\n',
           'Record RefCont_t : Type := mk_RefCont { f_refinementObjects : list A; f_startNewObjects : Z }.\n']
    for nm, params in METHODS:
        if nm not in fns:
            raise Reject(cls, '%s.%s not found' % (CLASS, nm))
        out.append(method(fns[nm], params))
    out.append('End NewMarker.')
    return '\n'.join(out) + '\n'


def main(argv):
    repo = os.environ.get('VERIF_REPO', '/repo')
    outp = os.path.join(VERIF, 'coq', 'Gen', 'NewMarkerGen.v')
    stdout = False
    i = 0
    while i < len(argv):
        if argv[i] == '--repo' and i + 1 < len(argv):
            repo = argv[i + 1]; i += 2
        elif argv[i] == '--out' and i + 1 < len(argv):
            outp = argv[i + 1]; i += 2
        elif argv[i] == '--stdout':
            stdout = True; i += 1
        else:
            sys.stderr.write(__doc__)
            return 2
    try:
        text = translate(repo)
        rc = 0
    except Reject as ex:
        sys.stderr.write('py2gallina_c14: REJECT %s\n' % ex)
        text = ('(* GENERATED by harness/translate/py2gallina_c14.py -- the translator REJECTED the source:\n   %s\n'
                '   The definition below is ill-typed on purpose: nothing that depends on the generated model may build. *)\n'
                'Definition translator_rejected_the_source : False := I.\n' % ex)
        rc = 1
    if stdout:
        sys.stdout.write(text)
        return rc
    old = open(outp).read() if os.path.exists(outp) else None
    if old != text:
        open(outp, 'w').write(text)
        for ext in ('.vo', '.vos', '.vok', '.glob'):
            try:
                os.remove(outp[:-2] + ext)
            except OSError:
                pass
    return rc


if __name__ == '__main__':
    sys.exit(main(sys.argv[1:]))
