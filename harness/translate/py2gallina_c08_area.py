#!/venv/bin/python
"""py2gallina_c08_area.py -- FAIL-CLOSED source-derived model for property C08: the BORDER BOOKKEEPING of the 1D local grids,
Grid1d.set_current_area (+ touches_lower_boundary / touches_upper_boundary) of sparseSpACE/Grid.py -> coq/Gen/Grid1dAreaGen.v.

Own small front end in the pattern of py2gallina_c18.py (object machine: attribute WRITES become updates of a state record).
What is derived from the source, statement by statement: WHICH attribute is written WHEN with WHAT (start, end, level, num_points,
boundary, num_points_with_boundary, length, lowerBorder, upperBorder, spacing), the temporary switch of self.boundary around the
second count, the branch structure of the border indices, the guard of the spacing, the order of evaluation.

SCHEME.  Record Grid1d_t with one field per attribute (types declared below; spacing : option Qc because the code stores None);
the object BEFORE the call is an arbitrary record (whatever earlier calls left in the attributes - a stale value that is not
overwritten shows in the result).  `self.level_to_num_points_1d(level)` is the abstract method of the subclass: a Section variable
`level_to_num_points_1d : Grid1d_t -> Z -> option Z` that sees the record (it reads boundary, start, end).  A method becomes
`Grid1d_t -> args -> option Grid1d_t` (None = it raises).  Statements: `self.x = e`, `x = e`, `if c: .. [else: ..]` whose branches
consist of such statements (the if is an expression yielding the updated record and locals are not assigned in branches);
expressions: parameters, locals, self.x, int / float constants, None (for spacing), int(k), + - * /, abs, < <= ==, not, and,
`a if c else b`, calls of the two touches_* methods (translated, total) and of the abstract method.  x / y is py_fdiv (None for
y = 0).  Floats are read as exact rationals (Base/PyNum.v).
The statements from `coordsD, weightsD = self.get_1d_points_and_weights()` to the end of the method build the point / weight arrays
from the bookkeeping (numpy; tied by the correspondence of every run): they are accepted ONLY with exactly the source text listed
in TAIL and are not translated.  Anything else - another statement, attribute, branch, an early return - is rejected with
file:line and the output becomes a stub that does not compile.
Usage: py2gallina_c08_area.py [--repo DIR] [--out FILE] [--stdout]   (DIR defaults to $VERIF_REPO or /repo)"""
import ast
import os
import sys

HERE = os.path.dirname(os.path.abspath(__file__))
VERIF = os.path.dirname(os.path.dirname(HERE))
SRC = 'sparseSpACE/Grid.py'
CLASS = 'Grid1d'
ATTRS = [('boundary', 'bool'), ('a', 'Qc'), ('b', 'Qc'), ('start', 'Qc'), ('end', 'Qc'), ('level', 'Z'), ('num_points', 'Z'),
         ('num_points_with_boundary', 'Z'), ('length', 'Qc'), ('lowerBorder', 'Z'), ('upperBorder', 'Z'), ('spacing', 'option Qc')]
ATYPE = dict(ATTRS)
PARAMS = [('start', 'Qc'), ('end', 'Qc'), ('level', 'Z')]
TAIL = ['coordsD, weightsD = self.get_1d_points_and_weights()',
        'self.coords = np.array(coordsD)',
        'self.weights = np.array(weightsD)',
        'self.coords.setflags(write=False)',
        'self.weights.setflags(write=False)',
        'if self.boundary == False:\n    self.coords_with_boundary = np.array([self.a] + list(coordsD) + [self.b])\nelse:\n    self.coords_with_boundary = np.array(self.coords)']


class Reject(Exception):
    def __init__(self, node, msg):
        super().__init__('%s:%s: %s' % (SRC, getattr(node, 'lineno', '?'), msg))


def cname(n):
    return {'end': 'end_'}.get(n, n)


class Tr:
    def __init__(self):
        self.n = 0

    def fresh(self):
        self.n += 1
        return '_t%d' % self.n

    # expression -> (binds, term, type); binds: list of (name, option-term)
    def expr(self, e, env):
        if isinstance(e, ast.Name):
            if e.id not in env:
                raise Reject(e, 'unknown variable %s' % e.id)
            return [], cname(e.id), env[e.id]
        if isinstance(e, ast.Constant):
            if e.value is None:
                return [], 'None', 'option Qc'
            if isinstance(e.value, bool):
                return [], 'true' if e.value else 'false', 'bool'
            if isinstance(e.value, int):
                return [], '%d' % e.value, 'Z'
            if isinstance(e.value, float):
                from fractions import Fraction
                fr = Fraction(repr(e.value))
                return [], '(py_Qc %d %d)' % (fr.numerator, fr.denominator), 'Qc'
            raise Reject(e, 'constant %r' % (e.value,))
        if isinstance(e, ast.Attribute) and isinstance(e.value, ast.Name) and e.value.id == 'self':
            if e.attr not in ATYPE:
                raise Reject(e, 'attribute self.%s is not part of the bookkeeping' % e.attr)
            return [], '(f_%s self)' % e.attr, ATYPE[e.attr]
        if isinstance(e, ast.Call):
            f = e.func
            if isinstance(f, ast.Name) and f.id == 'int' and len(e.args) == 1 and not e.keywords and isinstance(e.args[0], ast.Constant) \
                    and isinstance(e.args[0].value, int):
                return [], '%d' % e.args[0].value, 'Z'
            if isinstance(f, ast.Name) and f.id == 'abs' and len(e.args) == 1 and not e.keywords:
                b, t, ty = self.expr(e.args[0], env)
                if ty != 'Qc':
                    raise Reject(e, 'abs of %s' % ty)
                return b, '(Qc_abs %s)' % t, 'Qc'
            if isinstance(f, ast.Attribute) and isinstance(f.value, ast.Name) and f.value.id == 'self' and not e.keywords:
                if f.attr in ('touches_lower_boundary', 'touches_upper_boundary') and not e.args:
                    return [], '(Grid1d_%s self)' % f.attr, 'bool'
                if f.attr == 'level_to_num_points_1d' and len(e.args) == 1:
                    b, t, ty = self.expr(e.args[0], env)
                    if ty != 'Z':
                        raise Reject(e, 'level of type %s' % ty)
                    x = self.fresh()
                    return b + [(x, '(level_to_num_points_1d self %s)' % t)], x, 'Z'
            raise Reject(e, 'call %s' % ast.unparse(e))
        if isinstance(e, ast.UnaryOp) and isinstance(e.op, ast.Not):
            b, t, ty = self.expr(e.operand, env)
            if ty != 'bool':
                raise Reject(e, 'not of %s' % ty)
            return b, '(negb %s)' % t, 'bool'
        if isinstance(e, ast.BoolOp) and isinstance(e.op, ast.And):
            bs, ts = [], []
            for v in e.values:
                b, t, ty = self.expr(v, env)
                if ty != 'bool' or (b and ts):
                    raise Reject(e, 'and-operand (type %s; raising operands only first)' % ty)
                bs += b
                ts.append(t)
            return bs, '(' + ' && '.join(ts) + ')', 'bool'
        if isinstance(e, ast.IfExp):
            bc, tc, tyc = self.expr(e.test, env)
            b1, t1, ty1 = self.expr(e.body, env)
            b2, t2, ty2 = self.expr(e.orelse, env)
            if tyc != 'bool' or ty1 != ty2 or b1 or b2:
                raise Reject(e, 'conditional expression')
            return bc, '(if %s then %s else %s)' % (tc, t1, t2), ty1
        if isinstance(e, ast.BinOp):
            bl, tl, tyl = self.expr(e.left, env)
            br, tr, tyr = self.expr(e.right, env)

            def q(t, ty):
                return t if ty == 'Qc' else '(py_Z2Qc %s)' % t
            if isinstance(e.op, (ast.Add, ast.Sub, ast.Mult)):
                op = {ast.Add: '+', ast.Sub: '-', ast.Mult: '*'}[type(e.op)]
                if tyl == 'Z' and tyr == 'Z':
                    return bl + br, '(%s %s %s)%%Z' % (tl, op, tr), 'Z'
                if tyl in ('Z', 'Qc') and tyr in ('Z', 'Qc'):
                    return bl + br, '(%s %s %s)%%Qc' % (q(tl, tyl), op, q(tr, tyr)), 'Qc'
            if isinstance(e.op, ast.Div) and tyl in ('Z', 'Qc') and tyr in ('Z', 'Qc'):
                x = self.fresh()
                return bl + br + [(x, '(py_fdiv %s %s)' % (q(tl, tyl), q(tr, tyr)))], x, 'Qc'
            raise Reject(e, 'operator on %s, %s' % (tyl, tyr))
        if isinstance(e, ast.Compare) and len(e.ops) == 1:
            bl, tl, tyl = self.expr(e.left, env)
            br, tr, tyr = self.expr(e.comparators[0], env)
            op = type(e.ops[0])
            if tyl == 'Z' and tyr == 'Z' and op in (ast.Lt, ast.LtE, ast.Eq):
                return bl + br, '(%s %s %s)%%Z' % (tl, {ast.Lt: '<?', ast.LtE: '<=?', ast.Eq: '=?'}[op], tr), 'bool'
            if tyl == 'Qc' and tyr == 'Qc' and op is ast.LtE:
                return bl + br, '(Qc_leb %s %s)' % (tl, tr), 'bool'
            raise Reject(e, 'comparison on %s, %s' % (tyl, tyr))
        raise Reject(e, 'expression %s' % ast.unparse(e))

    @staticmethod
    def wrap(binds, body):
        for x, t in reversed(binds):
            body = 'match %s with None => None | Some %s => %s end' % (t, x, body)
        return body

    # statements -> term of type option Grid1d_t given continuation text `k` (a term using `self` and the locals)
    def block(self, stmts, env, k, in_branch):
        if not stmts:
            return k
        s, rest = stmts[0], stmts[1:]
        if isinstance(s, ast.Assign) and len(s.targets) == 1:
            tg = s.targets[0]
            if isinstance(tg, ast.Attribute) and isinstance(tg.value, ast.Name) and tg.value.id == 'self':
                if tg.attr not in ATYPE:
                    raise Reject(s, 'write of self.%s: not part of the bookkeeping' % tg.attr)
                b, t, ty = self.expr(s.value, env)
                want = ATYPE[tg.attr]
                if want == 'option Qc' and ty == 'Qc':
                    t = '(Some %s)' % t
                elif want == 'Qc' and ty == 'Z':
                    t = '(py_Z2Qc %s)' % t
                elif ty != want:
                    raise Reject(s, 'self.%s : %s assigned a %s' % (tg.attr, want, ty))
                return self.wrap(b, 'let self := set_%s %s self in\n  %s' % (tg.attr, t, self.block(rest, env, k, in_branch)))
            if isinstance(tg, ast.Name) and not in_branch:
                if tg.id in env:
                    raise Reject(s, 'local %s assigned twice' % tg.id)
                b, t, ty = self.expr(s.value, env)
                env2 = dict(env)
                env2[tg.id] = ty
                return self.wrap(b, 'let %s := %s in\n  %s' % (cname(tg.id), t, self.block(rest, env2, k, in_branch)))
        if isinstance(s, ast.If):
            b, t, ty = self.expr(s.test, env)
            if ty != 'bool':
                raise Reject(s, 'test of type %s' % ty)
            th = self.block(s.body, env, 'Some self', True)
            el = self.block(s.orelse, env, 'Some self', True)
            return self.wrap(b, 'match (if %s then (%s) else (%s)) with None => None | Some self =>\n  %s end'
                             % (t, th, el, self.block(rest, env, k, in_branch)))
        raise Reject(s, 'statement `%s`' % ast.unparse(s).split('\n')[0])


def translate(repo):
    path = os.path.join(repo, SRC)
    tree = ast.parse(open(path).read())
    cls = [n for n in tree.body if isinstance(n, ast.ClassDef) and n.name == CLASS]
    if len(cls) != 1:
        raise Reject(tree, 'class %s not found exactly once' % CLASS)
    cls = cls[0]
    fns = {n.name: n for n in cls.body if isinstance(n, ast.FunctionDef)}
    for st in cls.body:      # class-level assignments would be shared state of all 1D grids
        if isinstance(st, (ast.Assign, ast.AnnAssign, ast.AugAssign)):
            raise Reject(st, 'class-level attribute `%s`' % ast.unparse(st))
    out = []
    out.append('(* GENERATED by harness/translate/py2gallina_c08_area.py -- DO NOT EDIT.  Regenerated from %s at the start of every\n'
               '   ./check C08 run and by ./setup.sh C08.  Scheme: see the header of the translator.  TRUSTED READING: floats are exact rationals. *)' % SRC)
    out.append('From Coq Require Import ZArith List Bool QArith Qcanon.\nFrom SG Require Import Base.QcUtil Base.PyLib Base.PyNum.\nImport ListNotations.\nOpen Scope Z_scope.\n')
    out.append('Record Grid1d_t : Type := mk_Grid1d {\n' + ';\n'.join('  f_%s : %s' % (a, t) for a, t in ATTRS) + ' }.\n')
    for a, _ in ATTRS:
        out.append('Definition set_%s (v : %s) (self : Grid1d_t) : Grid1d_t :=\n  mk_Grid1d %s.' % (
            a, ATYPE[a], ' '.join('v' if x == a else '(f_%s self)' % x for x, _ in ATTRS)))
    out.append('')
    for nm in ('touches_lower_boundary', 'touches_upper_boundary'):
        fn = fns.get(nm)
        if fn is None or len(fn.args.args) != 1 or len(fn.body) != 1 or not isinstance(fn.body[0], ast.Return):
            raise Reject(fn or cls, 'Grid1d.%s is not a single return statement' % nm)
        b, t, ty = Tr().expr(fn.body[0].value, {})
        if b or ty != 'bool':
            raise Reject(fn, '%s: not a total boolean expression' % nm)
        out.append('(* %s:%d-%d  Grid1d.%s *)\nDefinition Grid1d_%s (self : Grid1d_t) : bool :=\n  %s.\n'
                   % (SRC, fn.lineno, fn.end_lineno, nm, nm, t))
    fn = fns.get('set_current_area')
    if fn is None:
        raise Reject(cls, 'Grid1d.set_current_area not found')
    args = [a.arg for a in fn.args.args]
    if args != ['self', 'start', 'end', 'level'] or fn.args.vararg or fn.args.kwarg or fn.args.kwonlyargs or fn.args.defaults:
        raise Reject(fn, 'signature of set_current_area: %s' % args)
    body = list(fn.body)
    # the untranslated tail, by exact text
    tail = body[len(body) - len(TAIL):]
    if len(body) < len(TAIL) or [ast.unparse(s) for s in tail] != TAIL:
        for s, want in zip(tail, TAIL):
            if ast.unparse(s) != want:
                raise Reject(s, 'statement after the bookkeeping is not the expected `%s`' % want.split('\n')[0])
        raise Reject(fn, 'the statements that build the arrays are not the expected ones')
    head = body[:len(body) - len(TAIL)]
    tr = Tr()
    term = tr.block(head, dict(PARAMS), 'Some self', False)
    out.append('Section Grid1dArea.\n(* the abstract method of the subclass: reads the record (boundary flag, start, end, a, b) *)\n'
               'Variable level_to_num_points_1d : Grid1d_t -> Z -> option Z.\n')
    out.append('(* %s:%d-%d  Grid1d.set_current_area  (bookkeeping part; the array construction that follows is not translated) *)\n'
               'Definition Grid1d_set_current_area (self : Grid1d_t) (start end_ : Qc) (level : Z) : option Grid1d_t :=\n  %s.\nEnd Grid1dArea.'
               % (SRC, fn.lineno, tail[0].lineno - 1, term))
    return '\n'.join(out) + '\n'


def main(argv):
    repo = os.environ.get('VERIF_REPO', '/repo')
    outp = os.path.join(VERIF, 'coq', 'Gen', 'Grid1dAreaGen.v')
    stdout = False
    i = 0
    while i < len(argv):
        if argv[i] == '--repo' and i + 1 < len(argv):
            repo = argv[i + 1]; i += 2
        elif argv[i] == '--out' and i + 1 < len(argv):
            outp = argv[i + 1]; i += 2
        elif argv[i] == '--stdout':
            stdout = True; i += 1
        else:
            sys.stderr.write(__doc__)
            return 2
    try:
        text = translate(repo)
        rc = 0
    except Reject as ex:
        sys.stderr.write('py2gallina_c08_area: REJECT %s\n' % ex)
        text = ('(* GENERATED by harness/translate/py2gallina_c08_area.py -- the translator REJECTED the source:\n   %s\n'
                '   The definition below is ill-typed on purpose: nothing that depends on the generated model may build. *)\n'
                'Definition translator_rejected_the_source : False := I.\n' % ex)
        rc = 1
    if stdout:
        sys.stdout.write(text)
        return rc
    old = open(outp).read() if os.path.exists(outp) else None
    if old != text:
        open(outp, 'w').write(text)
        for ext in ('.vo', '.vos', '.vok', '.glob'):
            try:
                os.remove(outp[:-2] + ext)
            except OSError:
                pass
    return rc


if __name__ == '__main__':
    sys.exit(main(sys.argv[1:]))
