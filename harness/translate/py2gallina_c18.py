#!/venv/bin/python
"""py2gallina_c18.py -- FAIL-CLOSED source-derived model for property C18: the SCALING BOOKKEEPING of class DataSet
(sparseSpACE/DEMachineLearning.py: scale_range, scale_factor, shift_value, revert_scaling) -> coq/Gen/DataSetScalingGen.v.

Own small front end in the pattern of py2gallina_machine.py (object machine: attribute writes on a state record; what the methods
reach through numpy / scikit-learn are PARAMETERS of the generated Section).  What is derived from the source, statement by statement:
the branch structure (`if not self._scaled or override_scaling`), the ValueError guards, WHICH attribute is written WHEN with WHAT
(_data, _scaled, _scaling_range, _scaling_factor, _scaling_offset, _original_min, _original_max), the arithmetic on the bookkeeping
values (`self._scaling_factor * scaler.scale_`, `self._scaling_offset * scaler.scale_ + scaler.min_`, `1.0 / ..`, `-..`), the order of
evaluation (an exception leaves the attribute writes done so far: every method returns (state, raised)), and the calls of the other
translated methods in revert_scaling.

SCHEME.  One Coq Section.  Variables: types Val (a float / ndarray / None bookkeeping value), Data (the _data tuple), Rng
(_scaling_range), Scaler; operations
  v_float q, v_none, r_none                      literals 0.0 / 1.0 / None
  v_mul, v_add : Val -> Val -> option Val        `*`, `+` (None = the Python raises, e.g. None * array)
  v_neg, v_recip : Val -> option Val             `-x`, `1.0 / x`
  v_misfit : Val -> nat -> bool                  `isinstance(p, np.ndarray) and len(p) != self._dim`
  sk_fit : Rng -> Data -> option Scaler          `scaler = preprocessing.MinMaxScaler(feature_range=r)` + `scaler.fit(self._data[0])`
  sk_scale, sk_min, sk_data_min, sk_data_max     `scaler.scale_` ...
  d_transform : Scaler -> Data -> Data           `tuple([scaler.transform(self._data[0]), np.array([c for c in self._data[1]])])`
  d_map_mul, d_map_add : Data -> Val -> option Data   `tuple([np.array(list(map(lambda x: x * p, self._data[0]))), self._data[1]])`
  d_range : Data -> option Rng                   `(np.amin(self._data[0], axis=0), np.amax(self._data[0], axis=0))`
  d_min, d_max : Data -> Val                     `self.get_min_data()`, `self.get_max_data()`
Each of these source texts is accepted ONLY in exactly this form (compared on ast.unparse); any other statement, expression,
attribute, branch (e.g. an added `elif`), call or parameter is rejected with file:line and the output becomes a stub that does not
compile.  Proofs/GenDataSetScalingEq.v instantiates the parameters with the primitives of Model/DataSet.v and proves the generated
methods equal to the hand-written bookkeeping of Model/DataSetOff.v.

Usage: py2gallina_c18.py [--repo DIR] [--out FILE] [--stdout]   (DIR defaults to $VERIF_REPO or /repo)"""
import ast
import os
import sys

HERE = os.path.dirname(os.path.abspath(__file__))
VERIF = os.path.dirname(os.path.dirname(HERE))
SRC = 'sparseSpACE/DEMachineLearning.py'
CLASS = 'DataSet'
METHODS = ['scale_range', 'scale_factor', 'shift_value', 'revert_scaling']
PARAMS = {'scale_range': [('scaling_range', 'Rng')], 'scale_factor': [('scaling_factor', 'Val')], 'shift_value': [('shift_val', 'Val')],
          'revert_scaling': []}
ATTRS = {'_data': 'Data', '_dim': 'nat', '_scaled': 'bool', '_scaling_range': 'Rng', '_scaling_factor': 'Val', '_scaling_offset': 'Val',
         '_original_min': 'Val', '_original_max': 'Val'}
READONLY = {'_dim'}


class Reject(Exception):
    def __init__(self, node, msg):
        super().__init__('%s:%s: %s' % (SRC, getattr(node, 'lineno', '?'), msg))


def fld(a):
    return 'f' + a


def setter(a):
    return 'set' + a


class Method:
    """translation of one method body into a Gallina term of type (state * bool)"""

    def __init__(self, fn):
        self.fn = fn
        self.n = 0
        self.locals = {}          # local name -> (term, type)

    def fresh(self):
        self.n += 1
        return 'x%d' % self.n

    # ------------------------------------------------------------------ expressions
    def value(self, e, binds):
        """expression of a bookkeeping value -> (term, type); may-raise sub-expressions are appended to binds as (var, option term)"""
        u = ast.unparse(e)
        if isinstance(e, ast.Constant):
            if e.value is None:
                return ('v_none', 'Val')
            if e.value is True or e.value is False:
                return ('true' if e.value else 'false', 'bool')
            if isinstance(e.value, float) and e.value in (0.0, 1.0):
                return ('(v_float %d)' % int(e.value), 'Val')
            raise Reject(e, 'constant %r' % (e.value,))
        if isinstance(e, ast.Name):
            if e.id in self.locals:
                return self.locals[e.id]
            raise Reject(e, 'unknown name %s' % e.id)
        if isinstance(e, ast.Attribute) and isinstance(e.value, ast.Name) and e.value.id == 'self':
            if e.attr not in ATTRS:
                raise Reject(e, 'attribute self.%s is not part of the scaling bookkeeping' % e.attr)
            return ('(%s self)' % fld(e.attr), ATTRS[e.attr])
        if isinstance(e, ast.Attribute) and isinstance(e.value, ast.Name) and e.value.id == 'scaler':
            if self.locals.get('scaler', (None, None))[1] != 'Scaler':
                raise Reject(e, 'scaler used before it is fitted')
            m = {'scale_': 'sk_scale', 'min_': 'sk_min', 'data_min_': 'sk_data_min', 'data_max_': 'sk_data_max'}
            if e.attr not in m:
                raise Reject(e, 'scaler attribute %s' % e.attr)
            return ('(%s %s)' % (m[e.attr], self.locals['scaler'][0]), 'Val')
        if u == 'self.get_min_data()':
            return ('(d_min (%s self))' % fld('_data'), 'Val')
        if u == 'self.get_max_data()':
            return ('(d_max (%s self))' % fld('_data'), 'Val')
        if isinstance(e, ast.BinOp) and isinstance(e.op, ast.Div) and ast.unparse(e.left) == '1.0':
            x, t = self.value(e.right, binds)
            self.need(e, t, 'Val')
            v = self.fresh()
            binds.append((v, '(v_recip %s)' % x))
            return (v, 'Val')
        if isinstance(e, ast.BinOp) and isinstance(e.op, (ast.Mult, ast.Add)):
            x, tx = self.value(e.left, binds)
            y, ty = self.value(e.right, binds)
            self.need(e, tx, 'Val')
            self.need(e, ty, 'Val')
            v = self.fresh()
            binds.append((v, '(%s %s %s)' % ('v_mul' if isinstance(e.op, ast.Mult) else 'v_add', x, y)))
            return (v, 'Val')
        if isinstance(e, ast.UnaryOp) and isinstance(e.op, ast.USub):
            x, t = self.value(e.operand, binds)
            self.need(e, t, 'Val')
            v = self.fresh()
            binds.append((v, '(v_neg %s)' % x))
            return (v, 'Val')
        # the numpy / scikit-learn forms, accepted in exactly these texts
        if u == 'tuple([scaler.transform(self._data[0]), np.array([c for c in self._data[1]])])':
            if self.locals.get('scaler', (None, None))[1] != 'Scaler':
                raise Reject(e, 'scaler used before it is fitted')
            return ('(d_transform %s (%s self))' % (self.locals['scaler'][0], fld('_data')), 'Data')
        for op, fun in (('x * %s', 'd_map_mul'), ('x + %s', 'd_map_add')):
            for p, (term, ty) in self.locals.items():
                if ty == 'Val' and u == 'tuple([np.array(list(map(lambda x: %s, self._data[0]))), self._data[1]])' % (op % p):
                    v = self.fresh()
                    binds.append((v, '(%s (%s self) %s)' % (fun, fld('_data'), term)))
                    return (v, 'Data')
        if u == '(np.amin(self._data[0], axis=0), np.amax(self._data[0], axis=0))':
            v = self.fresh()
            binds.append((v, '(d_range (%s self))' % fld('_data')))
            return (v, 'Rng')
        raise Reject(e, 'expression outside the accepted forms: %s' % u[:120])

    def need(self, node, t, want):
        if t != want:
            raise Reject(node, 'type %s where %s is needed' % (t, want))

    def cond(self, e):
        u = ast.unparse(e)
        if u == 'not self._scaled or override_scaling':
            return '(negb (%s self) || override_scaling)' % fld('_scaled')
        for p, (term, ty) in self.locals.items():
            if ty == 'Val' and u == 'isinstance(%s, np.ndarray) and len(%s) != self._dim' % (p, p):
                return '(v_misfit %s (%s self))' % (term, fld('_dim'))
        raise Reject(e, 'condition outside the accepted forms: %s' % u[:120])

    # ------------------------------------------------------------------ statements
    def wrap(self, binds, body):
        """evaluate the may-raise sub-expressions in order; an exception returns the state as it is"""
        for v, t in reversed(binds):
            body = 'match %s with None => (self, true) | Some %s =>\n%s end' % (t, v, body)
        return body

    def stmts(self, ss, end):
        """ss: statements; end: term for falling off the end"""
        if not ss:
            return end
        s, rest = ss[0], ss[1:]
        if isinstance(s, ast.Expr) and isinstance(s.value, ast.Constant) and isinstance(s.value.value, str):
            return self.stmts(rest, end)                                     # docstring
        if isinstance(s, ast.If):
            if not s.orelse and len(s.body) == 1 and isinstance(s.body[0], ast.Raise):
                return 'if %s then (self, true) else\n%s' % (self.cond(s.test), self.stmts(rest, end))
            if rest:
                raise Reject(s, 'statements after an if/else')
            if not s.orelse:
                raise Reject(s, 'if without else')
            if len(s.orelse) == 1 and isinstance(s.orelse[0], ast.If):
                raise Reject(s.orelse[0], 'elif branch (only the two-way first/overriding vs. accumulating branch is part of the model)')
            c = self.cond(s.test)
            saved = dict(self.locals)
            a = self.stmts(s.body, end)
            self.locals = dict(saved)
            b = self.stmts(s.orelse, end)
            self.locals = saved
            return 'if %s then\n%s\nelse\n%s' % (c, a, b)
        if isinstance(s, ast.Raise):
            raise Reject(s, 'raise outside a guard')
        if isinstance(s, ast.Assign) and len(s.targets) == 1:
            t = s.targets[0]
            if isinstance(t, ast.Name) and t.id == 'scaler':
                if ast.unparse(s.value) != 'preprocessing.MinMaxScaler(feature_range=scaling_range)':
                    raise Reject(s, 'scaler construction: %s' % ast.unparse(s.value)[:100])
                if not rest or ast.unparse(rest[0]) != 'scaler.fit(self._data[0])':
                    raise Reject(s, 'the scaler must be fitted to self._data[0] right after its construction')
                v = self.fresh()
                self.locals['scaler'] = (v, 'Scaler')
                return self.wrap([(v, '(sk_fit scaling_range (%s self))' % fld('_data'))], self.stmts(rest[1:], end))
            binds = []
            x, ty = self.value(s.value, binds)
            if isinstance(t, ast.Name):
                self.locals[t.id] = (x, ty)
                return self.wrap(binds, self.stmts(rest, end))
            if isinstance(t, ast.Attribute) and isinstance(t.value, ast.Name) and t.value.id == 'self':
                if t.attr not in ATTRS or t.attr in READONLY:
                    raise Reject(s, 'write to self.%s' % t.attr)
                if ATTRS[t.attr] == 'Rng' and (x, ty) == ('v_none', 'Val'):
                    x, ty = 'r_none', 'Rng'
                self.need(s, ty, ATTRS[t.attr])
                return self.wrap(binds, 'let self := %s self %s in\n%s' % (setter(t.attr), x, self.stmts(rest, end)))
            raise Reject(s, 'assignment target %s' % ast.unparse(t))
        if isinstance(s, ast.Expr) and isinstance(s.value, ast.Call):
            c = s.value
            f = c.func
            if isinstance(f, ast.Attribute) and isinstance(f.value, ast.Name) and f.value.id == 'self' and f.attr in ('shift_value', 'scale_factor'):
                if len(c.args) != 1 or len(c.keywords) != 1 or c.keywords[0].arg != 'override_scaling':
                    raise Reject(s, 'call form of self.%s' % f.attr)
                binds = []
                a, ta = self.value(c.args[0], binds)
                o, to = self.value(c.keywords[0].value, binds)
                self.need(s, ta, 'Val')
                self.need(s, to, 'bool')
                body = "let '(self, raised) := %s self %s %s in\nif raised then (self, true) else\n%s" % (f.attr, a, o, self.stmts(rest, end))
                return self.wrap(binds, body)
        raise Reject(s, 'statement outside the accepted forms: %s' % ast.unparse(s)[:120])

    def translate(self):
        fn = self.fn
        a = fn.args
        names = [x.arg for x in a.args]
        want = ['self'] + [p for p, _ in PARAMS[fn.name]] + (['override_scaling'] if fn.name != 'revert_scaling' else [])
        if names != want or a.vararg or a.kwarg or a.kwonlyargs or a.posonlyargs:
            raise Reject(fn, 'signature of %s: %s' % (fn.name, names))
        if fn.name != 'revert_scaling' and (len(a.defaults) != 1 or ast.unparse(a.defaults[0]) != 'False'):
            raise Reject(fn, 'default of override_scaling')
        for p, t in PARAMS[fn.name]:
            self.locals[p] = (p, t)
        if fn.name != 'revert_scaling':
            self.locals['override_scaling'] = ('override_scaling', 'bool')
        body = self.stmts(fn.body, '(self, false)')
        ps = ''.join(' (%s : %s)' % (p, t) for p, t in PARAMS[fn.name]) + (' (override_scaling : bool)' if fn.name != 'revert_scaling' else '')
        return 'Definition %s (self : state)%s : state * bool :=\n%s.\n' % (fn.name, ps, body)


HEADER = '''(* GENERATED by harness/translate/py2gallina_c18.py from %s (class %s) - do not edit.
   Source-derived model of the scaling bookkeeping of DataSet: see the translator for the scheme and the accepted forms.
   Proofs/GenDataSetScalingEq.v: instantiated with the primitives of Model/DataSet.v these methods ARE the bookkeeping of
   Model/DataSetOff.v (scale_range_o / scale_factor_o / shift_value_o / revert_o, repaired variant). *)
From Coq Require Import ZArith List QArith Qcanon Bool.
Import ListNotations.

Section DataSetScaling.
Variables Val Data Rng Scaler : Type.
Variable v_float : Z -> Val.
Variable v_none : Val.
Variable r_none : Rng.
Variables v_mul v_add : Val -> Val -> option Val.
Variables v_neg v_recip : Val -> option Val.
Variable v_misfit : Val -> nat -> bool.
Variable sk_fit : Rng -> Data -> option Scaler.
Variables sk_scale sk_min sk_data_min sk_data_max : Scaler -> Val.
Variable d_transform : Scaler -> Data -> Data.
Variables d_map_mul d_map_add : Data -> Val -> option Data.
Variable d_range : Data -> option Rng.
Variables d_min d_max : Data -> Val.

(* the attributes the scaling methods read and write *)
Record state := mkState {
%s }.
%s
'''


def generate(repo):
    path = os.path.join(repo, SRC)
    tree = ast.parse(open(path).read(), path)
    cls = [n for n in tree.body if isinstance(n, ast.ClassDef) and n.name == CLASS]
    if len(cls) != 1:
        raise Reject(tree, 'class %s not found' % CLASS)
    fns = {n.name: n for n in cls[0].body if isinstance(n, ast.FunctionDef)}
    attrs = list(ATTRS)
    fields = ';\n'.join('  %s : %s' % (fld(a), ATTRS[a]) for a in attrs)
    setters = ''
    for a in attrs:
        if a in READONLY:
            continue
        setters += 'Definition %s (self : state) (x : %s) : state :=\n  mkState %s.\n' % (
            setter(a), ATTRS[a], ' '.join('x' if b == a else '(%s self)' % fld(b) for b in attrs))
    out = HEADER % (SRC, CLASS, fields, setters)
    for m in ['scale_factor', 'shift_value', 'scale_range', 'revert_scaling']:      # callees first
        if m not in fns:
            raise Reject(cls[0], 'method %s not found' % m)
        out += '\n(* %s:%d-%d  %s *)\n' % (SRC, fns[m].lineno, fns[m].end_lineno, m) + Method(fns[m]).translate()
    out += '\nEnd DataSetScaling.\n'
    return out


def main():
    repo = os.environ.get('VERIF_REPO', '/repo')
    outp = os.path.join(VERIF, 'coq', 'Gen', 'DataSetScalingGen.v')
    args = sys.argv[1:]
    to_stdout = False
    while args:
        a = args.pop(0)
        if a == '--repo':
            repo = args.pop(0)
        elif a == '--out':
            outp = args.pop(0)
        elif a == '--stdout':
            to_stdout = True
        else:
            sys.exit('usage: py2gallina_c18.py [--repo DIR] [--out FILE] [--stdout]')
    try:
        text = generate(repo)
        rc = 0
    except Reject as r:
        sys.stderr.write('py2gallina_c18: REJECTED %s\n' % r)
        text = '(* GENERATED STUB: the translator rejected the source: %s *)\nThis file does not compile on purpose.\n' % str(r).replace('*)', '* )')
        rc = 1
    if to_stdout:
        sys.stdout.write(text)
    else:
        old = open(outp).read() if os.path.exists(outp) else None
        if old != text:
            open(outp, 'w').write(text)
    sys.exit(rc)


if __name__ == '__main__':
    main()
