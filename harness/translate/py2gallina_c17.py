#!/usr/bin/env python3
"""Source-derived model for property C17: FRAGMENTS of the right-hand-side re-use code of sparseSpACE/GridOperation.py (class
DensityEstimation) -> coq/Gen/DensityReuseGen.v.

A thin front end of the shared translator harness/translate/py2gallina.py (imported, NOT modified; the target is registered in
memory only).  The methods that hold the re-use logic (calculate_B_dimension_wise, find_data_in_domain, __init__) are far outside
the translated subset as a whole (numpy broadcasting, string-keyed dictionaries, attribute writes, calls into the grid).  This
front end therefore cuts three STATEMENT BLOCKS out of their ASTs, turns each into a synthetic method of the class and hands these
to the shared translator.  Everything is fail closed: a block that is not found in the expected place, or an expression inside a
block that is neither covered by one of the VIEWS below nor inside the subset of the shared translator, rejects (the generated
file becomes a stub that does not compile).  A change INSIDE a block that stays in the subset is translated as it stands - and
then the equivalence theorems of coq/Proofs/GenDensityReuseEq.v (Props/C17gen.v) no longer hold.

  c17_init_data_bins(dim)            __init__: the statement `self.data_bins = E`.  E must be the list comprehension
                                     `[{} for d in range(dim)]` (an empty dict is VIEWED as the empty association list py_c17_empty_dict of coq/Base/PyC17.v); any other
                                     right-hand side (e.g. `[{}] * dim`, which aliases one dict) is rejected.
  c17_scan_range(data, perm, lo, hi, d)
                                     find_data_in_domain: the else-branch of `if key in self.data_bins[d]` inside `for d in
                                     range(self.dim)` (the scan over the sorted positions and the computation of data_ranges[d]).
                                     VIEWS: self.sorted_data[d] -> perm, self.data -> data, domain[d][0] -> lo, domain[d][1] -> hi,
                                     `enclosing_bin = self.find_enclosing_bin(domain[d], d)` -> `enclosing_bin = [0, len(perm)]`
                                     (find_enclosing_bin returns [0, len(self.sorted_data[dim] - 1)] = [0, M] on every path that is
                                     reachable: its test `dim in self.data_bins` compares an int with dicts; confirmed by the
                                     correspondence of every run: model bins = implementation bins),
                                     `data_ranges[d] = [A, B]` -> `return (A, B)`.
  c17_reuse_branch(point_list, old_point_list, domain_match, old_b, N, M, selected, hatvals, signs)
                                     calculate_B_dimension_wise: `b = np.zeros(N)` followed by the tail of the branch
                                     `if self.reuse_old_values and old_b_key is not None and N >= threshold:` starting at the copy
                                     loop `for p in range(len(point_list))` (copy of old entries, recomputation of the entries that
                                     are still 0, scaling).  VIEWS: `point_list[p] in old_point_list` -> py_c17_tuple_in (coq/Base/PyC17.v:
                                     membership of a float tuple in a list, componentwise exact equality); a bare tuple used as a truth
                                     value `and point_list[p]` -> `len(point_list[p]) > 0`; the statement
                                     `domain = self.get_hat_domain(point_list[i], gridPointCoordsAsStripes)` is dropped (after the other
                                     views nothing reads it); `self.find_data_in_domain(domain)` -> list(selected[i]) (a fresh list of the sample indices
                                     selected for point i); `self.hat_function_non_symmetric(hat, domain, data[x])` -> hatvals[i][x];
                                     `sign = 1.0` / `if self.classes is not None: sign = self.classes[x]` -> `sign = signs[x]`
                                     (signs = the labels, or ones).  `return b` is appended.
The synthetic methods are printed into the generated file as a comment (ast.unparse), so the reader sees what was translated.
Usage: py2gallina_c17.py [--repo DIR] [--out FILE] [--stdout]      (VERIF_REPO is respected like in the shared translator)"""
import ast as _ast
import copy
import os
import sys

sys.path.insert(0, os.path.dirname(os.path.abspath(__file__)))
import py2gallina as P          # noqa: E402

TARGET = 'densityreuse'
SRC = 'sparseSpACE/GridOperation.py'
CLASS = 'DensityEstimation'
METHODS = ['c17_init_data_bins', 'c17_scan_range', 'c17_reuse_branch']
P.NUM_TARGETS[TARGET] = dict(
    file=SRC, out='DensityReuseGen.v', prop='C17',
    classes=[dict(name=CLASS, mode='param', methods=METHODS, attrs={})],
    fuel={})

SYNTH = {}      # name -> source text of the synthetic method (for the comment in the generated file)


def rej(node, msg):
    raise P.Reject(node, 'py2gallina_c17: ' + msg)


def txt(n):
    return _ast.unparse(n)


class TextSubst(_ast.NodeTransformer):
    """replaces every expression whose source text is a key of the table (outermost first)"""
    def __init__(self, table):
        self.table = table
        self.hits = {k: 0 for k in table}

    def visit(self, node):
        if isinstance(node, _ast.expr):
            t = txt(node)
            if t in self.table:
                self.hits[t] += 1
                return _ast.copy_location(_ast.parse(self.table[t], mode='eval').body, node)
        return self.generic_visit(node)


def method(cls, name):
    for m in cls.body:
        if isinstance(m, _ast.FunctionDef) and m.name == name:
            return m
    rej(cls, 'method %s not found' % name)


def synth(name, signature, body, at):
    fn = _ast.parse('def %s:\n    pass\n' % signature).body[0]
    fn.body = body
    _ast.copy_location(fn, at)
    for n in _ast.walk(fn):
        if not hasattr(n, 'lineno'):
            _ast.copy_location(n, at)
    _ast.fix_missing_locations(fn)
    SYNTH[name] = _ast.unparse(fn)
    return fn


# ------------------------------------------------------------------------------------------------ the three blocks
def frag_init(cls):
    init = method(cls, '__init__')
    st = [s for s in _ast.walk(init) if isinstance(s, _ast.Assign) and len(s.targets) == 1 and txt(s.targets[0]) == 'self.data_bins']
    if len(st) != 1:
        rej(init, '__init__ does not assign self.data_bins exactly once')
    v = st[0].value
    if not (isinstance(v, _ast.ListComp) and txt(v.elt) == '{}' and len(v.generators) == 1 and not v.generators[0].ifs
            and isinstance(v.generators[0].target, _ast.Name) and txt(v.generators[0].iter) == 'range(dim)'):
        rej(st[0], 'self.data_bins is not `[{} for <name> in range(dim)]` (one fresh dictionary per dimension): ' + txt(v))
    comp = copy.deepcopy(v)
    comp.elt = _ast.parse('py_c17_empty_dict()', mode='eval').body          # view: empty dict = empty association list
    ret = _ast.Return(value=comp)
    return synth('c17_init_data_bins', 'c17_init_data_bins(self, dim: int) -> List[List[int]]', [ret], st[0])


def frag_scan(cls):
    fd = method(cls, 'find_data_in_domain')
    loops = [s for s in fd.body if isinstance(s, _ast.For) and txt(s.iter) == 'range(self.dim)' and txt(s.target) == 'd']
    if not loops:
        rej(fd, 'find_data_in_domain: no `for d in range(self.dim)`')
    ifs = [s for s in loops[0].body if isinstance(s, _ast.If) and txt(s.test) == 'key in self.data_bins[d]']
    if len(ifs) != 1 or not ifs[0].orelse:
        rej(loops[0], 'find_data_in_domain: `if key in self.data_bins[d]: .. else: ..` not found')
    body = copy.deepcopy(ifs[0].orelse)
    first, last = body[0], body[-1]
    if txt(first) != 'enclosing_bin = self.find_enclosing_bin(domain[d], d)':
        rej(first, 'find_data_in_domain: scan block does not start with the enclosing bin: ' + txt(first))
    if not (isinstance(last, _ast.Assign) and txt(last.targets[0]) == 'data_ranges[d]' and isinstance(last.value, _ast.List)
            and len(last.value.elts) == 2):
        rej(last, 'find_data_in_domain: scan block does not end with `data_ranges[d] = [A, B]`')
    body[0] = _ast.copy_location(_ast.parse('enclosing_bin = [0, len(perm)]').body[0], first)
    body[-1] = _ast.copy_location(_ast.Return(value=_ast.Tuple(elts=last.value.elts, ctx=_ast.Load())), last)
    ts = TextSubst({'self.sorted_data[d]': 'perm', 'self.data': 'data', 'domain[d][0]': 'lo', 'domain[d][1]': 'hi'})
    body = [ts.visit(s) for s in body]
    for s in body:
        for n in _ast.walk(s):
            if isinstance(n, _ast.Name) and n.id in ('self', 'domain', 'key', 'data_ranges'):
                rej(n, 'find_data_in_domain: scan block uses %s outside the views' % n.id)
    return synth('c17_scan_range',
                 'c17_scan_range(self, data: List[List[float]], perm: List[int], lo: float, hi: float, d: int) -> Tuple[int, int]',
                 body, ifs[0])


def frag_reuse(cls):
    cb = method(cls, 'calculate_B_dimension_wise')
    zs = [s for s in cb.body if txt(s) == 'b = np.zeros(N)']
    if len(zs) != 1:
        rej(cb, 'calculate_B_dimension_wise: `b = np.zeros(N)` not found at top level')
    brs = [s for s in cb.body if isinstance(s, _ast.If)
           and txt(s.test) == 'self.reuse_old_values and old_b_key is not None and (N >= threshold)']
    if len(brs) != 1:
        rej(cb, 'calculate_B_dimension_wise: re-use branch `if self.reuse_old_values and old_b_key is not None and N >= threshold` not found')
    br = brs[0]
    start = [k for k, s in enumerate(br.body) if isinstance(s, _ast.For) and txt(s.target) == 'p' and txt(s.iter) == 'range(len(point_list))']
    if len(start) != 1:
        rej(br, 'calculate_B_dimension_wise: copy loop `for p in range(len(point_list))` not found in the re-use branch')
    # what precedes the copy loop only prepares old_b / old_point_list / domain_match (parameters of the fragment) and must not touch b
    for s in br.body[:start[0]]:
        for n in _ast.walk(s):
            if isinstance(n, _ast.Name) and n.id == 'b':
                rej(n, 'calculate_B_dimension_wise: b is used before the copy loop')
    # between `b = np.zeros(N)` and the re-use branch b must not be touched either
    i0, i1 = cb.body.index(zs[0]), cb.body.index(br)
    for s in cb.body[i0 + 1:i1]:
        for n in _ast.walk(s):
            if isinstance(n, _ast.Name) and n.id == 'b':
                rej(n, 'calculate_B_dimension_wise: b is used between its creation and the re-use branch')
    body = [copy.deepcopy(zs[0])] + copy.deepcopy(br.body[start[0]:])

    class Views(_ast.NodeTransformer):
        def __init__(self):
            self.dropped = 0

        def visit_BoolOp(self, n):
            n = self.generic_visit(n)
            if isinstance(n.op, _ast.And):
                n.values = [(_ast.copy_location(_ast.parse('len(point_list[p]) > 0', mode='eval').body, v)
                             if txt(v) == 'point_list[p]' else v) for v in n.values]
            return n

        def visit_Compare(self, n):
            if txt(n) == 'point_list[p] in old_point_list':
                return _ast.copy_location(_ast.parse('py_c17_tuple_in(point_list[p], old_point_list)', mode='eval').body, n)
            return self.generic_visit(n)

        def block(self, stmts):
            out = []
            k = 0
            while k < len(stmts):
                s = stmts[k]
                if txt(s) == 'domain = self.get_hat_domain(point_list[i], gridPointCoordsAsStripes)':
                    self.dropped += 1
                    k += 1
                    continue
                if txt(s) == 'sign = 1.0' and k + 1 < len(stmts) and isinstance(stmts[k + 1], _ast.If) \
                        and txt(stmts[k + 1].test) == 'self.classes is not None' and not stmts[k + 1].orelse \
                        and [txt(t) for t in stmts[k + 1].body] == ['sign = self.classes[x]']:
                    out.append(_ast.copy_location(_ast.parse('sign = signs[x]').body[0], s))
                    k += 2
                    continue
                for f in ('body', 'orelse'):
                    if isinstance(getattr(s, f, None), list) and not isinstance(s, _ast.expr):
                        setattr(s, f, self.block(getattr(s, f)))
                out.append(s)
                k += 1
            return out
    vw = Views()
    body = vw.block(body)
    body = [vw.visit(s) for s in body]
    ts = TextSubst({'self.find_data_in_domain(domain)': 'list(selected[i])',
                    'self.hat_function_non_symmetric(hat, domain, data[x])': 'hatvals[i][x]'})
    body = [ts.visit(s) for s in body]
    for s in body:
        for n in _ast.walk(s):
            if isinstance(n, _ast.Name) and n.id in ('self', 'domain', 'data', 'gridPointCoordsAsStripes'):
                rej(n, 'calculate_B_dimension_wise: re-use block uses %s outside the views' % n.id)
    body.append(_ast.copy_location(_ast.parse('return b').body[0], br))
    return synth('c17_reuse_branch',
                 'c17_reuse_branch(self, point_list: List[Tuple[float, ...]], old_point_list: List[Tuple[float, ...]], '
                 'domain_match: List[int], old_b: List[float], N: int, M: int, selected: List[List[int]], '
                 'hatvals: List[List[float]], signs: List[float]) -> List[float]', body, br)


class _AstProxy(object):
    """the module `ast` as seen by the shared translator: parse() of the target file appends the synthetic methods to the class"""
    def __getattr__(self, name):
        return getattr(_ast, name)

    def parse(self, src, *a, **k):
        mod = _ast.parse(src, *a, **k)
        if isinstance(mod, _ast.Module):
            for st in mod.body:
                if isinstance(st, _ast.ClassDef) and st.name == CLASS and not any(
                        isinstance(m, _ast.FunctionDef) and m.name in METHODS for m in st.body):
                    st.body += [frag_init(st), frag_scan(st), frag_reuse(st)]
        return mod


_BaseFn = P.NumFnTranslator
TUPF = ('tuple', P.FLOAT)


class C17FnTranslator(_BaseFn):
    def call(self, c, env):
        fn = c.func
        if self.tr.tname == TARGET and isinstance(fn, _ast.Name) and fn.id == 'py_c17_tuple_in' and fn.id not in env:
            b0, t0, ty0 = self.expr(c.args[0], env)
            b1, t1, ty1 = self.expr(c.args[1], env)
            self.need(ty0 == TUPF and ty1 == ('list', TUPF), c, 'py_c17_tuple_in of %s, %s' % (ty0, ty1))
            return b0 + b1, '(py_c17_tuple_in %s %s)' % (t0, t1), P.BOOL
        if self.tr.tname == TARGET and isinstance(fn, _ast.Name) and fn.id == 'py_c17_empty_dict' and fn.id not in env and not c.args:
            return [], 'py_c17_empty_dict', ('list', ('list', P.FLOAT))
        return _BaseFn.call(self, c, env)


P.NumFnTranslator = C17FnTranslator
_render = P.render_num


def render_c17(tr, fns):
    text = _render(tr, fns)
    if tr.tname == TARGET:
        old = 'From SG Require Import Base.QcUtil Base.PyLib Base.PyNum.'
        if old not in text:
            raise P.Reject(_ast.parse('0'), 'header of the shared translator changed (front end py2gallina_c17.py must follow)')
        text = text.replace(old, old[:-1] + ' Base.PyC17.', 1)
        text = text.replace('harness/translate/py2gallina.py --target ' + TARGET, 'harness/translate/py2gallina_c17.py', 1)
        doc = ['(* The synthetic methods cut out of %s by harness/translate/py2gallina_c17.py (what the shared translator saw):' % SRC]
        for m in METHODS:
            doc.append('   --- ' + m)
            for ln in SYNTH.get(m, '').splitlines():
                doc.append('   | ' + ln.replace('(*', '( *').replace('*)', '* )'))
        doc.append('*)')
        text = text + '\n' + '\n'.join(doc) + '\n'
    return text


P.render_num = render_c17


def main(argv):
    args = ['--target', TARGET]
    i = 0
    while i < len(argv):
        if argv[i] in ('--repo', '--out') and i + 1 < len(argv):
            args += argv[i:i + 2]; i += 2
        elif argv[i] == '--stdout':
            args.append('--stdout'); i += 1
        else:
            sys.stderr.write(__doc__)
            return 2
    P.ast = _AstProxy()
    try:
        return P.main(args)
    finally:
        P.ast = _ast


if __name__ == '__main__':
    sys.exit(main(sys.argv[1:]))
