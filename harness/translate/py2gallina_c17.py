#!/usr/bin/env python3
"""Source-derived model for property C17: FRAGMENTS of the right-hand-side re-use code of sparseSpACE/GridOperation.py (class
DensityEstimation) -> coq/Gen/DensityReuseGen.v.

A thin front end of the shared translator harness/translate/py2gallina.py (imported, NOT modified; the target is registered in
memory only).  The methods that hold the re-use logic (calculate_B_dimension_wise, find_data_in_domain, __init__) are far outside
the translated subset as a whole (numpy broadcasting, string-keyed dictionaries, attribute writes, calls into the grid).  This
front end therefore cuts three STATEMENT BLOCKS out of their ASTs, turns each into a synthetic method of the class and hands these
to the shared translator.  Everything is fail closed: a block that is not found in the expected place, or an expression inside a
block that is neither covered by one of the VIEWS below nor inside the subset of the shared translator, rejects (the generated
file becomes a stub that does not compile).  A change INSIDE a block that stays in the subset is translated as it stands - and
then the equivalence theorems of coq/Proofs/GenDensityReuseEq.v (Props/C17gen.v) no longer hold.

  c17_init_data_bins(dim)            __init__: the statement `self.data_bins = E`.  E must be the list comprehension
                                     `[{} for d in range(dim)]` (an empty dict is VIEWED as the empty association list py_c17_empty_dict of coq/Base/PyC17.v); any other
                                     right-hand side (e.g. `[{}] * dim`, which aliases one dict) is rejected.
  c17_scan_range(data, perm, lo, hi, d)
                                     find_data_in_domain: the else-branch of `if key in self.data_bins[d]` inside `for d in
                                     range(self.dim)` (the scan over the sorted positions and the computation of data_ranges[d]).
                                     VIEWS: self.sorted_data[d] -> perm, self.data -> data, domain[d][0] -> lo, domain[d][1] -> hi,
                                     `enclosing_bin = self.find_enclosing_bin(domain[d], d)` -> `enclosing_bin = [0, len(perm)]`
                                     (find_enclosing_bin returns [0, len(self.sorted_data[dim] - 1)] = [0, M] on every path that is
                                     reachable: its test `dim in self.data_bins` compares an int with dicts; confirmed by the
                                     correspondence of every run: model bins = implementation bins),
                                     `data_ranges[d] = [A, B]` -> `return (A, B)`.
  c17_reuse_branch(point_list, old_point_list, domain_match, old_b, N, M, selected, hatvals, signs)
                                     calculate_B_dimension_wise: `b = np.zeros(N)` followed by the tail of the branch
                                     `if self.reuse_old_values and old_b_key is not None and N >= threshold:` starting at the copy
                                     loop `for p in range(len(point_list))` (copy of old entries, recomputation of the entries that
                                     are still 0, scaling).  VIEWS: `point_list[p] in old_point_list` -> py_c17_tuple_in (coq/Base/PyC17.v:
                                     membership of a float tuple in a list, componentwise exact equality); a bare tuple used as a truth
                                     value `and point_list[p]` -> `len(point_list[p]) > 0`; the statement
                                     `domain = self.get_hat_domain(point_list[i], gridPointCoordsAsStripes)` is dropped (after the other
                                     views nothing reads it); `self.find_data_in_domain(domain)` -> list(selected[i]) (a fresh list of the sample indices
                                     selected for point i); `self.hat_function_non_symmetric(hat, domain, data[x])` -> hatvals[i][x];
                                     `sign = 1.0` / `if self.classes is not None: sign = self.classes[x]` -> `sign = signs[x]`
                                     (signs = the labels, or ones).  `return b` is appended.
  c17_post_processing(new_B, new_grid_coord)
                                     post_processing (found in the class or a base class in the module): the body of its leading
                                     `if self.reuse_old_values:` (hand-over new_B -> old_B, new_grid_coord -> old_grid_coord, both new
                                     dictionaries emptied); `assert len(new_B) + len(new_grid_coord) == 0` and `return (old_B, old_grid_coord)` are appended: the
                                     generated function has a result only if the block empties both new dictionaries.
  c17_find_closest_old_B(old_B, old_grid_coord, gridPointCoordinatesAsStripes, dim)
                                     find_closest_old_B up to `closest_match_key = ..` and the final `return closest_match_key`; the
                                     statements in between / after it (new_coordinates_indices = .., new_coordinates, new_points and the
                                     loop that fills new_points) only compute values that are never used and are dropped (their exact
                                     texts are checked; they index lists with indices that exist by construction and call
                                     get_cross_product, so they do not raise).
                                     DICTIONARY VIEWS of these two fragments: the dictionaries self.old_B / self.new_B / self.old_grid_coord /
                                     self.new_grid_coord become locals / parameters (attribute path -> name); their keys, the strings
                                     str(max_levels), are only looked up, inserted and returned here - they are VIEWED as the int tuples
                                     max_levels (str is injective on int lists), so the dictionaries are the association lists of
                                     Base/PyLib.v; `for key in D.keys()` -> `for key, c17_vN in D.items()`;
                                     a read-only alias `old_coordinates = old_grid_coord[key]` is inlined; `x not in <list of floats>` ->
                                     not py_c17_float_in(x, l); `l.index(x)` on floats -> py_c17_float_index(l, x) (coq/Base/PyC17.v);
                                     `L.append([])` followed by a loop that only does `L[d].append(e)` (d = the current last index: L is
                                     empty before `for d in range(..)`) -> a local row that is appended (copied) after the loop;
                                     `S.append(L)` of a local list L that is rebound before its next use -> `S.append(list(L))`.
The synthetic methods are printed into the generated file as a comment (ast.unparse), so the reader sees what was translated.
Usage: py2gallina_c17.py [--repo DIR] [--out FILE] [--stdout]      (VERIF_REPO is respected like in the shared translator)"""
import ast as _ast
import copy
import os
import sys

sys.path.insert(0, os.path.dirname(os.path.abspath(__file__)))
import py2gallina as P          # noqa: E402

TARGET = 'densityreuse'
SRC = 'sparseSpACE/GridOperation.py'
CLASS = 'DensityEstimation'
METHODS = ['c17_init_data_bins', 'c17_scan_range', 'c17_reuse_branch', 'c17_post_processing', 'c17_find_closest_old_B']
P.NUM_TARGETS[TARGET] = dict(
    file=SRC, out='DensityReuseGen.v', prop='C17',
    classes=[dict(name=CLASS, mode='param', methods=METHODS, attrs={})],
    fuel={})

SYNTH = {}      # name -> source text of the synthetic method (for the comment in the generated file)


def rej(node, msg):
    raise P.Reject(node, 'py2gallina_c17: ' + msg)


def txt(n):
    return _ast.unparse(n)


class TextSubst(_ast.NodeTransformer):
    """replaces every expression whose source text is a key of the table (outermost first)"""
    def __init__(self, table):
        self.table = table
        self.hits = {k: 0 for k in table}

    def visit(self, node):
        if isinstance(node, _ast.expr):
            t = txt(node)
            if t in self.table:
                self.hits[t] += 1
                return _ast.copy_location(_ast.parse(self.table[t], mode='eval').body, node)
        return self.generic_visit(node)


def method(cls, name):
    for m in cls.body:
        if isinstance(m, _ast.FunctionDef) and m.name == name:
            return m
    rej(cls, 'method %s not found' % name)


def synth(name, signature, body, at):
    fn = _ast.parse('def %s:\n    pass\n' % signature).body[0]
    fn.body = body
    _ast.copy_location(fn, at)
    for n in _ast.walk(fn):
        if not hasattr(n, 'lineno'):
            _ast.copy_location(n, at)
    _ast.fix_missing_locations(fn)
    SYNTH[name] = _ast.unparse(fn)
    return fn


# ------------------------------------------------------------------------------------------------ the three blocks
def frag_init(cls):
    init = method(cls, '__init__')
    st = [s for s in _ast.walk(init) if isinstance(s, _ast.Assign) and len(s.targets) == 1 and txt(s.targets[0]) == 'self.data_bins']
    if len(st) != 1:
        rej(init, '__init__ does not assign self.data_bins exactly once')
    v = st[0].value
    if not (isinstance(v, _ast.ListComp) and txt(v.elt) == '{}' and len(v.generators) == 1 and not v.generators[0].ifs
            and isinstance(v.generators[0].target, _ast.Name) and txt(v.generators[0].iter) == 'range(dim)'):
        rej(st[0], 'self.data_bins is not `[{} for <name> in range(dim)]` (one fresh dictionary per dimension): ' + txt(v))
    comp = copy.deepcopy(v)
    comp.elt = _ast.parse('py_c17_empty_dict()', mode='eval').body          # view: empty dict = empty association list
    ret = _ast.Return(value=comp)
    return synth('c17_init_data_bins', 'c17_init_data_bins(self, dim: int) -> List[List[int]]', [ret], st[0])


def frag_scan(cls):
    fd = method(cls, 'find_data_in_domain')
    loops = [s for s in fd.body if isinstance(s, _ast.For) and txt(s.iter) == 'range(self.dim)' and txt(s.target) == 'd']
    if not loops:
        rej(fd, 'find_data_in_domain: no `for d in range(self.dim)`')
    ifs = [s for s in loops[0].body if isinstance(s, _ast.If) and txt(s.test) == 'key in self.data_bins[d]']
    if len(ifs) != 1 or not ifs[0].orelse:
        rej(loops[0], 'find_data_in_domain: `if key in self.data_bins[d]: .. else: ..` not found')
    body = copy.deepcopy(ifs[0].orelse)
    first, last = body[0], body[-1]
    if txt(first) != 'enclosing_bin = self.find_enclosing_bin(domain[d], d)':
        rej(first, 'find_data_in_domain: scan block does not start with the enclosing bin: ' + txt(first))
    if not (isinstance(last, _ast.Assign) and txt(last.targets[0]) == 'data_ranges[d]' and isinstance(last.value, _ast.List)
            and len(last.value.elts) == 2):
        rej(last, 'find_data_in_domain: scan block does not end with `data_ranges[d] = [A, B]`')
    body[0] = _ast.copy_location(_ast.parse('enclosing_bin = [0, len(perm)]').body[0], first)
    body[-1] = _ast.copy_location(_ast.Return(value=_ast.Tuple(elts=last.value.elts, ctx=_ast.Load())), last)
    ts = TextSubst({'self.sorted_data[d]': 'perm', 'self.data': 'data', 'domain[d][0]': 'lo', 'domain[d][1]': 'hi'})
    body = [ts.visit(s) for s in body]
    for s in body:
        for n in _ast.walk(s):
            if isinstance(n, _ast.Name) and n.id in ('self', 'domain', 'key', 'data_ranges'):
                rej(n, 'find_data_in_domain: scan block uses %s outside the views' % n.id)
    return synth('c17_scan_range',
                 'c17_scan_range(self, data: List[List[float]], perm: List[int], lo: float, hi: float, d: int) -> Tuple[int, int]',
                 body, ifs[0])


def frag_reuse(cls):
    cb = method(cls, 'calculate_B_dimension_wise')
    zs = [s for s in cb.body if txt(s) == 'b = np.zeros(N)']
    if len(zs) != 1:
        rej(cb, 'calculate_B_dimension_wise: `b = np.zeros(N)` not found at top level')
    brs = [s for s in cb.body if isinstance(s, _ast.If)
           and txt(s.test) == 'self.reuse_old_values and old_b_key is not None and (N >= threshold)']
    if len(brs) != 1:
        rej(cb, 'calculate_B_dimension_wise: re-use branch `if self.reuse_old_values and old_b_key is not None and N >= threshold` not found')
    br = brs[0]
    start = [k for k, s in enumerate(br.body) if isinstance(s, _ast.For) and txt(s.target) == 'p' and txt(s.iter) == 'range(len(point_list))']
    if len(start) != 1:
        rej(br, 'calculate_B_dimension_wise: copy loop `for p in range(len(point_list))` not found in the re-use branch')
    # what precedes the copy loop only prepares old_b / old_point_list / domain_match (parameters of the fragment) and must not touch b
    for s in br.body[:start[0]]:
        for n in _ast.walk(s):
            if isinstance(n, _ast.Name) and n.id == 'b':
                rej(n, 'calculate_B_dimension_wise: b is used before the copy loop')
    # between `b = np.zeros(N)` and the re-use branch b must not be touched either
    i0, i1 = cb.body.index(zs[0]), cb.body.index(br)
    for s in cb.body[i0 + 1:i1]:
        for n in _ast.walk(s):
            if isinstance(n, _ast.Name) and n.id == 'b':
                rej(n, 'calculate_B_dimension_wise: b is used between its creation and the re-use branch')
    body = [copy.deepcopy(zs[0])] + copy.deepcopy(br.body[start[0]:])

    class Views(_ast.NodeTransformer):
        def __init__(self):
            self.dropped = 0

        def visit_BoolOp(self, n):
            n = self.generic_visit(n)
            if isinstance(n.op, _ast.And):
                n.values = [(_ast.copy_location(_ast.parse('len(point_list[p]) > 0', mode='eval').body, v)
                             if txt(v) == 'point_list[p]' else v) for v in n.values]
            return n

        def visit_Compare(self, n):
            if txt(n) == 'point_list[p] in old_point_list':
                return _ast.copy_location(_ast.parse('py_c17_tuple_in(point_list[p], old_point_list)', mode='eval').body, n)
            return self.generic_visit(n)

        def block(self, stmts):
            out = []
            k = 0
            while k < len(stmts):
                s = stmts[k]
                if txt(s) == 'domain = self.get_hat_domain(point_list[i], gridPointCoordsAsStripes)':
                    self.dropped += 1
                    k += 1
                    continue
                if txt(s) == 'sign = 1.0' and k + 1 < len(stmts) and isinstance(stmts[k + 1], _ast.If) \
                        and txt(stmts[k + 1].test) == 'self.classes is not None' and not stmts[k + 1].orelse \
                        and [txt(t) for t in stmts[k + 1].body] == ['sign = self.classes[x]']:
                    out.append(_ast.copy_location(_ast.parse('sign = signs[x]').body[0], s))
                    k += 2
                    continue
                for f in ('body', 'orelse'):
                    if isinstance(getattr(s, f, None), list) and not isinstance(s, _ast.expr):
                        setattr(s, f, self.block(getattr(s, f)))
                out.append(s)
                k += 1
            return out
    vw = Views()
    body = vw.block(body)
    body = [vw.visit(s) for s in body]
    ts = TextSubst({'self.find_data_in_domain(domain)': 'list(selected[i])',
                    'self.hat_function_non_symmetric(hat, domain, data[x])': 'hatvals[i][x]'})
    body = [ts.visit(s) for s in body]
    for s in body:
        for n in _ast.walk(s):
            if isinstance(n, _ast.Name) and n.id in ('self', 'domain', 'data', 'gridPointCoordsAsStripes'):
                rej(n, 'calculate_B_dimension_wise: re-use block uses %s outside the views' % n.id)
    body.append(_ast.copy_location(_ast.parse('return b').body[0], br))
    return synth('c17_reuse_branch',
                 'c17_reuse_branch(self, point_list: List[Tuple[float, ...]], old_point_list: List[Tuple[float, ...]], '
                 'domain_match: List[int], old_b: List[float], N: int, M: int, selected: List[List[int]], '
                 'hatvals: List[List[float]], signs: List[float]) -> List[float]', body, br)


class SelfToLocal(_ast.NodeTransformer):
    """self.<attr> -> <attr> for the listed attributes (both loads and stores)"""
    def __init__(self, names):
        self.names = names

    def visit_Attribute(self, a):
        if isinstance(a.value, _ast.Name) and a.value.id == 'self' and a.attr in self.names:
            return _ast.copy_location(_ast.Name(id=a.attr, ctx=a.ctx), a)
        return self.generic_visit(a)


class KeysToItems(_ast.NodeTransformer):
    def __init__(self):
        self.n = 0

    def visit_For(self, f):
        f = self.generic_visit(f)
        if isinstance(f.iter, _ast.Call) and isinstance(f.iter.func, _ast.Attribute) and f.iter.func.attr == 'keys' \
                and not f.iter.args and isinstance(f.iter.func.value, _ast.Name) and isinstance(f.target, _ast.Name):
            self.n += 1
            f.iter = _ast.copy_location(_ast.parse('%s.items()' % f.iter.func.value.id, mode='eval').body, f.iter)
            f.target = _ast.copy_location(_ast.Tuple(elts=[f.target, _ast.Name(id='c17_v%d' % self.n, ctx=_ast.Store())],
                                                     ctx=_ast.Store()), f.target)
        return f


def frag_post(mod, cls):
    pp = None
    for st in mod.body:
        if isinstance(st, _ast.ClassDef):
            for m in st.body:
                if isinstance(m, _ast.FunctionDef) and m.name == 'post_processing' and any(
                        isinstance(s, _ast.If) and txt(s.test) == 'self.reuse_old_values' for s in m.body):
                    if pp is not None:
                        rej(m, 'two post_processing methods with a re-use block')
                    pp = m
    if pp is None:
        rej(cls, 'post_processing with `if self.reuse_old_values:` not found')
    blk = [s for s in pp.body if isinstance(s, _ast.If) and txt(s.test) == 'self.reuse_old_values']
    if len(blk) != 1 or blk[0].orelse:
        rej(pp, 'post_processing: exactly one `if self.reuse_old_values:` without else expected')
    # nothing else in post_processing may touch the four dictionaries
    for s in pp.body:
        if s is blk[0]:
            continue
        for n in _ast.walk(s):
            if isinstance(n, _ast.Attribute) and n.attr in ('old_B', 'new_B', 'old_grid_coord', 'new_grid_coord'):
                rej(n, 'post_processing: %s is used outside the re-use block' % n.attr)
    names = ('old_B', 'new_B', 'old_grid_coord', 'new_grid_coord')
    body = [SelfToLocal(names).visit(copy.deepcopy(s)) for s in blk[0].body]
    kt = KeysToItems()
    body = [kt.visit(s) for s in body]
    # an empty dictionary assigned to one of the two NEW dictionaries keeps their declared type (typed empty association list)
    for k, s_ in enumerate(body):
        if isinstance(s_, _ast.Assign) and len(s_.targets) == 1 and txt(s_.value) == '{}' and txt(s_.targets[0]) in ('new_B', 'new_grid_coord'):
            body[k] = _ast.copy_location(_ast.parse('%s = py_c17_empty_%s()' % (txt(s_.targets[0]), txt(s_.targets[0]))).body[0], s_)
    for s in body:
        for n in _ast.walk(s):
            if isinstance(n, _ast.Name) and n.id == 'self':
                rej(n, 'post_processing: re-use block uses self outside the views')
    body.append(_ast.copy_location(_ast.parse('assert len(new_B) + len(new_grid_coord) == 0').body[0], blk[0]))
    body.append(_ast.copy_location(_ast.parse('return (old_B, old_grid_coord)').body[0], blk[0]))
    return synth('c17_post_processing',
                 'c17_post_processing(self, new_B: Dict[Tuple[int, ...], List[float]], '
                 'new_grid_coord: Dict[Tuple[int, ...], List[List[float]]])', body, blk[0])


DEAD_TAIL = ['new_coordinates_indices = new_coordinate_sets[differences.index(min(differences))]',
             'new_coordinates = [[gridPointCoordinatesAsStripes[d][x] for x in new_coordinates_indices[d]] for d in range(self.dim)]',
             'new_points = []']


def frag_closest(cls):
    fc = method(cls, 'find_closest_old_B')
    body = [s for s in fc.body if not (isinstance(s, _ast.Expr) and isinstance(s.value, _ast.Constant))]
    if not (body and txt(body[-1]) == 'return closest_match_key'):
        rej(fc, 'find_closest_old_B does not end with `return closest_match_key`')
    kept, dead = [], []
    for s in body[:-1]:
        t = txt(s)
        if t in DEAD_TAIL:
            dead.append(s)
        elif isinstance(s, _ast.For) and txt(s.iter) == 'range(self.dim)' and len(s.body) == 1 and isinstance(s.body[0], _ast.If) \
                and txt(s.body[0].test) == 'len(new_coordinates[d]) > 0' and kept and txt(kept[-1]).startswith('closest_match_key = '):
            dead.append(s)          # the loop that fills new_points
        else:
            kept.append(s)
    deadnames = set()
    for s in dead:
        for n in _ast.walk(s):
            if isinstance(n, _ast.Name) and isinstance(n.ctx, _ast.Store):
                deadnames.add(n.id)
    deadnames -= {'d', 'x'}
    # a dropped statement may only feed other dropped statements: after the first dropped one no kept statement reads their names
    seen_dead = False
    for s in body[:-1]:
        if s in dead:
            seen_dead = True
        elif seen_dead:
            for n in _ast.walk(s):
                if isinstance(n, _ast.Name) and isinstance(n.ctx, _ast.Load) and n.id in deadnames:
                    rej(n, 'find_closest_old_B: %s (computed by a dropped statement) is used' % n.id)
    if len(dead) != 4:
        rej(fc, 'find_closest_old_B: the unused tail is not the expected four statements (%d found)' % len(dead))
    body = [copy.deepcopy(s) for s in kept] + [copy.deepcopy(body[-1])]
    body = [SelfToLocal(('old_B', 'old_grid_coord', 'dim')).visit(s) for s in body]
    kt = KeysToItems()
    body = [kt.visit(s) for s in body]

    class Norm(_ast.NodeTransformer):
        def __init__(self):
            self.alias = None

        def block(self, stmts):
            out = []
            k = 0
            while k < len(stmts):
                s = stmts[k]
                # read-only alias of a dictionary entry: inlined
                if txt(s) == 'old_coordinates = old_grid_coord[key]':
                    self.alias = True
                    k += 1
                    continue
                # L.append([]) + loop over i that only appends to L[d]
                if isinstance(s, _ast.Expr) and txt(s) == 'new_coordinates_indices.append([])' and k + 1 < len(stmts) \
                        and isinstance(stmts[k + 1], _ast.For):
                    loop = stmts[k + 1]
                    uses = [n for n in _ast.walk(loop) if isinstance(n, _ast.Name) and n.id == 'new_coordinates_indices']
                    apps = [n for n in _ast.walk(loop) if isinstance(n, _ast.Call) and txt(n.func) == 'new_coordinates_indices[d].append']
                    if len(uses) != len(apps) or not apps:
                        rej(loop, 'find_closest_old_B: new_coordinates_indices is used other than by new_coordinates_indices[d].append(..)')

                    class Row(_ast.NodeTransformer):
                        def visit_Call(self, c):
                            c = self.generic_visit(c)
                            if txt(c.func) == 'new_coordinates_indices[d].append':
                                c.func = _ast.copy_location(_ast.parse('c17_row.append', mode='eval').body, c.func)
                            return c
                    out.append(_ast.copy_location(_ast.parse('c17_row = []').body[0], s))
                    out.append(Row().visit(loop))
                    out.append(_ast.copy_location(_ast.parse('new_coordinates_indices.append(list(c17_row))').body[0], s))
                    k += 2
                    continue
                if txt(s) == 'new_coordinate_sets.append(new_coordinates_indices)':
                    out.append(_ast.copy_location(_ast.parse('new_coordinate_sets.append(list(new_coordinates_indices))').body[0], s))
                    k += 1
                    continue
                for f in ('body', 'orelse'):
                    if isinstance(getattr(s, f, None), list) and not isinstance(s, _ast.expr):
                        setattr(s, f, self.block(getattr(s, f)))
                out.append(s)
                k += 1
            return out
    nm = Norm()
    body = nm.block(body)
    # the loop over d must start from an empty list (the row index d is then the last index)
    src = '\n'.join(txt(s) for s in body)
    if 'new_coordinates_indices = []\n' not in src + '\n' and 'new_coordinates_indices = []' not in src:
        rej(fc, 'find_closest_old_B: new_coordinates_indices is not initialised with []')
    ts = TextSubst({'old_coordinates[d]': 'old_grid_coord[key][d]'})
    body = [ts.visit(s) for s in body]

    class Floats(_ast.NodeTransformer):
        def visit_Compare(self, n):
            if len(n.ops) == 1 and isinstance(n.ops[0], _ast.NotIn) and txt(n.comparators[0]) == 'old_grid_coord[key][d]':
                return _ast.copy_location(_ast.parse('not py_c17_float_in(%s, old_grid_coord[key][d])' % txt(n.left), mode='eval').body, n)
            return self.generic_visit(n)

        def visit_Call(self, c):
            c = self.generic_visit(c)
            if isinstance(c.func, _ast.Attribute) and c.func.attr == 'index' and txt(c.func.value) == 'gridPointCoordinatesAsStripes[d]' \
                    and len(c.args) == 1:
                return _ast.copy_location(_ast.parse('py_c17_float_index(gridPointCoordinatesAsStripes[d], %s)' % txt(c.args[0]), mode='eval').body, c)
            return c
    body = [Floats().visit(s) for s in body]
    for s in body:
        for n in _ast.walk(s):
            if isinstance(n, _ast.Name) and n.id in ('self', 'old_coordinates'):
                rej(n, 'find_closest_old_B: uses %s outside the views' % n.id)
    return synth('c17_find_closest_old_B',
                 'c17_find_closest_old_B(self, old_B: Dict[Tuple[int, ...], List[float]], '
                 'old_grid_coord: Dict[Tuple[int, ...], List[List[float]]], gridPointCoordinatesAsStripes: List[List[float]], dim: int)',
                 body, fc)



class _AstProxy(object):
    """the module `ast` as seen by the shared translator: parse() of the target file appends the synthetic methods to the class"""
    def __getattr__(self, name):
        return getattr(_ast, name)

    def parse(self, src, *a, **k):
        mod = _ast.parse(src, *a, **k)
        if isinstance(mod, _ast.Module):
            for st in mod.body:
                if isinstance(st, _ast.ClassDef) and st.name == CLASS and not any(
                        isinstance(m, _ast.FunctionDef) and m.name in METHODS for m in st.body):
                    st.body += [frag_init(st), frag_scan(st), frag_reuse(st), frag_post(mod, st), frag_closest(st)]
        return mod


_BaseTr = P.NumTranslator


class C17Translator(_BaseTr):
    def ann(self, a, node):
        if self.tname == TARGET and isinstance(a, _ast.Subscript) and isinstance(a.value, _ast.Name) and a.value.id == 'Dict' \
                and isinstance(a.slice, _ast.Tuple) and len(a.slice.elts) == 2 and txt(a.slice.elts[0]) == 'Tuple[int, ...]':
            return ('dict', P.TUPI, self.ann(a.slice.elts[1], node))
        return _BaseTr.ann(self, a, node)


P.NumTranslator = C17Translator
_BaseFn = P.NumFnTranslator
TUPF = ('tuple', P.FLOAT)


class C17FnTranslator(_BaseFn):
    def call(self, c, env):
        fn = c.func
        if self.tr.tname == TARGET and isinstance(fn, _ast.Name) and fn.id == 'py_c17_tuple_in' and fn.id not in env:
            b0, t0, ty0 = self.expr(c.args[0], env)
            b1, t1, ty1 = self.expr(c.args[1], env)
            self.need(ty0 == TUPF and ty1 == ('list', TUPF), c, 'py_c17_tuple_in of %s, %s' % (ty0, ty1))
            return b0 + b1, '(py_c17_tuple_in %s %s)' % (t0, t1), P.BOOL
        if self.tr.tname == TARGET and isinstance(fn, _ast.Name) and fn.id in ('py_c17_float_in', 'py_c17_float_index') and fn.id not in env:
            b0, t0, ty0 = self.expr(c.args[0], env)
            b1, t1, ty1 = self.expr(c.args[1], env)
            if fn.id == 'py_c17_float_in':
                self.need(ty0 == P.FLOAT and ty1 == ('list', P.FLOAT), c, 'py_c17_float_in of %s, %s' % (ty0, ty1))
                return b0 + b1, '(py_c17_float_in %s %s)' % (t0, t1), P.BOOL
            self.need(ty0 == ('list', P.FLOAT) and ty1 == P.FLOAT, c, 'py_c17_float_index of %s, %s' % (ty0, ty1))
            v = self.temp()
            return b0 + b1 + [(v, 'py_c17_float_index %s %s' % (t0, t1))], v, P.INT
        if self.tr.tname == TARGET and isinstance(fn, _ast.Name) and fn.id in ('py_c17_empty_new_B', 'py_c17_empty_new_grid_coord') \
                and fn.id not in env and not c.args:
            vt = ('list', P.FLOAT) if fn.id == 'py_c17_empty_new_B' else ('list', ('list', P.FLOAT))
            return [], ('(@nil (list Z * list Qc))' if fn.id == 'py_c17_empty_new_B' else '(@nil (list Z * list (list Qc)))'), ('dict', P.TUPI, vt)
        if self.tr.tname == TARGET and isinstance(fn, _ast.Name) and fn.id == 'py_c17_empty_dict' and fn.id not in env and not c.args:
            return [], 'py_c17_empty_dict', ('list', ('list', P.FLOAT))
        return _BaseFn.call(self, c, env)


P.NumFnTranslator = C17FnTranslator
_render = P.render_num


def render_c17(tr, fns):
    text = _render(tr, fns)
    if tr.tname == TARGET:
        old = 'From SG Require Import Base.QcUtil Base.PyLib Base.PyNum.'
        if old not in text:
            raise P.Reject(_ast.parse('0'), 'header of the shared translator changed (front end py2gallina_c17.py must follow)')
        text = text.replace(old, old[:-1] + ' Base.PyC17.', 1)
        text = text.replace('harness/translate/py2gallina.py --target ' + TARGET, 'harness/translate/py2gallina_c17.py', 1)
        # the shared renderer prints `return x` of a "value or None" function as `Ret Some x` (missing parentheses): repaired here
        import re as _re
        text = _re.sub(r'\bRet Some (\w+)\)', r'Ret (Some \1))', text)
        doc = ['(* The synthetic methods cut out of %s by harness/translate/py2gallina_c17.py (what the shared translator saw):' % SRC]
        for m in METHODS:
            doc.append('   --- ' + m)
            for ln in SYNTH.get(m, '').splitlines():
                doc.append('   | ' + ln.replace('(*', '( *').replace('*)', '* )'))
        doc.append('*)')
        text = text + '\n' + '\n'.join(doc) + '\n'
    return text


P.render_num = render_c17


def main(argv):
    args = ['--target', TARGET]
    i = 0
    while i < len(argv):
        if argv[i] in ('--repo', '--out') and i + 1 < len(argv):
            args += argv[i:i + 2]; i += 2
        elif argv[i] == '--stdout':
            args.append('--stdout'); i += 1
        else:
            sys.stderr.write(__doc__)
            return 2
    P.ast = _AstProxy()
    try:
        return P.main(args)
    finally:
        P.ast = _ast


if __name__ == '__main__':
    sys.exit(main(sys.argv[1:]))
