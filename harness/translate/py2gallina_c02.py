#!/usr/bin/env python3
"""Source-derived model for property C02: TrapezoidalGrid1D (sparseSpACE/Grid.py) -> coq/Gen/TrapGrid1DGen.v.

A thin front end of the shared translator harness/translate/py2gallina.py (imported, NOT modified; its outputs for the existing
targets are untouched because nothing is written there). What this front end adds, all fail-closed:
  * target `trap1d` (param mode, see NUM_DOC of the translator): the 1D methods the C02 hand model covers -
    TrapezoidalGrid1D.level_to_num_points_1d, .weight_composite_trapezoidal, .get_1d_weight and the inherited
    Grid1d.get_1D_level_weights seen from TrapezoidalGrid1D; the attributes read through self (boundary, modified_basis, start,
    end, a, b, num_points, num_points_with_boundary, lowerBorder, upperBorder, spacing) become parameters with the declared types;
  * DECLARED PARAMETER TYPES: the methods of TrapezoidalGrid1D carry no annotations; `level` and `index` are declared `int`
    here (a typing precondition exactly like an annotation in the source; any other unannotated parameter is still rejected);
  * `isclose(x, y)` with two positional arguments, accepted only if the module binds the name by `from math import isclose`
    and nothing else: -> py_isclose (coq/Base/PyNumMath.v: |x - y| <= 1e-9 * max(|x|, |y|), exact rationals).
Both versions of the boundary tests of level_to_num_points_1d are inside the subset: math.isclose(start, a) / end == b (up to
/repo f7c3775) and the inherited helper methods Grid1d.touches_lower_boundary / touches_upper_boundary (domain-relative tolerance,
fixes/C08-boundary-tests-domain-relative.patch), which the shared translator resolves through the MRO and emits as
TrapezoidalGrid1D_touches_*_boundary; Proofs/GenTrapGrid1DEq.v proves the same statements with one script on both.
Usage: py2gallina_c02.py [--repo DIR] [--out FILE] [--stdout]      (VERIF_REPO is respected like in the shared translator)"""
import ast
import os
import sys

sys.path.insert(0, os.path.dirname(os.path.abspath(__file__)))
import py2gallina as P          # noqa: E402

TARGET = 'trap1d'
ATTRS = {'boundary': P.BOOL, 'modified_basis': P.BOOL, 'start': P.FLOAT, 'end': P.FLOAT, 'a': P.FLOAT, 'b': P.FLOAT,
         'num_points': P.INT, 'num_points_with_boundary': P.INT, 'lowerBorder': P.INT, 'upperBorder': P.INT, 'spacing': P.FLOAT}
P.NUM_TARGETS[TARGET] = dict(
    file='sparseSpACE/Grid.py', out='TrapGrid1DGen.v', prop='C02',
    classes=[
        dict(name='Grid1d', mode='param', methods=[], attrs=ATTRS),
        dict(name='TrapezoidalGrid1D', mode='param',
             methods=['level_to_num_points_1d', 'weight_composite_trapezoidal', 'get_1d_weight', 'get_1D_level_weights'],
             attrs=ATTRS),
    ],
    fuel={},
    # declared types of unannotated parameters: (method name, parameter) -> annotation
    param_types={('level_to_num_points_1d', 'level'): 'int', ('weight_composite_trapezoidal', 'index'): 'int',
                 ('get_1d_weight', 'index'): 'int'})

_BaseTr = P.NumTranslator
_BaseFn = P.NumFnTranslator


class C02Translator(_BaseTr):
    def signature(self, f):
        if self.tname == TARGET:
            decl = self.cfg.get('param_types', {})
            for ar in f.node.args.args:
                if ar.annotation is None and (f.node.name, ar.arg) in decl:
                    ar.annotation = ast.copy_location(ast.Name(id=decl[(f.node.name, ar.arg)], ctx=ast.Load()), ar)
        return _BaseTr.signature(self, f)


class C02FnTranslator(_BaseFn):
    def call(self, c, env):
        fn = c.func
        if self.tr.tname == TARGET and isinstance(fn, ast.Name) and fn.id == 'isclose' and fn.id not in env:
            binds = self.tr.module_bindings(self.tr.file, set())
            self.need(binds.get('isclose') == {'from:math:isclose'}, c,
                      'isclose is not bound exactly by `from math import isclose` (%s)' % sorted(binds.get('isclose', [])))
            self.plain_args(c, 2)
            b1, t1, ty1 = self.expr(c.args[0], env)
            b2, t2, ty2 = self.expr(c.args[1], env)
            self.need(ty1 in (P.INT, P.FLOAT) and ty2 in (P.INT, P.FLOAT), c, 'isclose of %s, %s' % (ty1, ty2))
            return b1 + b2, '(py_isclose %s %s)' % (self.num(t1, ty1, P.FLOAT), self.num(t2, ty2, P.FLOAT)), P.BOOL
        return _BaseFn.call(self, c, env)


P.NumTranslator = C02Translator
P.NumFnTranslator = C02FnTranslator
_render = P.render_num


def render_c02(tr, fns):
    text = _render(tr, fns)
    if tr.tname == TARGET:
        old = 'From SG Require Import Base.QcUtil Base.PyLib Base.PyNum.'
        if old not in text:
            raise P.Reject(ast.parse('0'), 'header of the shared translator changed (front end py2gallina_c02.py must follow)')
        text = text.replace(old, old[:-1] + ' Base.PyNumMath.', 1)
        text = text.replace('harness/translate/py2gallina.py --target trap1d', 'harness/translate/py2gallina_c02.py', 1)
    return text


P.render_num = render_c02


def main(argv):
    args = ['--target', TARGET]
    i = 0
    while i < len(argv):
        if argv[i] in ('--repo', '--out') and i + 1 < len(argv):
            args += argv[i:i + 2]; i += 2
        elif argv[i] == '--stdout':
            args.append('--stdout'); i += 1
        else:
            sys.stderr.write(__doc__)
            return 2
    return P.main(args)


if __name__ == '__main__':
    sys.exit(main(sys.argv[1:]))
