#!/usr/bin/env python3
"""Source-derived model for property C20: the ENTRY COMPUTATION of Regression.build_C_matrix (sparseSpACE/GridOperation.py)
-> coq/Gen/RegressGen.v.

A thin front end of the shared translator harness/translate/py2gallina.py (imported, NOT modified; the target is registered in memory
only).  build_C_matrix as a whole is outside the translated subset (numpy matrix fill, logging, `break`).  This front end cuts the
statements that compute `res` for FIXED i, j out of the AST of the method - the body of `for j in range(..)` from `res = 0.0` up to and
including the loop `for k in range(dim)` - and hands them to the shared translator as two synthetic methods.  Everything is fail closed: a
statement that is not found in the expected place rejects (the generated file becomes a stub that does not compile); a change INSIDE the
block that stays in the subset is translated as it stands - and then the equivalence theorem of coq/Proofs/GenRegressEq.v
(Props/C20gen.v) no longer holds.

  c20_C_factor(levelvec, dim, k, iv, jv)   the statements `temp_res = 1.` and `for m in range(dim): ...` of the body of `for k in
                                           range(dim)`; `return temp_res` is appended, and every `break` of the loop over m becomes
                                           `return temp_res` (the loop is the last statement before the appended return, so leaving
                                           it and returning are the same).
  c20_C_entry(levelvec, dim, iv, jv)       `res = 0.0`, `for k in range(dim): temp_res = self.c20_C_factor(levelvec, dim, k, iv, jv);
                                           res += temp_res`, `return res`  (the two statements of c20_C_factor replaced by the call).
  VIEWS (part of the trusted scheme): index_list[i][m] -> iv[m], index_list[j][m] -> jv[m] (the index vectors of the two grid points
  become parameters), the local `dim = len(levelvec)` becomes the parameter dim.  The bounds of the loops over i and j, the test
  `if res == 0` / the assignments C[i, j] = C[j, i] = res and the logging calls are NOT part of the fragment: they are covered by
  the correspondence of every run (implementation matrix = model matrix), and the header of the j loop is checked textually here:
  it must be `for j in range(i, grid_size)` (a banded loop is rejected).
The synthetic methods are printed into the generated file as a comment (ast.unparse), so the reader sees what was translated.
Usage: py2gallina_c20.py [--repo DIR] [--out FILE] [--stdout]      (VERIF_REPO is respected like in the shared translator)"""
import ast as _ast
import copy
import os
import sys

sys.path.insert(0, os.path.dirname(os.path.abspath(__file__)))
import py2gallina as P          # noqa: E402

TARGET = 'regress'
SRC = 'sparseSpACE/GridOperation.py'
CLASS = 'Regression'
METHODS = ['c20_C_factor', 'c20_C_entry']
P.NUM_TARGETS[TARGET] = dict(
    file=SRC, out='RegressGen.v', prop='C20',
    classes=[dict(name=CLASS, mode='param', methods=METHODS, attrs={})],
    fuel={})

SYNTH = {}


def rej(node, msg):
    raise P.Reject(node, 'py2gallina_c20: ' + msg)


def txt(n):
    return _ast.unparse(n)


class TextSubst(_ast.NodeTransformer):
    def __init__(self, table):
        self.table = table

    def visit(self, node):
        if isinstance(node, _ast.expr):
            t = txt(node)
            if t in self.table:
                return _ast.copy_location(_ast.parse(self.table[t], mode='eval').body, node)
        return self.generic_visit(node)


class BreakToReturn(_ast.NodeTransformer):
    """`break` of the loop over m -> `return temp_res` (nested loops are not entered: there are none in the block)"""
    def visit_Break(self, b):
        return _ast.copy_location(_ast.parse('return temp_res').body[0], b)

    def visit_For(self, f):
        rej(f, 'a loop inside the loop over m')

    def visit_While(self, f):
        rej(f, 'a loop inside the loop over m')


def synth(name, signature, body, at):
    fn = _ast.parse('def %s:\n    pass\n' % signature).body[0]
    fn.body = body
    _ast.copy_location(fn, at)
    for n in _ast.walk(fn):
        if not hasattr(n, 'lineno'):
            _ast.copy_location(n, at)
    _ast.fix_missing_locations(fn)
    SYNTH[name] = _ast.unparse(fn)
    return fn


def fragments(cls):
    bc = [m for m in cls.body if isinstance(m, _ast.FunctionDef) and m.name == 'build_C_matrix']
    if len(bc) != 1:
        rej(cls, 'method build_C_matrix not found')
    bc = bc[0]
    if not any(txt(s) == 'dim = len(levelvec)' for s in bc.body):
        rej(bc, 'build_C_matrix: `dim = len(levelvec)` not found')
    # the frame around the loop nest is not translated but checked textually (fail closed: a cache, an early return, another
    # grid size ... reject)
    frame = ['dim = len(levelvec)', 'grid_size = self.grid.get_num_points()', 'C = np.zeros((grid_size, grid_size))',
             'index_list = np.array(get_cross_product_range_list(self.grid.numPoints), dtype=int) + 1', 'return C']
    rest = [s for s in bc.body if not isinstance(s, _ast.For)
            and not (isinstance(s, _ast.Expr) and isinstance(s.value, _ast.Constant) and isinstance(s.value.value, str))]
    if [txt(s) for s in rest] != frame:
        rej(bc, 'build_C_matrix: the statements around the loop nest are not exactly %s but %s' % (frame, [txt(s)[:80] for s in rest]))
    outer = [s for s in bc.body if isinstance(s, _ast.For)]
    if len(outer) != 1 or txt(outer[0].target) != 'i' or txt(outer[0].iter) != 'range(grid_size)':
        rej(bc, 'build_C_matrix: exactly one top-level loop `for i in range(grid_size)` expected')
    jl = [s for s in outer[0].body if isinstance(s, _ast.For)]
    if len(outer[0].body) != 1 or len(jl) != 1 or txt(jl[0].target) != 'j' or txt(jl[0].iter) != 'range(i, grid_size)':
        rej(outer[0], 'build_C_matrix: the body of the i loop must be `for j in range(i, grid_size)` (every pair i <= j): '
            + (txt(jl[0].iter) if jl else 'no loop'))
    body = jl[0].body
    if len(body) < 3 or txt(body[0]) != 'res = 0.0' or not isinstance(body[1], _ast.For) or txt(body[1].target) != 'k' \
            or txt(body[1].iter) != 'range(dim)':
        rej(jl[0], 'build_C_matrix: the j loop does not start with `res = 0.0` and `for k in range(dim)`')
    kl = body[1]
    if len(kl.body) != 3 or txt(kl.body[0]) not in ('temp_res = 1.0', 'temp_res = 1.') or not isinstance(kl.body[1], _ast.For) \
            or txt(kl.body[1].target) != 'm' or txt(kl.body[1].iter) != 'range(dim)' or txt(kl.body[2]) != 'res += temp_res':
        rej(kl, 'build_C_matrix: body of the k loop is not `temp_res = 1.; for m in range(dim): ..; res += temp_res`')
    # what follows the k loop in the j loop may only store / log res
    for s in body[2:]:
        for n in _ast.walk(s):
            if isinstance(n, (_ast.Assign, _ast.AugAssign)):
                tg = n.targets if isinstance(n, _ast.Assign) else [n.target]
                for t in tg:
                    if not (isinstance(t, _ast.Subscript) and txt(t.value) == 'C'):
                        rej(n, 'build_C_matrix: after the k loop something else than C[..] is assigned: ' + txt(n))
                if txt(n.value) != 'res':
                    rej(n, 'build_C_matrix: C[..] is assigned something else than res: ' + txt(n))
    ml = copy.deepcopy(kl.body[1])
    ts = TextSubst({'index_list[i][m]': 'iv[m]', 'index_list[j][m]': 'jv[m]'})
    ml = ts.visit(ml)
    ml.body = [BreakToReturn().visit(s) for s in ml.body]
    for n in _ast.walk(ml):
        if isinstance(n, _ast.Name) and n.id in ('self', 'index_list', 'i', 'j', 'C', 'grid_size', 'res'):
            rej(n, 'build_C_matrix: the loop over m uses %s outside the views' % n.id)
    f1 = synth('c20_C_factor',
               'c20_C_factor(self, levelvec: List[int], dim: int, k: int, iv: List[int], jv: List[int]) -> float',
               [copy.deepcopy(kl.body[0]), ml, _ast.parse('return temp_res').body[0]], kl)
    eb = _ast.parse('res = 0.0\nfor k in range(dim):\n    temp_res = self.c20_C_factor(levelvec, dim, k, iv, jv)\n    res += temp_res\nreturn res\n').body
    f2 = synth('c20_C_entry', 'c20_C_entry(self, levelvec: List[int], dim: int, iv: List[int], jv: List[int]) -> float', eb, jl[0])
    return [f1, f2]


class _AstProxy(object):
    def __getattr__(self, name):
        return getattr(_ast, name)

    def parse(self, src, *a, **k):
        mod = _ast.parse(src, *a, **k)
        if isinstance(mod, _ast.Module):
            for st in mod.body:
                if isinstance(st, _ast.ClassDef) and st.name == CLASS and not any(
                        isinstance(m, _ast.FunctionDef) and m.name in METHODS for m in st.body):
                    st.body += fragments(st)
        return mod


_render = P.render_num


def render_c20(tr, fns):
    text = _render(tr, fns)
    if tr.tname == TARGET:
        text = text.replace('harness/translate/py2gallina.py --target ' + TARGET, 'harness/translate/py2gallina_c20.py', 1)
        doc = ['(* The synthetic methods cut out of %s by harness/translate/py2gallina_c20.py (what the shared translator saw):' % SRC]
        for m in METHODS:
            doc.append('   --- ' + m)
            for ln in SYNTH.get(m, '').splitlines():
                doc.append('   | ' + ln.replace('(*', '( *').replace('*)', '* )'))
        doc.append('*)')
        text = text + '\n' + '\n'.join(doc) + '\n'
    return text


P.render_num = render_c20


def main(argv):
    args = ['--target', TARGET]
    i = 0
    while i < len(argv):
        if argv[i] in ('--repo', '--out') and i + 1 < len(argv):
            args += argv[i:i + 2]; i += 2
        elif argv[i] == '--stdout':
            args.append('--stdout'); i += 1
        else:
            sys.stderr.write(__doc__)
            return 2
    P.ast = _AstProxy()
    try:
        return P.main(args)
    finally:
        P.ast = _ast


if __name__ == '__main__':
    sys.exit(main(sys.argv[1:]))
