#!/venv/bin/python
"""py2gallina_c19.py -- FAIL-CLOSED source-derived model for property C19: the classification logic of class Classification
(sparseSpACE/DEMachineLearning.py: _classificate and the acceptance / filter logic of _internal_scaling) -> coq/Gen/ClassifyGen.v.

Own small front end in the pattern of py2gallina_c18.py.  Derived from the source, statement by statement:
  _classificate     WHERE the label table comes from (`np.array(self.<attr>.get_labels())`: attribute and getter), that the result is the
                    table INDEXED by the row-wise arg-max of the densities (`table[np.argmax(dens, axis=1).flatten()]`), which names flow where;
  _internal_scaling the branch on `data_to_check.is_scaled()`, the acceptance test (`not A or not B` over same_scaling / _same_affine_scaling
                    of `self._scaled_data`, in this order), the three scaling calls of the other branch with their arguments (`-self._data_range[0]`,
                    `self._scale_factor`, the float literal, override_scaling=False) and their order, the out-of-range comprehension (which
                    comparison against which float literal, any / or structure), remove_samples on the computed indices, the returned object.
Float literals are read as their exact binary64 values.  What the methods reach through numpy / DataSet are PARAMETERS of the generated
Section (types D, Arg, Cls, Table; d_is_scaled, d_same_scaling, d_same_affine, d_shift_value, d_scale_factor, d_remove_samples, d_values,
a_neg, a_float, t_of_labels, d_get_labels, densities_of, argmax_rows, take), accepted ONLY in the exact source forms below; logging
statements (self.log_util.log_info(...)) and the `_densities_testset +=` bookkeeping are skipped; anything else is rejected with file:line and
the output becomes a stub that does not compile.  Proofs/GenClassifyEq.v instantiates the parameters with Model/DataSet.v / Model/Classify.v.

Usage: py2gallina_c19.py [--repo DIR] [--out FILE] [--stdout]   (DIR defaults to $VERIF_REPO or /repo)"""
import ast
import os
import sys
from fractions import Fraction

HERE = os.path.dirname(os.path.abspath(__file__))
VERIF = os.path.dirname(os.path.dirname(HERE))
SRC = 'sparseSpACE/DEMachineLearning.py'
CLASS = 'Classification'
ATTRS = {'_scaled_data': 'D', '_learning_data': 'D', '_data_range': '(Arg * Arg)', '_scale_factor': 'Arg', '_classificators': 'Cls'}


class Reject(Exception):
    def __init__(self, node, msg):
        super().__init__('%s:%s: %s' % (SRC, getattr(node, 'lineno', '?'), msg))


def qlit(x):
    f = Fraction(float(x))
    return '(Q2Qc (%d # %d))' % (f.numerator, f.denominator)


def is_self_attr(e, name=None):
    return isinstance(e, ast.Attribute) and isinstance(e.value, ast.Name) and e.value.id == 'self' and (name is None or e.attr == name)


def is_log(s):
    return isinstance(s, ast.Expr) and isinstance(s.value, ast.Call) and ast.unparse(s.value.func) == 'self.log_util.log_info'


def only_logging(ss):
    for s in ss:
        if is_log(s):
            continue
        if isinstance(s, (ast.If, ast.For)) and only_logging(s.body) and only_logging(s.orelse):
            continue
        return False
    return True


def strip_doc(body):
    if body and isinstance(body[0], ast.Expr) and isinstance(body[0].value, ast.Constant) and isinstance(body[0].value.value, str):
        return body[1:]
    return body


# --------------------------------------------------------------------------------------------- _classificate
def tr_classificate(fn):
    names = [a.arg for a in fn.args.args]
    if names != ['self', 'data_to_classificate']:
        raise Reject(fn, 'signature of _classificate: %s' % names)
    body = strip_doc(fn.body)
    if len(body) != 4:
        raise Reject(fn, '_classificate has %d statements, 4 expected' % len(body))
    s1, s2, s3, s4 = body
    if ast.unparse(s1) != 'density_data = list(zip(*[x(data_to_classificate[0]) for x in self._classificators]))':
        raise Reject(s1, 'density evaluation outside the accepted form: %s' % ast.unparse(s1)[:120])
    if ast.unparse(s2) != 'self._densities_testset += density_data':
        raise Reject(s2, 'statement outside the accepted forms: %s' % ast.unparse(s2)[:120])
    # class_labels = np.array(self.<attr>.get_labels())
    if not (isinstance(s3, ast.Assign) and len(s3.targets) == 1 and isinstance(s3.targets[0], ast.Name)):
        raise Reject(s3, 'label table: assignment to a local name expected')
    table = s3.targets[0].id
    v = s3.value
    if not (isinstance(v, ast.Call) and ast.unparse(v.func) == 'np.array' and len(v.args) == 1 and not v.keywords and
            isinstance(v.args[0], ast.Call) and isinstance(v.args[0].func, ast.Attribute) and v.args[0].func.attr == 'get_labels' and
            not v.args[0].args and not v.args[0].keywords and is_self_attr(v.args[0].func.value)):
        raise Reject(s3, 'label table outside the accepted form np.array(self.<attribute>.get_labels()): %s' % ast.unparse(v)[:120])
    attr = v.args[0].func.value.attr
    if ATTRS.get(attr) != 'D':
        raise Reject(s3, 'label table read from self.%s' % attr)
    # return <table>[np.argmax(<dens>, axis=1).flatten()]
    if not isinstance(s4, ast.Return) or s4.value is None:
        raise Reject(s4, 'return expected')
    r = s4.value
    ok = (isinstance(r, ast.Subscript) and isinstance(r.value, ast.Name) and
          ast.unparse(r.slice) == 'np.argmax(density_data, axis=1).flatten()')
    if not ok:
        raise Reject(s4, 'result outside the accepted form <table>[np.argmax(density_data, axis=1).flatten()]: %s' % ast.unparse(r)[:120])
    if r.value.id != table:
        raise Reject(s4, 'the arg-max indexes %s, not the label table %s' % (r.value.id, table))
    return ('Definition g_classificate (self : cobj) (points : Pts) : Result :=\n'
            '  let density_data := densities_of (f_classificators self) points in\n'
            '  let %s := t_of_labels (d_get_labels (f%s self)) in\n'
            '  take %s (argmax_rows density_data).\n' % (table, attr, table))


# --------------------------------------------------------------------------------------------- _internal_scaling
def tr_arg(e):
    """argument of shift_value / scale_factor"""
    u = ast.unparse(e)
    if isinstance(e, ast.UnaryOp) and isinstance(e.op, ast.USub):
        return '(a_neg %s)' % tr_arg(e.operand)
    if isinstance(e, ast.Subscript) and is_self_attr(e.value, '_data_range') and isinstance(e.slice, ast.Constant) and e.slice.value in (0, 1):
        return '(%s (f_data_range self))' % ('fst' if e.slice.value == 0 else 'snd')
    if is_self_attr(e, '_scale_factor'):
        return '(f_scale_factor self)'
    if isinstance(e, ast.Constant) and isinstance(e.value, float):
        return '(a_float %s)' % qlit(e.value)
    raise Reject(e, 'scaling argument outside the accepted forms: %s' % u[:100])


def tr_accept(e, dname):
    """not A or not B  /  not A  over the acceptance predicates of self._scaled_data; returns the list of predicates in evaluation order"""
    parts = e.values if isinstance(e, ast.BoolOp) and isinstance(e.op, ast.Or) else [e]
    preds = []
    for p in parts:
        if not (isinstance(p, ast.UnaryOp) and isinstance(p.op, ast.Not) and isinstance(p.operand, ast.Call)):
            raise Reject(p, 'acceptance test outside the form `not self._scaled_data.<test>(%s)`: %s' % (dname, ast.unparse(p)[:100]))
        c = p.operand
        if not (isinstance(c.func, ast.Attribute) and is_self_attr(c.func.value, '_scaled_data') and len(c.args) == 1 and not c.keywords and
                isinstance(c.args[0], ast.Name) and c.args[0].id == dname):
            raise Reject(p, 'acceptance test outside the form `not self._scaled_data.<test>(%s)`: %s' % (dname, ast.unparse(p)[:100]))
        if c.func.attr not in ('same_scaling', '_same_affine_scaling'):
            raise Reject(p, 'unknown acceptance test %s' % c.func.attr)
        preds.append(c.func.attr)
    return preds


def tr_any(e, xname):
    """any([(y < c) for y in x]) -> existsb"""
    if not (isinstance(e, ast.Call) and ast.unparse(e.func) == 'any' and len(e.args) == 1 and isinstance(e.args[0], ast.ListComp)):
        raise Reject(e, 'filter term outside the form any([(y <op> c) for y in x]): %s' % ast.unparse(e)[:100])
    lc = e.args[0]
    if len(lc.generators) != 1 or lc.generators[0].ifs or ast.unparse(lc.generators[0].iter) != xname or not isinstance(lc.generators[0].target, ast.Name):
        raise Reject(e, 'filter comprehension: %s' % ast.unparse(e)[:100])
    y = lc.generators[0].target.id
    c = lc.elt
    if not (isinstance(c, ast.Compare) and len(c.ops) == 1 and isinstance(c.left, ast.Name) and c.left.id == y and
            isinstance(c.comparators[0], ast.Constant) and isinstance(c.comparators[0].value, float)):
        raise Reject(e, 'filter comparison outside the form y <op> <float literal>: %s' % ast.unparse(c)[:100])
    k = qlit(c.comparators[0].value)
    op = c.ops[0]
    if isinstance(op, ast.Lt):
        t = 'Qc_ltb %s %s' % (y, k)
    elif isinstance(op, ast.Gt):
        t = 'Qc_ltb %s %s' % (k, y)
    elif isinstance(op, ast.LtE):
        t = 'Qc_leb %s %s' % (y, k)
    elif isinstance(op, ast.GtE):
        t = 'Qc_leb %s %s' % (k, y)
    else:
        raise Reject(c, 'comparison operator')
    return '(existsb (fun %s => %s) %s)' % (y, t, xname)


def tr_internal_scaling(fn):
    names = [a.arg for a in fn.args.args]
    if names != ['self', 'data_to_check', 'print_removed']:
        raise Reject(fn, 'signature of _internal_scaling: %s' % names)
    d = 'data_to_check'
    body = strip_doc(fn.body)
    if len(body) != 5:
        raise Reject(fn, '_internal_scaling has %d top-level statements, 5 expected' % len(body))
    s_if, s_idx, s_rem, s_log, s_ret = body
    # ---- if data_to_check.is_scaled(): guard  else: three calls
    if not (isinstance(s_if, ast.If) and ast.unparse(s_if.test) == d + '.is_scaled()'):
        raise Reject(s_if, 'first statement: `if %s.is_scaled():` expected' % d)
    if not (len(s_if.body) == 1 and isinstance(s_if.body[0], ast.If) and not s_if.body[0].orelse and len(s_if.body[0].body) == 1 and
            isinstance(s_if.body[0].body[0], ast.Raise)):
        raise Reject(s_if, 'scaled branch: exactly one guard `if <test>: raise` expected')
    preds = tr_accept(s_if.body[0].test, d)
    cont = 'CONT'
    acc = cont
    for p in reversed(preds):
        if p == 'same_scaling':
            acc = 'match d_same_scaling (f_scaled_data self) %s with Some true => %s | _ => (%s, true) end' % (d, acc, d)
        else:
            acc = 'if d_same_affine (f_scaled_data self) %s then %s else (%s, true)' % (d, acc, d)
    calls = cont
    if not s_if.orelse:
        raise Reject(s_if, 'unscaled branch missing')
    for s in reversed(s_if.orelse):
        ok = (isinstance(s, ast.Expr) and isinstance(s.value, ast.Call) and isinstance(s.value.func, ast.Attribute) and
              isinstance(s.value.func.value, ast.Name) and s.value.func.value.id == d and s.value.func.attr in ('shift_value', 'scale_factor') and
              len(s.value.args) == 1 and len(s.value.keywords) == 1 and s.value.keywords[0].arg == 'override_scaling' and
              isinstance(s.value.keywords[0].value, ast.Constant) and s.value.keywords[0].value.value in (True, False))
        if not ok:
            raise Reject(s, 'unscaled branch: statement outside the form %s.shift_value/scale_factor(<arg>, override_scaling=<bool>): %s' % (d, ast.unparse(s)[:100]))
        calls = "let '(%s, raised) := d_%s %s %s %s in\n      if raised then (%s, true) else\n      %s" % (
            d, s.value.func.attr, tr_arg(s.value.args[0]), 'true' if s.value.keywords[0].value.value else 'false', d, d, calls)
    # ---- remove_indices = [i for i, x in enumerate(data_to_check[0]) if <any> or <any>]
    if not (isinstance(s_idx, ast.Assign) and len(s_idx.targets) == 1 and isinstance(s_idx.targets[0], ast.Name) and isinstance(s_idx.value, ast.ListComp)):
        raise Reject(s_idx, 'index computation outside the accepted form: %s' % ast.unparse(s_idx)[:100])
    idx = s_idx.targets[0].id
    lc = s_idx.value
    g = lc.generators[0] if len(lc.generators) == 1 else None
    if not (g and ast.unparse(g.iter) == 'enumerate(%s[0])' % d and isinstance(g.target, ast.Tuple) and len(g.target.elts) == 2 and
            all(isinstance(t, ast.Name) for t in g.target.elts) and isinstance(lc.elt, ast.Name) and lc.elt.id == g.target.elts[0].id and len(g.ifs) == 1):
        raise Reject(s_idx, 'index computation outside the form [i for i, x in enumerate(%s[0]) if ...]: %s' % (d, ast.unparse(s_idx)[:100]))
    xname = g.target.elts[1].id
    test = g.ifs[0]
    terms = test.values if isinstance(test, ast.BoolOp) and isinstance(test.op, ast.Or) else [test]
    if isinstance(test, ast.BoolOp) and not isinstance(test.op, ast.Or):
        raise Reject(test, 'filter condition: `or` of any(...) terms expected')
    cond = ' || '.join(tr_any(t, xname) for t in terms)
    # ---- removed_samples = data_to_check.remove_samples(remove_indices)
    if ast.unparse(s_rem) != 'removed_samples = %s.remove_samples(%s)' % (d, idx):
        raise Reject(s_rem, 'removal outside the accepted form: %s' % ast.unparse(s_rem)[:100])
    if not (isinstance(s_log, ast.If) and ast.unparse(s_log.test) == 'not removed_samples.is_empty()' and only_logging(s_log.body) and not s_log.orelse):
        raise Reject(s_log, 'only the logging of the removed samples may follow the removal')
    if not (isinstance(s_ret, ast.Return) and ast.unparse(s_ret.value) == d):
        raise Reject(s_ret, '`return %s` expected' % d)
    tail = ("let %s := index_where (fun %s => %s) (d_values %s) in\n"
            "      match d_remove_samples %s %s with\n      | (%s, Some removed_samples) => (%s, false)\n      | (%s, None) => (%s, true)\n      end"
            % (idx, xname, cond, d, idx, d, d, d, d, d))
    return ('Definition g_internal_scaling (self : cobj) (%s : D) : D * bool :=\n'
            '  if d_is_scaled %s then\n      %s\n  else\n      %s.\n' % (d, d, acc.replace(cont, tail), calls.replace(cont, tail)))


HEADER = '''(* GENERATED by harness/translate/py2gallina_c19.py from %s (class %s) - do not edit.
   Source-derived model of Classification._classificate and of the acceptance / filter logic of Classification._internal_scaling: see the
   translator for the scheme and the accepted forms.  Proofs/GenClassifyEq.v: instantiated with the primitives of Model/DataSet.v these
   functions ARE classificate / internal_scaling_o of Model/Classify.v and Model/ClassifyLearn.v. *)
From Coq Require Import ZArith List QArith Qcanon Bool.
From SG Require Import Base.QcUtil.
Import ListNotations.

Section Classify.
Variables D Arg Cls Pts Dens Labels Table Result : Type.
Variable d_is_scaled : D -> bool.
Variable d_same_scaling : D -> D -> option bool.      (* None: the Python raises *)
Variable d_same_affine : D -> D -> bool.
Variables d_shift_value d_scale_factor : Arg -> bool -> D -> D * bool.
Variable d_remove_samples : list Z -> D -> D * option D.
Variable d_values : D -> list (list Qc).
Variable d_get_labels : D -> Labels.
Variable a_neg : Arg -> Arg.
Variable a_float : Qc -> Arg.
Variable t_of_labels : Labels -> Table.
Variable densities_of : Cls -> Pts -> Dens.
Variable argmax_rows : Dens -> list nat.
Variable take : Table -> list nat -> Result.

(* [i for i, x in enumerate(rows) if p x] *)
Definition index_where (p : list Qc -> bool) (rows : list (list Qc)) : list Z :=
  map (fun ix => Z.of_nat (fst ix)) (filter (fun ix => p (snd ix)) (combine (seq 0 (length rows)) rows)).

(* the attributes of the Classification object the two methods read *)
Record cobj := mkCobj {
%s }.
'''


def generate(repo):
    path = os.path.join(repo, SRC)
    tree = ast.parse(open(path).read(), path)
    cls = [n for n in tree.body if isinstance(n, ast.ClassDef) and n.name == CLASS]
    if len(cls) != 1:
        raise Reject(tree, 'class %s not found' % CLASS)
    fns = {n.name: n for n in cls[0].body if isinstance(n, ast.FunctionDef)}
    fields = ';\n'.join('  f%s : %s' % (a, t) for a, t in ATTRS.items())
    out = HEADER % (SRC, CLASS, fields)
    for m, tr in (('_classificate', tr_classificate), ('_internal_scaling', tr_internal_scaling)):
        if m not in fns:
            raise Reject(cls[0], 'method %s not found' % m)
        out += '\n(* %s:%d-%d  %s *)\n' % (SRC, fns[m].lineno, fns[m].end_lineno, m) + tr(fns[m])
    out += '\nEnd Classify.\n'
    return out


def main():
    repo = os.environ.get('VERIF_REPO', '/repo')
    outp = os.path.join(VERIF, 'coq', 'Gen', 'ClassifyGen.v')
    args = sys.argv[1:]
    to_stdout = False
    while args:
        a = args.pop(0)
        if a == '--repo':
            repo = args.pop(0)
        elif a == '--out':
            outp = args.pop(0)
        elif a == '--stdout':
            to_stdout = True
        else:
            sys.exit('usage: py2gallina_c19.py [--repo DIR] [--out FILE] [--stdout]')
    try:
        text = generate(repo)
        rc = 0
    except Reject as r:
        sys.stderr.write('py2gallina_c19: REJECTED %s\n' % r)
        text = '(* GENERATED STUB: the translator rejected the source: %s *)\nThis file does not compile on purpose.\n' % str(r).replace('*)', '* )')
        rc = 1
    if to_stdout:
        sys.stdout.write(text)
    else:
        old = open(outp).read() if os.path.exists(outp) else None
        if old != text:
            open(outp, 'w').write(text)
    sys.exit(rc)


if __name__ == '__main__':
    main()
