#!/usr/bin/env python3
"""Source-derived model for property C15: GlobalTrapezoidalGridWeighted.compute_weights / compute_1D_quad_weights (and the
GlobalTrapezoidalGrid.compute_weights they call) of sparseSpACE/Grid.py -> coq/Gen/UQGridGen.v.

A thin front end of the shared translator harness/translate/py2gallina.py (imported, NOT modified; the target is registered in memory
only, the outputs of the existing targets are untouched).  What this front end adds, all fail-closed (each rule applies only to the exact
shape described; anything else is left alone and then accepted or rejected by the shared translator):
  * target `uqgrid` (param mode, see NUM_DOC of the translator); attributes read through self become parameters:
    self.boundary, self.modified_basis : bool;
  * THE DISTRIBUTION OBJECT.  `distribution` (an UQDistribution: pdf/cdf/ppf closures, scipy quadrature, caches) is outside every
    subset.  The only uses the method makes of it are  distribution.get_zeroth_moment(x1, x2)  and  distribution.get_first_moment(x1, x2)
    inside `for i in range(num_points - 1)` right after `x1 = grid_1D[i]` / `x2 = grid_1D[i + 1]`.  D1 replaces the parameter by the two
    lists  distribution_moment_0, distribution_moment_1 : Sequence[float]  and these two calls by  distribution_moment_0[i]  /
    distribution_moment_1[i]  - the reading: entry i of the lists IS what the distribution object returns for the i-th interval of
    grid_1D (exactly the interface of the hand model coq/Model/UQ.v, whose intervals carry m0, m1).  Any other use of the name
    `distribution` is rejected.  In compute_1D_quad_weights  distr = self.distributions[d]  followed by
    self.compute_weights(.., distr, ..)  becomes the pair of parameters self_distributions_moment_0/1 : the moment lists of dimension d
    (D2: the statement `distr = self.distributions[d]` is removed, `distr` must occur only as that argument).
  * INFINITE GRID POINTS.  isinf(e), accepted only if the module binds the name by `from math import isinf` and nothing else:
    -> py_isinf e (coq/Base/PyNumUQ.v): the floats +-inf are READ as the rationals +-2^1024 (the first power of two beyond the binary64
    range, so py_isinf x := 2^1024 <= |x| is exact on the images of floats); the method never does arithmetic on an infinite point.
  * isclose(x, y) with two positional arguments (bound by `from math import isclose` only) -> py_isclose (coq/Base/PyNumMath.v), as in the
    C08 front end.
  * AST NORMALISATIONS of the method body before the shared translator sees it (semantics-preserving rewritings of Python):
      N1  in a for body:  `if C: continue` followed by the statements S  ->  `if not (C): S`   (S must not contain continue/break);
      N2  `A[1:-1] = [E for v in A[1:-1]]` with E an expression of v and of names not assigned in the loop
          ->  `for _j in range(1, len(A) - 1): A[_j] = E[v := A[_j]]`  (Python builds the whole right-hand list first; E reads only
          the element it replaces, so the element-wise update is the same);
      N3  `A[-1] = e`  ->  `A[len(A) - 1] = e`  (A non-empty: the function has returned before for fewer than 2 points);
      N4  `X = GlobalTrapezoidalGrid.compute_weights(args) / s`  ->  `_t = GlobalTrapezoidalGrid.compute_weights(args); X = np.zeros(len(_t));
          for _j in range(len(_t)): X[_j] = _t[_j] / s`  (numpy divides element-wise; the result is a fresh array; s is evaluated per
          element instead of once - it is the pure expression b - a);
      N7  `if C1: v = e1 elif C2: v = e2 else: v = e3` (one simple assignment to the SAME name per branch, v not read in the chain)
          ->  `v = e1 if C1 else (e2 if C2 else e3)`  (conditional expressions are lazy and test in the same order);
      N8  `return [c1, .., ck]` (float literals) -> `return np.array([c1, .., ck])`: the function returns a list of floats on these paths and
          a float array on the others; both are read as list Qc, the rewriting only aligns the translator's types;
      N5  an `else:` branch that consists of `if ..: print(..)` only is removed (no effect on the result);
      N6  `assert C, msg`  ->  `assert C`  (msg is evaluated only when the assertion fails; here it is sum(weights), pure).
    The rewritten bodies are printed into the generated file as a comment (ast.unparse).
Usage: py2gallina_c15.py [--repo DIR] [--out FILE] [--stdout]      (VERIF_REPO is respected like in the shared translator)"""
import ast
import copy
import os
import sys

sys.path.insert(0, os.path.dirname(os.path.abspath(__file__)))
import py2gallina as P          # noqa: E402

TARGET = 'uqgrid'
METHODS_W = ['compute_weights', 'compute_1D_quad_weights']
LF = ('list', P.FLOAT)
P.NUM_TARGETS[TARGET] = dict(
    file='sparseSpACE/Grid.py', out='UQGridGen.v', prop='C15',
    classes=[
        dict(name='GlobalTrapezoidalGrid', mode='param', methods=['compute_weights'], attrs={'modified_basis': P.BOOL}),
        dict(name='GlobalTrapezoidalGridWeighted', mode='param', methods=METHODS_W,
             attrs={'boundary': P.BOOL, 'modified_basis': P.BOOL, 'distributions_moment_0': LF, 'distributions_moment_1': LF}),
    ],
    fuel={})


def rej(node, what):
    raise P.Reject(node, what)


def names_in(node):
    return {n.id for n in ast.walk(node) if isinstance(n, ast.Name)}


def seqfloat():
    return ast.Subscript(value=ast.Name(id='Sequence', ctx=ast.Load()), slice=ast.Name(id='float', ctx=ast.Load()), ctx=ast.Load())


class Normaliser:
    def __init__(self, fn):
        self.fn = fn
        self.applied = []

    # ---- D1: the distribution parameter of the static method
    def d1(self):
        fn = self.fn
        args = fn.args.args
        idx = [i for i, a in enumerate(args) if a.arg == 'distribution']
        if len(idx) != 1 or args[idx[0]].annotation is not None:
            rej(fn, 'D1: compute_weights has no unannotated parameter `distribution`')
        i0 = idx[0]
        new = [ast.arg(arg='distribution_moment_0', annotation=seqfloat()), ast.arg(arg='distribution_moment_1', annotation=seqfloat())]
        fn.args.args = args[:i0] + new + args[i0 + 1:]
        count = [0]
        norm = self

        class V(ast.NodeTransformer):
            def visit_For(self, f):
                if not (isinstance(f.target, ast.Name) and isinstance(f.iter, ast.Call) and isinstance(f.iter.func, ast.Name)
                        and f.iter.func.id == 'range'):
                    return self.generic_visit(f)
                iv = f.target.id
                # the two defining assignments of x1, x2 at the head of the loop body
                def is_sub(st, name, off):
                    if not (isinstance(st, ast.Assign) and len(st.targets) == 1 and isinstance(st.targets[0], ast.Name)
                            and st.targets[0].id == name and isinstance(st.value, ast.Subscript) and isinstance(st.value.value, ast.Name)
                            and st.value.value.id == 'grid_1D'):
                        return False
                    s = st.value.slice
                    if off == 0:
                        return isinstance(s, ast.Name) and s.id == iv
                    return (isinstance(s, ast.BinOp) and isinstance(s.op, ast.Add) and isinstance(s.left, ast.Name) and s.left.id == iv
                            and isinstance(s.right, ast.Constant) and s.right.value == 1)
                head_ok = len(f.body) >= 2 and is_sub(f.body[0], 'x1', 0) and is_sub(f.body[1], 'x2', 1)
                rng_ok = (len(f.iter.args) == 1 and ast.unparse(f.iter.args[0]).replace(' ', '') in ('num_points-1', 'len(grid_1D)-1'))

                class C(ast.NodeTransformer):
                    def visit_Call(self, c):
                        c = self.generic_visit(c)
                        if isinstance(c.func, ast.Attribute) and isinstance(c.func.value, ast.Name) and c.func.value.id == 'distribution':
                            if c.func.attr not in ('get_zeroth_moment', 'get_first_moment'):
                                rej(c, 'D1: distribution.%s' % c.func.attr)
                            if not (head_ok and rng_ok and len(c.args) == 2 and not c.keywords and all(isinstance(a, ast.Name) for a in c.args)
                                    and [a.id for a in c.args] == ['x1', 'x2']):
                                rej(c, 'D1: distribution.%s(..) outside `for i in range(num_points - 1): x1 = grid_1D[i]; x2 = grid_1D[i + 1]` or '
                                       'with other arguments than (x1, x2)' % c.func.attr)
                            count[0] += 1
                            lst = 'distribution_moment_0' if c.func.attr == 'get_zeroth_moment' else 'distribution_moment_1'
                            return ast.copy_location(ast.Subscript(value=ast.Name(id=lst, ctx=ast.Load()), slice=ast.Name(id=iv, ctx=ast.Load()),
                                                                   ctx=ast.Load()), c)
                        return c
                # x1, x2 must not be re-assigned in the body after the head
                for st in f.body[2:]:
                    for n in ast.walk(st):
                        if isinstance(n, ast.Name) and isinstance(n.ctx, ast.Store) and n.id in ('x1', 'x2', iv, 'grid_1D'):
                            rej(n, 'D1: %s is assigned inside the moment loop' % n.id)
                f.body = [C().visit(st) for st in f.body]
                return f
        fn.body = [V().visit(st) for st in fn.body]
        if count[0] != 2:
            rej(fn, 'D1: expected exactly the two calls get_zeroth_moment / get_first_moment, found %d' % count[0])
        for n in ast.walk(fn):
            if isinstance(n, ast.Name) and n.id == 'distribution':
                rej(n, 'D1: another use of the name `distribution`')
        norm.applied.append('D1')

    # ---- D2: compute_1D_quad_weights
    def d2(self):
        fn = self.fn
        body = [s for s in fn.body if not (isinstance(s, ast.Expr) and isinstance(s.value, ast.Constant))]
        if not (len(body) == 2 and isinstance(body[0], ast.Assign) and ast.unparse(body[0]).replace(' ', '') == 'distr=self.distributions[d]'
                and isinstance(body[1], ast.Return) and isinstance(body[1].value, ast.Call)):
            rej(fn, 'D2: compute_1D_quad_weights is not `distr = self.distributions[d]; return self.compute_weights(..)`')
        call = body[1].value
        if not (ast.unparse(call.func) == 'self.compute_weights' and not call.keywords):
            rej(call, 'D2: the call is not self.compute_weights(..) with positional arguments')
        pos = [i for i, a in enumerate(call.args) if isinstance(a, ast.Name) and a.id == 'distr']
        if len(pos) != 1 or sum(1 for n in ast.walk(call) if isinstance(n, ast.Name) and n.id == 'distr') != 1:
            rej(call, 'D2: `distr` must occur exactly once, as an argument')
        def attr(nm):
            return ast.Attribute(value=ast.Name(id='self', ctx=ast.Load()), attr=nm, ctx=ast.Load())
        call.args = call.args[:pos[0]] + [attr('distributions_moment_0'), attr('distributions_moment_1')] + call.args[pos[0] + 1:]
        fn.body = [body[1]]
        self.applied.append('D2')

    def block(self, stmts, in_for=False):
        res = []
        i = 0
        while i < len(stmts):
            s = stmts[i]
            # N1
            if in_for and isinstance(s, ast.If) and not s.orelse and len(s.body) == 1 and isinstance(s.body[0], ast.Continue):
                rest = stmts[i + 1:]
                if any(isinstance(n, (ast.Continue, ast.Break)) for r in rest for n in ast.walk(r)):
                    rej(s, 'N1: continue/break after `if C: continue`')
                new = ast.If(test=ast.UnaryOp(op=ast.Not(), operand=s.test), body=self.block(rest, in_for), orelse=[])
                res.append(ast.copy_location(new, s))
                self.applied.append('N1 (line %d)' % s.lineno)
                return res
            # N7
            if isinstance(s, ast.If) and s.orelse:
                chain, cur, ok = [], s, True
                while True:
                    if not (len(cur.body) == 1 and isinstance(cur.body[0], ast.Assign) and len(cur.body[0].targets) == 1
                            and isinstance(cur.body[0].targets[0], ast.Name)):
                        ok = False
                        break
                    chain.append((cur.test, cur.body[0]))
                    if len(cur.orelse) == 1 and isinstance(cur.orelse[0], ast.If):
                        cur = cur.orelse[0]
                        continue
                    if len(cur.orelse) == 1 and isinstance(cur.orelse[0], ast.Assign) and len(cur.orelse[0].targets) == 1 \
                            and isinstance(cur.orelse[0].targets[0], ast.Name):
                        chain.append((None, cur.orelse[0]))
                    else:
                        ok = False
                    break
                if ok and len({a.targets[0].id for _, a in chain}) == 1 and chain[-1][0] is None:
                    nm = chain[0][1].targets[0].id
                    if any(nm in names_in(a.value) or (t is not None and nm in names_in(t)) for t, a in chain):
                        rej(s, 'N7: the assigned name is read in the if chain')
                    e = chain[-1][1].value
                    for t, a in reversed(chain[:-1]):
                        e = ast.IfExp(test=t, body=a.value, orelse=e)
                    s = ast.copy_location(ast.Assign(targets=[ast.Name(id=nm, ctx=ast.Store())], value=e), s)
                    self.applied.append('N7 (line %d)' % s.lineno)
            # N8
            if isinstance(s, ast.Return) and isinstance(s.value, ast.List) and s.value.elts \
                    and all(isinstance(x, ast.Constant) and isinstance(x.value, float) for x in s.value.elts):
                s.value = ast.Call(func=ast.Attribute(value=ast.Name(id='np', ctx=ast.Load()), attr='array', ctx=ast.Load()), args=[s.value], keywords=[])
                self.applied.append('N8 (line %d)' % s.lineno)
            # N6
            if isinstance(s, ast.Assert) and s.msg is not None:
                if not (isinstance(s.msg, ast.Constant) or ast.unparse(s.msg) == 'sum(weights)'):
                    rej(s, 'N6: assert message is neither a constant nor sum(weights)')
                s.msg = None
                self.applied.append('N6 (line %d)' % s.lineno)
            # N2
            if isinstance(s, ast.Assign) and len(s.targets) == 1 and isinstance(s.targets[0], ast.Subscript) \
                    and isinstance(s.targets[0].slice, ast.Slice):
                t = s.targets[0]
                if not (isinstance(t.value, ast.Name) and ast.unparse(t.slice) == '1:-1' and isinstance(s.value, ast.ListComp)
                        and len(s.value.generators) == 1 and not s.value.generators[0].ifs
                        and isinstance(s.value.generators[0].target, ast.Name)
                        and ast.unparse(s.value.generators[0].iter) == '%s[1:-1]' % t.value.id):
                    rej(s, 'N2: slice assignment other than A[1:-1] = [E for v in A[1:-1]]')
                A, v, E = t.value.id, s.value.generators[0].target.id, s.value.elt
                if A in names_in(E):
                    rej(s, 'N2: the element expression reads the array')
                elem = ast.Subscript(value=ast.Name(id=A, ctx=ast.Load()), slice=ast.Name(id='jj', ctx=ast.Load()), ctx=ast.Load())

                class S(ast.NodeTransformer):
                    def visit_Name(self, n):
                        return copy.deepcopy(elem) if n.id == v and isinstance(n.ctx, ast.Load) else n
                body = ast.Assign(targets=[ast.Subscript(value=ast.Name(id=A, ctx=ast.Load()), slice=ast.Name(id='jj', ctx=ast.Load()),
                                                         ctx=ast.Store())], value=S().visit(copy.deepcopy(E)))
                rng = ast.parse('range(1, len(%s) - 1)' % A, mode='eval').body
                loop = ast.For(target=ast.Name(id='jj', ctx=ast.Store()), iter=rng, body=[body], orelse=[])
                res.append(ast.copy_location(loop, s))
                self.applied.append('N2 (line %d)' % s.lineno)
                i += 1
                continue
            # N3
            if isinstance(s, ast.Assign) and len(s.targets) == 1 and isinstance(s.targets[0], ast.Subscript) \
                    and isinstance(s.targets[0].value, ast.Name) and ast.unparse(s.targets[0].slice) == '-1':
                A = s.targets[0].value.id
                s.targets[0].slice = ast.parse('len(%s) - 1' % A, mode='eval').body
                self.applied.append('N3 (line %d)' % s.lineno)
            # N4
            if isinstance(s, ast.Assign) and isinstance(s.value, ast.BinOp) and isinstance(s.value.op, ast.Div) \
                    and isinstance(s.value.left, ast.Call) and ast.unparse(s.value.left.func) == 'GlobalTrapezoidalGrid.compute_weights':
                den = s.value.right
                if not (isinstance(s.targets[0], ast.Name) and len(s.targets) == 1):
                    rej(s, 'N4: target is not a name')
                X = s.targets[0].id
                src = 'trap_w = 0\n%s = np.zeros(len(trap_w))\nfor jj in range(len(trap_w)):\n    %s[jj] = trap_w[jj] / (0)' % (X, X)
                st = ast.parse(src).body
                st[0].value = s.value.left
                st[2].body[0].value.right = den
                for x in st:
                    ast.copy_location(x, s)
                    for n in ast.walk(x):
                        if not hasattr(n, 'lineno'):
                            ast.copy_location(n, s)
                res.extend(st)
                self.applied.append('N4 (line %d)' % s.lineno)
                i += 1
                continue
            if isinstance(s, ast.For):
                if s.orelse:
                    rej(s, 'for .. else')
                s.body = self.block(s.body, True)
            elif isinstance(s, ast.If):
                s.body = self.block(s.body, in_for)
                # N5
                if s.orelse and len(s.orelse) == 1 and isinstance(s.orelse[0], ast.If) and not s.orelse[0].orelse \
                        and all(isinstance(x, ast.Expr) and isinstance(x.value, ast.Call) and isinstance(x.value.func, ast.Name)
                                and x.value.func.id == 'print' for x in s.orelse[0].body):
                    s.orelse = []
                    self.applied.append('N5 (line %d)' % s.lineno)
                else:
                    s.orelse = self.block(s.orelse, in_for)
            res.append(s)
            i += 1
        return res

    def run(self, which):
        if which == 'compute_weights':
            self.d1()
            self.fn.body = self.block(self.fn.body)
        else:
            self.d2()
        ast.fix_missing_locations(self.fn)
        return self.fn


_BaseTr = P.NumTranslator
_BaseFn = P.NumFnTranslator
NORMALISED = {}


class C15Translator(_BaseTr):
    def signature(self, f):
        if self.tname == TARGET and f.node.name in METHODS_W and not getattr(f.node, '_c15_done', False) \
                and any(a.arg in ('distribution', 'd') for a in f.node.args.args):
            nz = Normaliser(f.node)
            nz.run(f.node.name)
            f.node._c15_done = True
            NORMALISED[f.node.name] = (nz.applied, ast.unparse(f.node))
        return _BaseTr.signature(self, f)


class C15FnTranslator(_BaseFn):
    def call(self, c, env):
        fn = c.func
        if self.tr.tname == TARGET and isinstance(fn, ast.Name) and fn.id in ('isclose', 'isinf') and fn.id not in env:
            binds = self.tr.module_bindings(self.tr.file, set())
            self.need(binds.get(fn.id) == {'from:math:' + fn.id}, c,
                      '%s is not bound exactly by `from math import %s` (%s)' % (fn.id, fn.id, sorted(binds.get(fn.id, []))))
            if fn.id == 'isinf':
                self.plain_args(c, 1)
                b1, t1, ty1 = self.expr(c.args[0], env)
                self.need(ty1 in (P.INT, P.FLOAT), c, 'isinf of %s' % (ty1,))
                return b1, '(py_isinf %s)' % self.num(t1, ty1, P.FLOAT), P.BOOL
            self.plain_args(c, 2)
            b1, t1, ty1 = self.expr(c.args[0], env)
            b2, t2, ty2 = self.expr(c.args[1], env)
            self.need(ty1 in (P.INT, P.FLOAT) and ty2 in (P.INT, P.FLOAT), c, 'isclose of %s, %s' % (ty1, ty2))
            return b1 + b2, '(py_isclose %s %s)' % (self.num(t1, ty1, P.FLOAT), self.num(t2, ty2, P.FLOAT)), P.BOOL
        return _BaseFn.call(self, c, env)


P.NumTranslator = C15Translator
P.NumFnTranslator = C15FnTranslator
_render = P.render_num


def render_c15(tr, fns):
    text = _render(tr, fns)
    if tr.tname == TARGET:
        old = 'From SG Require Import Base.QcUtil Base.PyLib Base.PyNum.'
        if old not in text:
            raise P.Reject(ast.parse('0'), 'header of the shared translator changed (front end py2gallina_c15.py must follow)')
        text = text.replace(old, old[:-1] + ' Base.PyNumMath Base.PyNumUQ.', 1)
        text = text.replace('harness/translate/py2gallina.py --target uqgrid', 'harness/translate/py2gallina_c15.py', 1)
        doc = ['(* Method bodies AFTER the rewritings D1-D2, N1-N6 of harness/translate/py2gallina_c15.py (what the shared translator saw):']
        for m in METHODS_W:
            if m in NORMALISED:
                ap, src = NORMALISED[m]
                doc.append('   --- %s   [%s]' % (m, ', '.join(ap) or 'unchanged'))
                for ln in src.splitlines():
                    doc.append('   | ' + ln.replace('(*', '( *').replace('*)', '* )'))
        doc.append('*)')
        text = text + '\n' + '\n'.join(doc) + '\n'
    return text


P.render_num = render_c15


def main(argv):
    args = ['--target', TARGET]
    i = 0
    while i < len(argv):
        if argv[i] in ('--repo', '--out') and i + 1 < len(argv):
            args += argv[i:i + 2]; i += 2
        elif argv[i] == '--stdout':
            args.append('--stdout'); i += 1
        else:
            sys.stderr.write(__doc__)
            return 2
    return P.main(args)


if __name__ == '__main__':
    sys.exit(main(sys.argv[1:]))
