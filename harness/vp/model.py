"""Run the extracted Coq models (ocaml/driver) on a list of cases."""
import os
import subprocess
from concurrent.futures import ThreadPoolExecutor
from . import sx

ROOT = os.path.dirname(os.path.dirname(os.path.dirname(os.path.abspath(__file__))))


def _run_chunk(args):
    driver, lines = args
    p = subprocess.run(['bash', '-c', 'ulimit -s unlimited 2>/dev/null; exec "%s"' % driver],
                       input='\n'.join(lines) + '\n', capture_output=True, text=True)
    if p.returncode != 0:
        raise RuntimeError('model driver failed: rc=%s %s' % (p.returncode, p.stderr[-2000:]))
    return p.stdout.splitlines()


def run_model(prop, cases, nproc=8):
    """cases: list of (sub, value). Returns list of decoded results (or ('!', message) on driver-level failure)."""
    driver = os.path.join(ROOT, 'ocaml', 'driver_C%02d' % prop)
    lines = ['%d %s %s %s' % (i, sx.enc(prop), sx.enc(sub), sx.enc(val)) for i, (sub, val) in enumerate(cases)]
    if not lines:
        return []
    nproc = max(1, min(nproc, len(lines) // 8 + 1))
    chunks = [(driver, lines[i::nproc]) for i in range(nproc)]
    with ThreadPoolExecutor(nproc) as ex:
        outs = list(ex.map(_run_chunk, chunks))
    res = [None] * len(lines)
    for out in outs:
        for ln in out:
            i, _, rest = ln.partition(' ')
            if rest.startswith('!'):
                res[int(i)] = ('!', rest)
            else:
                res[int(i)] = sx.dec(rest)
    return res
