"""Check context: Coq obligations, case accounting, violations, known findings, evidence."""
import fcntl
import glob
import json
import os
import random
import re
import subprocess
import sys
import time

ROOT = os.path.dirname(os.path.dirname(os.path.dirname(os.path.abspath(__file__))))
COQ = os.path.join(ROOT, 'coq')
REPO = os.environ.get('VERIF_REPO', '/repo')
WORK = os.path.join(ROOT, '.work')

FORBIDDEN = r'Admitted|admit\.|^\s*Axiom |^\s*Parameter |^\s*Conjecture |Unset Guard|bypass_check|type-in-type|impredicative-set|Admit Obligations'

TRUSTED_BASE_COMMON = [
    'Coq 8.16.1 kernel (coqc); vm_compute used for evaluation and _bounded theorems; native_compute not used',
    'no axioms declared by the development (grep gate + Print Assumptions below)',
    'extraction: ExtrOcamlBasic directives only (bool, option, unit, list, prod, sumbool -> OCaml); Z/positive/Q/Qc stay inductive',
    'ocaml/driver.ml (s-expression parser/printer, binary integers) and the OCaml compiler',
    'harness (Python): generators, float->exact rational conversion, canonicalisation, oracles',
    'hand-written Gallina model tied to /repo only by the correspondence check of this run',
]


def sh(cmd, cwd=None, timeout=3600, env=None):
    p = subprocess.run(cmd, shell=True, cwd=cwd, capture_output=True, text=True, timeout=timeout, env=env)
    return p.returncode, p.stdout + p.stderr


class Check:
    def __init__(self, pid, tier, seed):
        self.pid = pid
        self.tier = tier
        self.seed = seed
        self.rng = random.Random('%s/%d' % (pid, seed))
        self.t0 = time.time()
        self.violations = []       # dicts
        self.evaluations = 0
        self.distinct = set()
        self.rules = []
        self.samples = []
        self.hist = {}
        self.extra = {}
        self.obligations = 0
        self.discharged = 0
        self.theorems = []
        self.assumptions = []
        self.checker_cmds = []
        self.notes = []
        self.traces = 0
        self.work = os.path.join(WORK, pid)
        os.makedirs(self.work, exist_ok=True)
        os.environ['VERIF_WORK'] = self.work
        os.makedirs(os.path.join(ROOT, 'replays'), exist_ok=True)
        os.makedirs(os.path.join(ROOT, 'evidence'), exist_ok=True)

    @property
    def quick(self):
        return self.tier == 'quick'

    def n(self, quick, thorough):
        return quick if self.quick else thorough

    # ------------------------------------------------------------------ Coq
    def _own_modules(self):
        """Partition of the dependency closure of Props/<pid>.v (coqdep): modules that are in no other property's closure (own) and, for
        every other module, the properties whose Props closure contains it (their thorough tier re-checks it with the full coqchk)."""
        files = [l.strip() for l in open(os.path.join(COQ, '.files')) if l.strip()]
        rc, out = sh('coqdep -Q . SG ' + ' '.join(files), cwd=COQ)
        deps = {}
        for ln in out.splitlines():
            if ':' not in ln or '.vo' not in ln:
                continue
            l, r = ln.split(':', 1)
            ds = [t[:-3] for t in r.split() if t.endswith('.vo')]
            for t in l.split():
                if t.endswith('.vo'):
                    deps[t[:-3]] = ds

        def closure(m):
            seen, st = set(), [m]
            while st:
                x = st.pop()
                if x not in seen:
                    seen.add(x)
                    st += deps.get(x, [])
            return seen
        mine = closure('Props/' + self.pid)
        released = [l.strip() for l in open(os.path.join(ROOT, 'harness', 'released.txt')).read().split() if l.strip()]
        owners = {}
        for q in released:
            if q != self.pid:
                for m in closure('Props/' + q):
                    owners.setdefault(m, []).append(q)
        own = sorted(m for m in mine if m not in owners)
        return own, {m: owners[m] for m in sorted(mine) if m in owners}

    def coq_obligations(self, extra_props=(), coqchk_own=False):
        """Build the development (no-op when built), re-compile Props/<pid>.v to capture Print Assumptions.
        coqchk_own (thorough tier): run coqchk with -norec on the modules that only this property depends on instead of on the whole
        closure; every other module of the closure belongs to the closure of another RELEASED property, whose thorough tier re-checks
        it with the full coqchk.  What was re-checked and who re-checks the rest is written to the evidence (coqchk_scope)."""
        try:
            rc, out = sh("grep -rnE '%s' --include='*.v' ." % FORBIDDEN, cwd=COQ)
            if rc == 0:
                self.violation('theorem:gate', 'forbidden-construct', {}, None, out[:2000], failing_input=False)
            props = ' '.join((self.pid,) + tuple(extra_props))
            rc, out = sh('./setup.sh ' + props, cwd=ROOT, timeout=3500)
            self.checker_cmds.append('./setup.sh ' + props + '  (make -f Makefile.coq Props/Cxx.vo Entry/Cxx.vo; extraction; ocamlfind ocamlopt)')
            if rc != 0:
                self.notes.append('setup: ' + out[-1500:])
                # a development that does not build proves nothing: broken proof obligation (the correspondence still runs when the
                # old extracted driver exists and searches for a failing input)
                self.violation('theorem:setup', 'build-failed', {}, None, out[-2500:], failing_input=False)
            for pid in (self.pid,) + tuple(extra_props):
                pf = os.path.join(COQ, 'Props', pid + '.v')
                if not os.path.exists(pf):
                    self.notes.append('no Props/%s.v' % pid)
                    continue
                src = open(pf).read()
                names = re.findall(r'^\s*(?:Theorem|Lemma|Corollary)\s+(\w+)', src, re.M)
                self.obligations += len(names)
                cmd = 'timeout 1200 coqc -Q . SG Props/%s.v' % pid
                rc, out = sh(cmd, cwd=COQ)
                self.checker_cmds.append('cd coq && ' + cmd)
                if rc == 0:
                    self.discharged += len(names)
                    self.theorems += names
                    self.assumptions += self._parse_assumptions(out)
                else:
                    # which theorem breaks?  report the file and the error
                    self.violation('theorem:Props/%s.v' % pid, 'proof-broken', {'file': 'Props/%s.v' % pid}, None,
                                   out[-2500:], failing_input=False)
            if self.tier == 'thorough':
                cmd = 'timeout 3000 coqchk -silent -o -Q . SG SG.Props.%s' % self.pid
                if coqchk_own:
                    own, rest = self._own_modules()
                    if own:
                        cmd = 'timeout 3000 coqchk -silent -o -Q . SG ' + ' '.join('-norec SG.' + m.replace('/', '.') for m in own)
                        self.extra['coqchk_scope'] = dict(
                            rechecked_modules=own,
                            not_rechecked_here={m: 'full coqchk of ' + ','.join(v) for m, v in rest.items()},
                            note='coqchk -norec: only the modules no other released property depends on are re-checked by this run; the '
                                 'axioms listed in the summary below, if any, belong to library modules loaded without re-checking (the Coq standard library '
                                 'is not re-checked by this run either; the full runs of the other properties do that)')
                rc, out = sh(cmd, cwd=COQ)
                self.checker_cmds.append('cd coq && ' + cmd)
                self.extra['coqchk'] = out[-3000:]
                if rc != 0:
                    self.violation('theorem:coqchk', 'coqchk-failed', {}, None, out[-2500:], failing_input=False)
        finally:
            pass

    @staticmethod
    def _parse_assumptions(out):
        res = []
        cur = None
        for ln in out.splitlines():
            if 'conda' in ln:
                continue
            if ln.startswith('Closed under the global context'):
                res.append('closed')
            elif ln.startswith('Axioms:'):
                cur = []
            elif cur is not None and ln.strip():
                if re.match(r'^\S', ln):
                    cur.append(ln.split(':')[0].strip())
            if cur is not None and not ln.strip():
                res.append('axioms: ' + ', '.join(cur))
                cur = None
        if cur is not None:
            res.append('axioms: ' + ', '.join(cur))
        return res

    # ------------------------------------------------------------------ accounting
    def count(self, key, k=1):
        self.hist[key] = self.hist.get(key, 0) + k

    def record_cases(self, n, keys_nontrivial, rule, samples):
        """keys_nontrivial: iterable of hashable canonical keys of the NON-TRIVIAL cases (distinct ones are counted)."""
        self.evaluations += n
        for k in keys_nontrivial:
            self.distinct.add(k)
        self.rules.append(rule)
        for s in samples[:3]:
            self.samples.append(s)

    # ------------------------------------------------------------------ violations
    def violation(self, check, kind, sig, case, detail, failing_input=True, size=None):
        """check: 'corr:<obs>' | 'checker:<name>' | 'theorem:<name>' | 'oracle:<pred>'.
        failing_input: True when `case` is a concrete input on which the IMPLEMENTATION violates the property."""
        self.violations.append(dict(check=check, kind=kind, sig=sig, case=case, detail=detail,
                                    failing_input=failing_input, size=size if size is not None else len(json.dumps(case, default=str))))

    def finish(self, level='proof', assumptions_extra=()):
        # a run that could evaluate (almost) nothing shows nothing: the property is no longer shown to hold
        skipped = sum(v for k, v in self.hist.items() if k.startswith('library-exception') or k.startswith('skipped'))
        if self.evaluations == 0 or (skipped > 0 and skipped >= 0.6 * max(1, self.evaluations + skipped) and not os.environ.get('VERIF_ALLOW_SKIPS')):
            self.violation('corr:%s/coverage' % self.pid, 'nothing-evaluated', {}, None,
                           dict(evaluations=self.evaluations, skipped=skipped,
                                skip_reasons={k: v for k, v in self.hist.items() if k.startswith('library-exception') or k.startswith('skipped')},
                                note='the implementation raised outside the modelled code path on (almost) every case; nothing was compared'),
                           failing_input=False)
        if len(self.distinct) > self.evaluations:
            # keys are recorded per compared sub-case (step, dimension, request) while the driver counted whole cases:
            # every distinct key IS one evaluated comparison, so the evaluation count is at least that
            self.notes.append('evaluations raised from %d driver cases to %d compared sub-cases' % (self.evaluations, len(self.distinct)))
            self.evaluations = len(self.distinct)
        try:
            from . import impl as _impl
            if _impl.RETRIED[0]:
                self.hist['timeouts-retried-once-with-4x-limit'] = _impl.RETRIED[0]
        except Exception:
            pass
        findings = json.load(open(os.path.join(ROOT, 'known_findings.json')))
        
        known = [f for f in findings if f['property'] == self.pid and f['status'] == 'known']
        groups = {}
        for v in self.violations:
            key = (v['kind'], json.dumps(v['sig'], sort_keys=True, default=str))
            g = groups.setdefault(key, [])
            g.append(v)
        nviol = 0
        seen_known = {}
        lines = []
        for key, vs in sorted(groups.items(), key=lambda kv: (not any(v['failing_input'] for v in kv[1]), kv[0])):
            vs.sort(key=lambda v: (not v['failing_input'], v['size']))
            v = vs[0]
            kf = None
            for f in known:
                if f['signature']['kind'] == v['kind'] and all(
                        (v['sig'].get(k) in val) if isinstance(val, list) else (v['sig'].get(k) == val)
                        for k, val in f['signature'].get('where', {}).items()):
                    kf = f
                    break
            if kf is not None and v['failing_input']:
                seen_known.setdefault(kf['id'], [kf, 0])[1] += len(vs)
                continue
            nviol += 1
            path = os.path.join(ROOT, 'replays', '%s-%s-%d.json' % (self.pid, re.sub(r'\W+', '_', v['kind'])[:40], nviol))
            rep = dict(property=self.pid, check=v['check'], kind=v['kind'], signature=v['sig'], seed=self.seed, tier=self.tier,
                       case=v['case'], detail=v['detail'], occurrences=len(vs),
                       failing_input_found=v['failing_input'],
                       repo_head=sh('git -C %s rev-parse HEAD' % REPO)[1].strip().splitlines()[-1:],
                       repo_dirty_files=[l for l in sh('git -C %s status --short' % REPO)[1].splitlines() if 'conda' not in l][:20])
            if not v['failing_input']:
                rep['no_longer_checks'] = v['check']
            json.dump(rep, open(path, 'w'), indent=1, default=str)
            lines.append('VIOLATION property=%s replay=%s%s' % (self.pid, path, '' if v['failing_input'] else ' no-failing-input-found'))
        for fid, (f, cnt) in sorted(seen_known.items()):
            print('KNOWN-FINDING: property=%s %s [%s; %d occurrences this run]' % (self.pid, f['description'], fid, cnt))
        for ln in lines[:8]:
            print(ln)
        if len(lines) > 8:
            print('(%d further violation groups not printed; see replays/)' % (len(lines) - 8))
        cov = dict(
            obligations=self.obligations, discharged=self.discharged,
            checker_cmd=' ; '.join(self.checker_cmds) or 'none',
            trusted_base=TRUSTED_BASE_COMMON + ['Print Assumptions (%d theorems: %s): %s' % (
                len(self.theorems), ', '.join(self.theorems), '; '.join(sorted(set(self.assumptions))) or 'n/a')],
            evaluations=self.evaluations, distinct_nontrivial=len(self.distinct),
            rule=' || '.join(self.rules), samples=self.samples[:12],
            traces_validated_against_impl=self.traces, exhaustive=False, histogram=self.hist,
            known_findings_seen={k: v[1] for k, v in seen_known.items()}, notes=self.notes)
        cov.update(self.extra)
        ev = dict(property_id=self.pid, tier=self.tier, seed=self.seed, level=level, coverage=cov,
                  assumptions=list(assumptions_extra), wall_s=round(time.time() - self.t0, 2), violations=nviol)
        json.dump(ev, open(os.path.join(ROOT, 'evidence', self.pid + '.json'), 'w'), indent=1, default=str)
        print('%s tier=%s seed=%d obligations=%d/%d evaluations=%d distinct_nontrivial=%d violations=%d known=%d wall=%.1fs' % (
            self.pid, self.tier, self.seed, self.discharged, self.obligations, self.evaluations, len(self.distinct), nviol,
            len(seen_known), time.time() - self.t0))
        return 1 if nviol else 0
