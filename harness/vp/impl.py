"""Run the implementation (current working tree of /repo) on a list of cases in worker processes.

The harness itself runs under /venv/bin/python with PYTHONPATH=$VERIF_REPO, every check run is a fresh
process tree, so the implementation is imported from the working tree as it is now."""
import os
import sys
import signal
import traceback
import multiprocessing as mp

REPO = os.environ.get('VERIF_REPO', '/repo')


class CaseTimeout(Exception):
    pass


def _alarm(signum, frame):
    raise CaseTimeout()


def _init_worker():
    # silence the library's prints; keep stderr
    devnull = os.open(os.devnull, os.O_WRONLY)
    os.dup2(devnull, 1)
    sys.stdout = open(os.devnull, 'w')
    os.chdir(os.environ.get('VERIF_WORK', '/verif/.work'))
    import logging
    logging.disable(logging.CRITICAL)
    import warnings
    warnings.filterwarnings('ignore')


def _call(args):
    fn, case, limit = args
    signal.signal(signal.SIGALRM, _alarm)
    signal.alarm(limit)
    try:
        return ('ok', fn(case))
    except CaseTimeout:
        return ('timeout', None)
    except BaseException as e:  # exceptions are first-class observables
        tb = traceback.extract_tb(e.__traceback__)
        where = ''
        for fr in reversed(tb):
            if REPO in fr.filename:
                where = '%s:%d' % (os.path.relpath(fr.filename, REPO), fr.lineno)
                break
        return ('exc', (type(e).__name__, where, str(e)[:300]))
    finally:
        signal.alarm(0)


def _auto_nproc(nproc):
    """fewer workers when the machine is already saturated (several checks / builders at once): avoids spurious per-case timeouts"""
    cap = int(os.environ.get('VERIF_NPROC', '0') or 0)
    if cap:
        return max(1, min(nproc, cap))
    try:
        load = os.getloadavg()[0]
    except OSError:
        load = 0.0
    if load > 32:
        return min(nproc, 5)
    if load > 16:
        return min(nproc, 8)
    return nproc


RETRIED = [0]   # number of cases re-run after a first timeout (reported by the checks that read it)


def run_impl(fn, cases, nproc=16, limit=120, _retry=True):
    """fn: module-level function case -> result (picklable). Returns list of (status, value)."""
    if not cases:
        return []
    nproc = max(1, min(_auto_nproc(nproc), len(cases)))
    ctx = mp.get_context('fork')
    with ctx.Pool(nproc, initializer=_init_worker, maxtasksperchild=200) as pool:
        res = pool.map(_call, [(fn, c, limit) for c in cases], chunksize=1)
    # a per-case alarm that fires on a saturated machine says nothing about the code: every timed-out case is run once more,
    # few at a time and with four times the limit; only a case that times out again is handed to the property as 'timeout'
    slow = [i for i, (st, _) in enumerate(res) if st == 'timeout']
    if slow and _retry:
        RETRIED[0] += len(slow)
        with ctx.Pool(min(4, len(slow)), initializer=_init_worker, maxtasksperchild=50) as pool:
            for i, r in zip(slow, pool.map(_call, [(fn, cases[i], 4 * limit) for i in slow], chunksize=1)):
                res[i] = r
    return res
