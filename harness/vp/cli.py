import argparse
import importlib
import json
import os
import shutil
import sys

from .core import Check, WORK


def main():
    ap = argparse.ArgumentParser()
    ap.add_argument('prop')
    ap.add_argument('--tier', default=os.environ.get('VERIF_TIER', 'quick'))
    ap.add_argument('--replay', default=None)
    a = ap.parse_args()
    seed = int(os.environ.get('VERIF_SEED', '0') or 0)
    tier = a.tier if a.tier in ('quick', 'thorough') else 'quick'
    mod = importlib.import_module('vp.props.' + a.prop.lower())
    shutil.rmtree(os.path.join(WORK, a.prop), ignore_errors=True)
    chk = Check(a.prop, tier, seed)
    if a.replay:
        rep = json.load(open(a.replay))
        sys.exit(mod.replay(chk, rep))
    mod.run(chk)
    rc = chk.finish(level='proof', assumptions_extra=getattr(mod, 'ASSUMPTIONS', ()))
    sys.exit(rc)


if __name__ == '__main__':
    main()
