"""S-expression wire format shared with the OCaml driver: nested lists of integers, integers in binary."""
from fractions import Fraction


def enc(v):
    if isinstance(v, bool):
        return '1' if v else '0'
    if isinstance(v, int):
        if v == 0:
            return '0'
        return ('-' if v < 0 else '') + bin(abs(v))[2:]
    if isinstance(v, Fraction):
        return '(' + enc(v.numerator) + ' ' + enc(v.denominator) + ')'
    if isinstance(v, (list, tuple)):
        return '(' + ' '.join(enc(x) for x in v) + ')'
    if hasattr(v, 'item'):  # numpy scalar
        return enc(rat(v.item()))
    if isinstance(v, float):
        return enc(rat(v))
    raise TypeError('cannot encode %r' % (v,))


def dec(s):
    """Parse one s-expression into nested lists of ints."""
    toks = s.replace('(', ' ( ').replace(')', ' ) ').split()
    pos = 0

    def item():
        nonlocal pos
        t = toks[pos]
        pos += 1
        if t == '(':
            out = []
            while toks[pos] != ')':
                out.append(item())
            pos += 1
            return out
        if t == '0':
            return 0
        if t[0] == '-':
            return -int(t[1:], 2)
        return int(t, 2)
    v = item()
    if pos != len(toks):
        raise ValueError('trailing tokens')
    return v


def rat(x):
    """Exact rational of a Python/numpy number (floats are converted exactly, integral floats to int-valued Fractions)."""
    if isinstance(x, Fraction):
        return x
    if isinstance(x, bool):
        return Fraction(int(x))
    if isinstance(x, int):
        return Fraction(x)
    if hasattr(x, 'item'):
        x = x.item()
        if isinstance(x, int):
            return Fraction(x)
    n, d = float(x).as_integer_ratio()
    return Fraction(n, d)


def q(v):
    """Decode a model rational (n d) into a Fraction."""
    if isinstance(v, int):
        return Fraction(v)
    return Fraction(v[0], v[1])


def is_err(v):
    return isinstance(v, list) and len(v) == 2 and v[0] == -999
