"""Source-derived models (DESIGN.md 0.5): run the translator for one target and diagnose the chain
generated file -> lemmas -> equivalence proofs.  Used by props/c09.py (target grid) and props/c11.py (target extrapolation);
props/c01.py carries its own copy for the combischeme target."""
import fcntl
import hashlib
import json
import os
import re
import subprocess
import sys
from .core import ROOT, COQ, sh

TRANSLATOR = os.path.join(ROOT, 'harness', 'translate', 'py2gallina.py')

ASSUMPTION = ('source-derived model: Python `ast`, the translation scheme of harness/translate/py2gallina.py and the semantics '
              'libraries coq/Base/PyLib.v + coq/Base/PyNum.v are trusted; in particular PYTHON FLOATS ARE READ AS EXACT RATIONALS '
              '(float arithmetic = exact arithmetic, float comparisons = exact comparisons, rounding/inf/nan not modelled), '
              'numpy float arrays are lists with value semantics (aliasing rejected by the translator), exceptions = no '
              'result, parameter annotations and the declared attribute types are typing preconditions, method calls are '
              'resolved through the MRO of the classes of the target list (closed world)')


def run_translator(chk, target, gen_file):
    """Regenerates coq/Gen/<gen_file> from the working tree ($VERIF_REPO) under the build lock."""
    with open(os.path.join(ROOT, '.buildlock'), 'w') as lk:
        fcntl.flock(lk, fcntl.LOCK_EX)
        p = subprocess.run([sys.executable, TRANSLATOR, '--target', target], capture_output=True, text=True)
    msg = '\n'.join(l for l in p.stderr.splitlines() if 'conda' not in l).strip()
    chk.checker_cmds.append('/venv/bin/python harness/translate/py2gallina.py --target %s  (regenerates coq/Gen/%s from the source)'
                            % (target, gen_file))
    info = dict(rc=p.returncode, message=msg, target=target)
    try:
        src = open(os.path.join(COQ, 'Gen', gen_file)).read()
        info['generated_sha256'] = hashlib.sha256(src.encode()).hexdigest()
        info['translated'] = re.findall(r'^\(\* (\S+:\d+-\d+)  (\S+) \*\)$', src, re.M)
    except OSError:
        pass
    chk.extra['source_derived_model'] = info
    return info


def gen_diagnosis(chk, tinfo, chain):
    """chain: the files from the generated one to the last equivalence proof, in dependency order.
    None when everything is in place; otherwise a message naming the rejected construct / the file that does not
    compile / the theorem that no longer holds."""
    if tinfo['rc'] != 0:
        return 'translator rejected the source: ' + tinfo['message']

    def uptodate(f):
        return sh('make -f Makefile.coq -q %s.vo' % f[:-2], cwd=COQ)[0] == 0
    if uptodate(chain[-1]):
        return None
    os.makedirs(chk.work, exist_ok=True)
    for f in chain:
        if uptodate(f):
            continue
        rc, out = sh('timeout 900 coqc -Q . SG -o %s %s' % (os.path.join(chk.work, os.path.basename(f) + 'o'), f), cwd=COQ)
        out = '\n'.join(l for l in out.splitlines() if 'conda' not in l)
        if rc == 0:
            continue      # compiles on its own (e.g. regenerated meanwhile); the problem is further down the chain
        m = re.search(r'line (\d+)', out)
        thm = None
        if m:
            for ln in open(os.path.join(COQ, f)).read().splitlines()[:int(m.group(1))]:
                mm = re.match(r'\s*(?:Theorem|Lemma|Corollary|Definition|Fixpoint|Example)\s+(\w+)', ln)
                if mm:
                    thm = mm.group(1)
        if f.startswith('Gen/'):
            return 'generated model %s does not type-check (in %s): %s' % (f, thm, out[-1200:])
        return 'the source-derived model changed its meaning: %s of %s no longer holds: %s' % (thm, f, out[-1200:])
    return '%so is not up to date (build problem): see setup notes' % chain[-1]


def report(chk, tinfo, gen_problem, what):
    """status line for the evidence; the violation (if any) is raised by finish_gen after the failing-input search"""
    chk.extra['source_derived_model']['status'] = gen_problem or ('generated, equivalent to the hand-written model (%s proved)' % what)


def _matches_known(chk, v):
    try:
        findings = json.load(open(os.path.join(ROOT, 'known_findings.json')))
    except (OSError, ValueError):
        return False
    for f in findings:
        if f.get('property') != chk.pid or f.get('status') != 'known':
            continue
        if f['signature']['kind'] == v['kind'] and all(
                (v['sig'].get(k) in val) if isinstance(val, list) else (v['sig'].get(k) == val)
                for k, val in f['signature'].get('where', {}).items()):
            return True
    return False


def finish_gen(chk, tinfo, gen_problem):
    """broken proof obligation of the source-derived model and no NEW concrete failing input found by correspondence /
    oracle (violations that match a known finding do not count: they are there on the unchanged tree as well)"""
    if gen_problem and not any(v['failing_input'] and not _matches_known(chk, v) for v in chk.violations):
        chk.violation('theorem:gen-equivalence', 'translator-or-equivalence-broken',
                      {'stage': 'translator' if tinfo['rc'] != 0 else 'coq'}, None, gen_problem, failing_input=False)
