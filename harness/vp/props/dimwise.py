"""Shared by C03 and C06: drives the REAL SpatiallyAdaptiveSingleDimensions2 step by step with a scripted
ErrorCalculator and compares every state with the extracted Coq model (Model/RefTree.v, Model/DimWise.v)."""
import itertools
import random
from fractions import Fraction
from .. import sx

VERSIONS = [6, 2, 3, 7, 8]
MARGINS = [None, None, 0.5, 0.75, 1.0, 0.25]      # None = library default 0.9
SAFETY = [0.1, 0.1, 0.0, 0.125, 0.25, 0.05]
MAX_INTERVALS = 26        # per dimension; the generator stops refining "everything" beyond this size
SAFETY_DEEP = [0.0, 0.05, 0.1]
DEEP_CAP = 64             # per dimension, deep / installed families
BOXES = [(0.0, 1.0), (0.0, 1.0), (-1.0, 1.0), (0.5, 2.0), (-3.0, 6.0), (2.0, 2.25)]


# ----------------------------------------------------------------------------------------------- generator
def gen_case(rng, tier, what):
    dim = rng.choice([2, 2, 2, 3, 3, 4] if tier == 'quick' else [2, 2, 3, 3, 4, 4])
    if rng.random() < 0.06:
        dim = 1
    lmin = rng.choice([1, 1, 1, 2])
    lmax = lmin + rng.choice([1, 1, 2])
    if dim == 4 or lmax > 3:
        lmax = min(lmax, 3)
    lmin = min(lmin, lmax - 1)
    if lmax < 2:
        lmax = 2
    if dim == 2 and rng.random() < 0.4:       # dim 2: lmin 1..3 with lmax = lmin+1 or lmin+2
        lmin = rng.choice([1, 2, 3, 3])
        lmax = max(2, lmin + rng.choice([1, 1, 2]))
        if what >= 2 and lmax >= 5:
            lmax = 4
    steps = rng.randrange(1, 7 if tier == 'quick' else 11)
    if dim == 4:
        steps = min(steps, 4)
        if lmax >= 3:                       # 9^4-point component grids: only short histories
            steps = min(steps, 1)
    if dim == 3 and lmax >= 3:
        steps = min(steps, 5)
    if what >= 2:          # stripes and component-grid points are observed: keep the grids small
        if dim == 4:
            lmin, lmax, steps = 1, 2, min(steps, 3)
        elif dim == 3:
            steps = min(steps, 4 if lmax <= 2 else 3)
    if dim == 2 and lmax >= 4:
        steps = min(steps, 5 if what < 2 else 4)
    ab = [rng.choice(BOXES) for _ in range(dim)]
    c = dict(what=what, dim=dim, lmin=lmin, lmax=lmax, version=rng.choice(VERSIONS),
             rebalancing=rng.random() < 0.5, boundary=rng.random() < 0.6,
             margin=rng.choice(MARGINS), safety=rng.choice(SAFETY),
             a=[x[0] for x in ab], b=[x[1] for x in ab], steps=steps, seed=rng.randrange(1 << 30))
    return far_boxes(rng, c)


def far_boxes(rng, c, p=0.15):
    """(d) with probability p the domain is far from the origin / tiny / huge in (some of) its dimensions; all mid points stay
    exactly representable.  The test function of such a case is prod_k (x_k - a_k), compared relative to the box volume."""
    if rng.random() < p:
        ab = [rng.choice(FAR_BOXES) if rng.random() < 0.7 else rng.choice(BOXES) for _ in range(c['dim'])]
        c.update(a=[x[0] for x in ab], b=[x[1] for x in ab], fscale=True)
    return c


def margin_of(case):
    return 0.9 if case['margin'] is None else case['margin']


def float_selects(b, bmax, margin):
    return b >= bmax * margin


def exact_selects(b, bmax, margin):
    return Fraction(b) >= Fraction(bmax) * Fraction(margin)


def gen_benefits(rng, sizes, margin, mode=None):
    """Benefit per (dimension, position). Values on the lattice k/16 so that the margin test is exact;
    assignments on which the binary64 test and the exact test disagree are redrawn."""
    total = sum(sizes)
    for attempt in range(20):
        modes = ['random', 'random', 'single', 'ties', 'one-dim', 'few']
        if max(sizes) <= MAX_INTERVALS // 2:
            modes += ['zeros', 'all-equal']
        m = mode or rng.choice(modes)
        if max(sizes) > MAX_INTERVALS:
            m = rng.choice(['single', 'few'])
        if attempt > 10:
            m = 'single'
        bens = [[0.0] * n for n in sizes]
        if m == 'zeros':
            pass
        elif m == 'all-equal':
            v = rng.choice([1, 4, 16]) / 16
            bens = [[v] * n for n in sizes]
        elif m == 'single':
            d = rng.randrange(len(sizes)); bens[d][rng.randrange(sizes[d])] = rng.choice([1, 8, 16]) / 16
        elif m == 'few':
            for _ in range(rng.randrange(1, 4)):
                d = rng.randrange(len(sizes)); bens[d][rng.randrange(sizes[d])] = rng.choice([8, 15, 16]) / 16
        elif m == 'ties':
            top = rng.choice([16, 8, 10, 12]) / 16
            for d, n in enumerate(sizes):
                for i in range(n):
                    r = rng.random()
                    bens[d][i] = top if r < 0.15 else (top * margin if r < 0.4 and (top * margin * 16) == int(top * margin * 16) else
                                                       rng.choice([0, 1, 2]) / 16)
            d = rng.randrange(len(sizes)); bens[d][rng.randrange(sizes[d])] = top
        elif m == 'one-dim':
            d = rng.randrange(len(sizes))
            bens[d] = [rng.choice([0, 0, 4, 9, 10, 16]) / 16 for _ in range(sizes[d])]
        else:
            p = rng.choice([0.2, 0.5, 0.8])
            bens = [[(rng.randrange(1, 17) / 16 if rng.random() < p else 0.0) for _ in range(n)] for n in sizes]
        bmax = max([0.0] + [b for bd in bens for b in bd])
        if all(float_selects(b, bmax, margin) == exact_selects(b, bmax, margin) for bd in bens for b in bd):
            nsel = [sum(1 for b in bd if float_selects(b, bmax, margin)) for bd in bens]
            if all(n + s <= 2 * MAX_INTERVALS for n, s in zip(sizes, nsel)):
                return m, bens
    bens = [[0.0] * n for n in sizes]
    bens[0][0] = 1.0
    return 'single', bens


# ----------------------------------------------------------------------------------------------- deep / installed families
def gen_case_deep(rng, tier, what, lift_bias=0.0):
    """Long histories (8-16 steps) in 2 dimensions that build deep, strongly unbalanced trees: refinement piled into one
    dyadic region / one spike of one dimension, alternating with tied multi-interval refinement and with
    'deepest interval + broad block on the far side' steps (which provoke rotations in the step that raises lmax).
    Driven DIRECTLY (benefit attributes set on the objects, refine() called; no evaluation in between), so that
    thousands of steps are affordable."""
    lmin = rng.choice([1, 2, 3, 3])
    lmax = max(2, lmin + rng.choice([1, 1, 1, 2]))
    if what >= 2:
        lmax = min(lmax, 4)
        lmin = min(lmin, lmax - 1)
    dim = 1 if rng.random() < 0.06 else 2
    ab = [rng.choice(BOXES) for _ in range(dim)]
    steps = rng.randrange(8, 17) if what < 2 else rng.randrange(5, 9)
    version = rng.choice([6, 6, 7, 8, 2, 3])
    rebal = rng.random() < 0.9
    if rng.random() < lift_bias:
        # the envelope in which a rotation can lift a never-refined initial leaf to a level <= lmin (subtree maximum level
        # <= lmin on a non-top component level): lmax = lmin + 1 >= 4, rebalancing on, the versions that use the level vector
        lmin, lmax, version, rebal = 3, 4, rng.choice([6, 7, 8]), True
        steps = rng.randrange(5, 12)
    c = dict(what=what, dim=dim, lmin=lmin, lmax=lmax, version=version,
             rebalancing=rebal, boundary=rng.random() < 0.7,
             margin=rng.choice([None, None, None, 0.5, 1.0, 0.75]), safety=rng.choice(SAFETY_DEEP),
             a=[x[0] for x in ab], b=[x[1] for x in ab], steps=steps, seed=rng.randrange(1 << 30),
             drive='direct', family='deep')
    return far_boxes(rng, c)


def _geometry(rng, n_splits, mode, base=0, maxdepth=10):
    """random dyadic bisection of [0,1] that refines the uniform grid of level `base` (every reachable state contains the
    points of the initial grid): list of (start, end, depth)"""
    ivs = [(Fraction(k, 1 << base), Fraction(k + 1, 1 << base), base) for k in range(1 << base)]
    focus = rng.choice([Fraction(0), Fraction(1), Fraction(1, 2), Fraction(rng.randrange(0, 17), 16)])
    for _ in range(n_splits):
        cands = [k for k, iv in enumerate(ivs) if iv[2] < maxdepth]
        if not cands:
            break
        if mode == 'uniform':
            k = rng.choice(cands)
        elif mode == 'focus':
            k = min(cands, key=lambda k: (abs((ivs[k][0] + ivs[k][1]) / 2 - focus), k))
            if rng.random() < 0.35:
                k = min(max(k + rng.choice([-2, -1, 1, 2]), 0), len(ivs) - 1)
                if ivs[k][2] >= maxdepth:
                    continue
        else:
            half = [k for k in cands if (ivs[k][0] >= Fraction(1, 2)) == (focus >= Fraction(1, 2))] or cands
            k = rng.choice(half)
        s_, e_, dep = ivs[k]
        m = (s_ + e_) / 2
        ivs[k:k + 1] = [(s_, m, dep + 1), (m, e_, dep + 1)]
    return ivs


def _levels_geom(ivs):
    """levels as produced by refinement without rotations: level of a mid point = max(levels of the end points) + 1"""
    pts = [ivs[0][0]] + [iv[1] for iv in ivs]
    have = set(pts)
    lev = {pts[0]: 0, pts[-1]: 0}
    stack = [(pts[0], pts[-1])]
    while stack:
        s_, e_ = stack.pop()
        m = (s_ + e_) / 2
        if m in have:
            lev[m] = max(lev[s_], lev[e_]) + 1
            stack.append((s_, m))
            stack.append((m, e_))
    return [lev[p_] for p_ in pts]


def _levels_bst(rng, n_pts, mode):
    """levels of an arbitrary binary refinement tree over the inner points (a random binary-search-tree shape): every
    level assignment that satisfies the C06 invariant arises this way"""
    lev = [0] * n_pts
    stack = [(1, n_pts - 1, 1)]
    while stack:
        lo, hi, lvl = stack.pop()
        if lo >= hi:
            continue
        n = hi - lo
        if mode == 'balanced':
            r = lo + (n - 1) // 2 + (rng.randrange(2) if n % 2 == 0 else 0)
        elif mode == 'random':
            r = rng.randrange(lo, hi)
        else:
            mid = lo + n // 2
            r = min(max(mid + rng.randrange(-max(1, n // 4), max(1, n // 4) + 1), lo), hi - 1)
        lev[r] = lvl
        stack.append((lo, r, lvl + 1))
        stack.append((r + 1, hi, lvl + 1))
    return lev


def gen_tree(rng, a, b, n_splits, base=0):
    """a random VALID refinement tree on [a,b]: dyadic geometry (a refinement of the uniform grid of level `base`) + binary-tree
    levels. Entries [start, end, l0, l1] (Fractions)."""
    gm = rng.choice(['uniform', 'focus', 'focus', 'half'])
    ivs = _geometry(rng, n_splits, gm, base=base)
    lm = rng.choice(['geom', 'balanced', 'perturbed', 'perturbed', 'random'])
    lev = _levels_geom(ivs) if lm == 'geom' else _levels_bst(rng, len(ivs) + 1, lm)
    a, b = sx.rat(a), sx.rat(b)
    return [[a + (b - a) * iv[0], a + (b - a) * iv[1], lev[k], lev[k + 1]] for k, iv in enumerate(ivs)], gm + '/' + lm


def gen_case_install(rng, tier, what):
    """One to three steps from a randomly constructed VALID deep state: the containers of a freshly initialised strategy get
    RefinementObjectSingleDimension objects of the generated shape, refinement_postprocessing() (with or without the
    rebalancing pass) makes coarsening levels, lmax and the scheme consistent, then refine() steps follow."""
    c = gen_case_deep(rng, tier, what)
    trees, shapes = [], []
    big = rng.random() < 0.02 and what < 2
    for d in range(c['dim']):
        # the geometry refines the initial grid of level lmax (as in every reachable state); one case in eight starts from an
        # arbitrary valid tree instead (possibly shallower than the initial grid)
        base = c['lmax'] if rng.random() < 0.875 else 0
        # (at least 3 intervals: with a single inner point the version-8 loop of the library does not terminate - the
        # degenerate case lmax = 1 that initialize_refinement rejects)
        nsp = rng.choice([0, 3, 6, 10, 16, 24] if what < 2 else [0, 3, 6, 10, 14])
        if big and d == 0:          # (h) a few trees far above every size seen otherwise
            nsp = rng.randrange(200, 280)
        t, shape = gen_tree(rng, c['a'][d], c['b'][d], nsp if base > 0 else max(nsp, 3), base=base)
        trees.append([[[o[0].numerator, o[0].denominator], [o[1].numerator, o[1].denominator], o[2], o[3]] for o in t])
        shapes.append(shape)
    c.update(steps=rng.randrange(1, 4), family='install', rebalancing=rng.random() < 0.85,
             install=dict(rebalance=rng.random() < 0.5, trees=trees, shapes=shapes))
    if rng.random() < 0.15:
        c['drive'] = 'full'
    return c


def add_sweep_axes(rng, c, what):
    """Lessons sweep: the generic axes (a)-(i) of harness/AGENT_NOTE_HISTORIES.txt drawn independently on top of a case of any
    family.  (a) argument immutability + (c) returned-object aliasing + (e) public observer calls between steps: observe/scribble;
    (b) kind of object carrying the bounds, level vectors and points; (d) boxes far from the origin / tiny boxes, benefit
    magnitudes; (f) further performSpatiallyAdaptiv calls with other limits on the same object; (g) a second strategy object alive
    and stepping in the same process; (h) a few trees with > 200 intervals (gen_case_install); (i) d = 1 (in the families)."""
    dim = c['dim']
    fam = c.get('family') or 'mixed'
    if rng.random() < 0.25:
        kinds = ['list', 'tuple', 'view']
        if all(float(x) == int(x) for x in c['a'] + c['b']):
            kinds.append('int')
        if all((x, y) in ((0.0, 1.0), (-1.0, 1.0)) for x, y in zip(c['a'], c['b'])):
            kinds.append('f32')
        c['ab'] = rng.choice(kinds)
    heavy = dim >= 4 and what >= 2
    if rng.random() < 0.3 and not heavy:
        c['observe'] = True
        c['scribble'] = rng.random() < 0.5
    if c.get('install') is None and rng.random() < 0.2 and not heavy:
        levels = [(1, 2), (1, 3), (2, 3)] + ([(2, 4), (3, 4)] if dim <= 2 else [])
        if dim >= 4:
            levels = [(1, 2)]
        legs = []
        for _ in range(rng.choice([1, 1, 2])):
            lmin2, lmax2 = rng.choice(levels)
            legs.append(dict(mode=rng.choice(['fresh', 'fresh', 'container']), lmin=lmin2, lmax=lmax2, steps=rng.randrange(1, 4)))
        c['legs'] = legs
        if what >= 2 or dim >= 3:
            c['steps'] = min(c['steps'], 3)
    if rng.random() < 0.1:
        comp = gen_case_deep(rng, 'quick', 1 if what >= 1 else 0)
        comp['steps'] = rng.randrange(2, 6)
        c['companion'] = comp
    if fam in ('deep', 'install') and rng.random() < 0.3:
        c['bscale'] = True
    return c


def _noise(rng, margin):
    vals = [0.0, 0.0, 0.0]
    if margin > 0.25:
        vals.append(0.25)
    if margin > 0.5:
        vals.append(0.5)
    return rng.choice(vals)


def gen_benefits_deep(rng, trees, memo, margin):
    """trees: per dimension list of (start, end, l0, l1, coarsening) with start/end as Fractions in the unit interval
    (normalised).  Selected intervals get benefit 1, all others a value strictly below margin (ties throughout)."""
    sizes = [len(t) for t in trees]
    nd = len(trees)
    if 'style' not in memo:
        memo['style'] = rng.choice(['region', 'region', 'mix', 'broad'])
        memo['d'] = rng.randrange(nd)
        k = rng.choice([1, 2, 2, 3, 3, 4, 4])
        # corner, next to the corner (mass there makes the rebalancing lift the untouched neighbours), anywhere
        j = rng.choice([0, (1 << k) - 1, 1, (1 << k) - 2, rng.randrange(1 << k), rng.randrange(1 << k)]) % (1 << k)
        memo['reg'] = (Fraction(j, 1 << k), Fraction(j + 1, 1 << k))
        memo['p'] = rng.choice([0.25, 0.5, 0.8])
        memo['focus'] = Fraction(rng.randrange(0, 65), 64)
    style = memo['style']
    r = rng.random()
    if style == 'region':
        mode = 'region' if r < 0.8 else ('c0broad' if r < 0.9 else 'spike')
    elif style == 'broad':
        mode = 'c0broad' if r < 0.6 else ('spike' if r < 0.85 else 'region')
    else:
        mode = 'spike' if r < 0.4 else ('c0broad' if r < 0.7 else ('region' if r < 0.9 else 'few'))
    d = memo['d']
    if max(sizes) >= DEEP_CAP - 4:
        mode = 'spike'
    t = trees[d]
    sel = {}
    if mode == 'region':
        lo, hi = memo['reg']
        inside = [i for i, o in enumerate(t) if lo <= o[0] and o[1] <= hi] or [i for i, o in enumerate(t) if o[0] < hi and lo < o[1]]
        q = rng.random()
        if q < 0.35:          # the deepest ones inside the region
            mx = max(max(t[i][2], t[i][3]) for i in inside)
            pick = [i for i in inside if max(t[i][2], t[i][3]) == mx]
            pick = [i for i in pick if rng.random() < 0.7] or pick[:1]
        elif q < 0.6:
            pick = [rng.choice(inside)]
        else:
            pick = [i for i in inside if rng.random() < memo['p']] or [rng.choice(inside)]
        sel[d] = pick
        if rng.random() < 0.2:
            d2 = (d + 1) % nd
            sel[d2] = [rng.randrange(sizes[d2]) if rng.random() < 0.5 else sizes[d2] - 1]
    elif mode == 'spike':
        f = memo['focus']
        i = min(range(len(t)), key=lambda k: (abs((t[k][0] + t[k][1]) / 2 - f), k))
        pick = [i]
        if rng.random() < 0.3:
            pick.append(min(max(i + rng.choice([-1, 1]), 0), len(t) - 1))
        sel[d] = pick
    elif mode == 'c0broad':   # one (two) interval(s) of coarsening level 0 + a broad block on one side of it
        if rng.random() < 0.3:
            d = rng.randrange(nd)
            t = trees[d]
        n = len(t)
        zero = [i for i, o in enumerate(t) if o[4] == 0] or [rng.randrange(n)]
        i = rng.choice(zero)
        pick = [i]
        if rng.random() < 0.3:
            pick.append(rng.choice(zero))
        if (rng.random() < 0.5 and i >= 2) or i + 2 >= n:
            lo, hi = 0, i
        else:
            lo, hi = i + 1, n
        if hi > lo:
            ln = rng.randrange(1, hi - lo + 1)
            st = rng.randrange(lo, hi - ln + 1)
            p_ = rng.choice([1.0, 1.0, 0.6])
            pick += [k for k in range(st, st + ln) if rng.random() < p_]
        sel[d] = pick
    else:
        for _ in range(rng.randrange(1, 4)):
            d2 = rng.randrange(nd)
            sel.setdefault(d2, []).append(rng.randrange(sizes[d2]))
    bens = []
    for dd in range(nd):
        pick = sorted(set(sel.get(dd, [])))
        room = max(1, DEEP_CAP - sizes[dd])
        if len(pick) > room:
            pick = sorted(rng.sample(pick, room))
        pick = set(pick)
        bens.append([1.0 if i in pick else _noise(rng, margin) for i in range(sizes[dd])])
    return mode, bens


# ----------------------------------------------------------------------------------------------- implementation
def _snapshot(sa, what):
    trees, book = [], []
    for d in range(sa.dim):
        c = sa.refinement.get_refinement_container_for_dim(d)
        trees.append([[sx.rat(o.start), sx.rat(o.end), int(o.levels[0]), int(o.levels[1]), int(o.coarsening_level)]
                      for o in c.get_objects()])
        # startNewObjects (which objects count as 'new') is bookkeeping of the evaluation phase, not of the refinement
        # structure: it is not compared (the C14 repair clears the marker after every evaluation)
        book.append([[int(p) for p in c.popArray], 0, int(c.searchPosition)])
    st = dict(trees=trees, lmax=[int(x) for x in sa.lmax],
              scheme=sorted([[int(x) for x in g.levelvector], sx.rat(g.coefficient)] for g in sa.scheme),
              book=[book, int(sa.refinement.curContainer)])
    if getattr(sa.combischeme, 'initialized_adaptive', False):
        st['active'] = sorted([int(x) for x in l] for l in sa.combischeme.active_index_set)
        st['old'] = sorted([int(x) for x in l] for l in sa.combischeme.old_index_set)
    if what >= 1:
        stripes = []
        for d in range(sa.dim):
            per = []
            for l in range(sa.lmin[d], sa.lmax[d] + 1):
                lv = [int(x) for x in sa.lmin]
                lv[d] = l
                coords, levels, _ = sa.get_point_coord_for_each_dim(lv)
                per.append([l, [[sx.rat(x), int(k)] for x, k in zip(coords[d], levels[d])]])
            stripes.append(per)
        st['stripes'] = stripes
        # the stripes of the real component grids (must equal the per-(d,l) stripes: "depend only on d and l")
        comp = []
        for g in sa.scheme:
            coords, levels, _ = sa.get_point_coord_for_each_dim(g.levelvector)
            comp.append([[int(x) for x in g.levelvector],
                         [[[sx.rat(x), int(k)] for x, k in zip(coords[d], levels[d])] for d in range(sa.dim)]])
        st['comp_stripes'] = sorted(comp, key=lambda t: t[0])
    if what >= 2:
        pts = []
        for g in sa.scheme:
            ps = sa.get_points_component_grid(g.levelvector)
            pts.append([[int(x) for x in g.levelvector], sorted([sx.rat(x) for x in p] for p in ps), len(ps)])
        st['points'] = sorted(pts, key=lambda t: t[0])
    return st


def _reraise_timeout(e):
    """the per-case alarm of run_impl must reach run_impl (status 'timeout', retried under load), not be recorded as an
    exception of the implementation"""
    if type(e).__name__ == 'CaseTimeout':
        raise e


def _where(e):
    import os
    import traceback
    repo = os.environ.get('VERIF_REPO', '/repo')
    for fr in reversed(traceback.extract_tb(e.__traceback__)):
        if repo in fr.filename:
            return '%s:%d' % (os.path.relpath(fr.filename, repo), fr.lineno)
    return ''


SENTINEL = -77777.25
SIZE_STOP = 900           # per dimension: a history is stopped when a tree grows beyond every size the generators aim at
OBSERVERS = ['stripes', 'points', 'call', 'num_points', 'check_scheme', 'final_combi', 'points_weights', 'num_each_dim']
FAR_BOXES = [(1024.0, 1024.0 + 2.0 ** -10), (-2.0 ** 20, -2.0 ** 20 + 1.0), (0.0, 2.0 ** -40), (2.0 ** -60, 3 * 2.0 ** -60),
             (-2.0 ** 30, 2.0 ** 30)]


def make_ab(case):
    """the objects handed to the library as domain bounds: kind of object per case (axis b: object reuse / layouts / dtypes)"""
    import numpy as np
    kind = case.get('ab', 'f64')
    av, bv = [float(x) for x in case['a']], [float(x) for x in case['b']]
    if kind == 'list':
        return list(av), list(bv)
    if kind == 'tuple':
        return tuple(av), tuple(bv)
    if kind == 'int':
        return np.array([int(x) for x in av]), np.array([int(x) for x in bv])
    if kind == 'f32':
        return np.array(av, dtype=np.float32), np.array(bv, dtype=np.float32)
    if kind == 'view':          # non-contiguous views of larger parents (a strided slice, a column of a Fortran-ordered matrix)
        pa = np.full(2 * len(av) + 1, 9.0)
        pa[1::2] = av
        pb = np.asfortranarray(np.array([[x, 5.0, 7.0] for x in bv]))
        return pa[1::2], pb[:, 0]
    return np.array(av, dtype=float), np.array(bv, dtype=float)


class _Run:
    """One scripted history on ONE implementation object (see impl_run)."""

    def __init__(self, case):
        import numpy as np
        from sparseSpACE.spatiallyAdaptiveSingleDimension2 import SpatiallyAdaptiveSingleDimensions2
        from sparseSpACE.ErrorCalculator import ErrorCalculator
        from sparseSpACE.Grid import GlobalTrapezoidalGrid
        from sparseSpACE.GridOperation import Integration
        from sparseSpACE.Function import Function
        self.np = np
        self.case = case
        self.what = case.get('what', 0)
        self.rng = random.Random(case['seed'])
        self.orng = random.Random(case['seed'] ^ 0xabcdef)          # observer choices: independent of the benefit stream
        self.dim = dim = case['dim']
        self.margin = margin_of(case)
        self.fixed = case.get('bens')
        self.direct = case.get('drive', 'full') == 'direct'
        self.inst = case.get('install')
        self.deep = case.get('family') in ('deep', 'install')
        self.qa = [sx.rat(x) for x in case['a']]
        self.qb = [sx.rat(x) for x in case['b']]
        self.bscale = case.get('bscale')
        self.round = 0
        self.modes = []
        self.memo = {}
        self.problems = []             # implementation-only oracle findings of the sweep axes: [kind, where, detail]
        self.axes = {}
        self.quiet = False              # True while an evaluation must not draw benefits
        a, b = make_ab(case)
        self.a_obj, self.b_obj = a, b
        self.a_copy, self.b_copy = [float(x) for x in a], [float(x) for x in b]
        frng = random.Random(case['seed'] ^ 0x5f5f)
        self.frng = frng
        if case.get('fscale'):
            # boxes far from the origin / tiny boxes: f(x) = prod_k (x_k - a_k), values in [0, prod of the widths] (compared relative to that)
            alpha = [Fraction(0) for _ in range(dim)]
            beta = [-x for x in self.qa]
            scale = 1.0
            for x, y in zip(self.qa, self.qb):
                scale *= float(y - x)
            self.fscale = scale
        else:
            # f(x) = sum_k alpha_k x_k^2 + prod_k (beta_k + x_k): smooth, non-multilinear, dyadic coefficients
            alpha = [Fraction(frng.choice([0, 1, 2, -1, 3]), 2) for _ in range(dim)]
            beta = [Fraction(frng.choice([2, 3, 4, 7]), 2) for _ in range(dim)]
            self.fscale = None
        self.alpha, self.beta = alpha, beta
        fa, fb = [float(x) for x in alpha], [float(x) for x in beta]

        class TestFunction(Function):
            def eval(self, coordinates):
                s_, p_ = 0.0, 1.0
                for k, xk in enumerate(coordinates):
                    s_ += fa[k] * xk * xk
                    p_ *= (fb[k] + xk)
                return s_ + p_

            def output_length(self):
                return 1

        run = self

        class Scripted(ErrorCalculator):
            def __init__(self):
                super().__init__()
                self.table = None

            def calc_error(self, refine_object, norm, volume_weights=None):
                if run.direct or run.quiet:
                    return 0.0 if run.direct else (self.table or {}).get((refine_object.this_dim, refine_object.start), 0.0)
                if self.table is None:
                    bens = run.next_benefits()
                    self.table = {}
                    for d, c in enumerate(run.containers()):
                        for i, o in enumerate(c.get_objects()):
                            self.table[(d, o.start)] = bens[d][i]
                return self.table[(refine_object.this_dim, refine_object.start)]

        self.f = TestFunction()
        self.ec = Scripted()
        grid = GlobalTrapezoidalGrid(a, b, boundary=case['boundary'], modified_basis=False)
        op = Integration(self.f, grid=grid, dim=dim, reference_solution=None)
        kw = dict(version=case['version'], operation=op, rebalancing=case['rebalancing'],
                  rebalancing_safety_factor=case['safety'])
        if case['margin'] is not None:
            kw['margin'] = case['margin']
        self.sa = SpatiallyAdaptiveSingleDimensions2(a, b, **kw)
        self.out = dict(states=[], bens=[], selected=[], modes=self.modes, max_size=0, legs=[], problems=self.problems, axes=self.axes,
                        fixed=self.fixed)
        self.cur = self.out         # the leg that is being recorded

    # -------------------------------------------------------------------------------------------
    def axis(self, key, k=1):
        self.axes[key] = self.axes.get(key, 0) + k

    def containers(self):
        return [self.sa.refinement.get_refinement_container_for_dim(d) for d in range(self.dim)]

    def next_benefits(self):
        conts = self.containers()
        sizes = [c.size() for c in conts]
        fixed = self.cur.get('fixed')
        rnd = len(self.cur['bens'])
        if fixed is not None and rnd < len(fixed):
            bens = [[float(Fraction(*x)) if isinstance(x, (list, tuple)) else float(x) for x in bd] for bd in fixed[rnd]]
            mode = 'fixed'
        elif self.deep:
            trees = [[((sx.rat(o.start) - self.qa[d]) / (self.qb[d] - self.qa[d]), (sx.rat(o.end) - self.qa[d]) / (self.qb[d] - self.qa[d]),
                       int(o.levels[0]), int(o.levels[1]), int(o.coarsening_level)) for o in c.get_objects()]
                     for d, c in enumerate(conts)]
            mode, bens = gen_benefits_deep(self.rng, trees, self.memo, self.margin)
            if self.bscale:        # magnitudes: all benefits of the step times a power of two (the margin test stays exact)
                k = self.rng.randrange(-60, 31)
                bens = [[x * 2.0 ** k for x in bd] for bd in bens]
                self.axis('d:benefit-scale-2^%s' % ('<=-20' if k <= -20 else ('>=10' if k >= 10 else 'mid')))
        else:
            mode, bens = gen_benefits(self.rng, sizes, self.margin)
        self.modes.append(mode)
        return [[(bens[d][i] if i < len(bens[d]) else 0.0) for i in range(sizes[d])] for d in range(self.dim)]

    def perform(self, lmin, lmax, container=None):
        res = self.sa.performSpatiallyAdaptiv(lmin, lmax, self.ec, tol=-1, refinement_container=container, max_evaluations=1,
                                              print_output=False)
        self.last_result = res
        return res

    def start(self):
        case, sa = self.case, self.sa
        from sparseSpACE.RefinementObject import RefinementObjectSingleDimension
        if self.inst is not None and not self.direct:
            self.quiet = True            # the evaluation of the start state draws no benefits
            self.perform(case['lmin'], case['lmax'])
            self.quiet = False
        else:
            self.perform(case['lmin'], case['lmax'])
        if self.inst is not None:
            try:
                for d, t in enumerate(self.inst['trees']):
                    c = sa.refinement.get_refinement_container_for_dim(d)
                    c.refinementObjects = [RefinementObjectSingleDimension(float(Fraction(*o[0])), float(Fraction(*o[1])), d, self.dim,
                                                                           [int(o[2]), int(o[3])], grid=sa.grid, coarsening_level=0,
                                                                           a=sa.a[d], b=sa.b[d]) for o in t]
                rb = sa.rebalancing
                sa.rebalancing = bool(self.inst['rebalance'])
                try:
                    sa.refinement_postprocessing()
                finally:
                    sa.rebalancing = rb
                if not self.direct:
                    self.ec.table = None
                    self.last_result = sa.continue_adaptive_refinement(tol=-1, max_evaluations=1)
            except Exception as e:
                _reraise_timeout(e)
                self.cur['exc'] = [type(e).__name__, _where(e), str(e)[:300], 0]
                self.cur['states'] = [_snapshot_safe(sa, self.what)]
                return False
        self.cur['states'] = [_snapshot(sa, self.what)]
        self.out['max_size'] = max(self.out['max_size'], max(len(t) for t in self.cur['states'][0]['trees']))
        return True

    def step(self):
        """one refinement step; False when the implementation raised"""
        sa, dim, cur = self.sa, self.dim, self.cur
        conts = self.containers()
        if self.direct:
            bens = self.next_benefits()
            for d, c in enumerate(conts):
                for o, bv in zip(c.get_objects(), bens[d]):
                    o.benefit = bv
            sa.benefit_max = sa.refinement.get_max_benefit()      # what evaluate_operation does after the error estimation
        bens = [[sx.rat(o.benefit) for o in c.get_objects()] for c in conts]
        cur['bens'].append(bens)
        before = [[(o.start, o.end) for o in c.get_objects()] for c in conts]
        step_no = len(cur['bens'])
        try:
            sa.refine()
            after = [set((o.start, o.end) for o in sa.refinement.get_refinement_container_for_dim(d).get_objects()) for d in range(dim)]
            cur['selected'].append([[i for i, se in enumerate(before[d]) if se not in after[d]] for d in range(dim)])
            self.ec.table = None
            if not self.direct:
                self.last_result = sa.continue_adaptive_refinement(tol=-1, max_evaluations=1)
            if max(c.size() for c in self.containers()) > SIZE_STOP:
                # far more intervals than any generated selection can produce: record the (small) state and stop the history here;
                # the selection oracle of the parent reports the step
                cur['states'].append(_snapshot(sa, 0))
                cur['stopped'] = step_no
                return False
            cur['states'].append(_snapshot(sa, self.what))
        except Exception as e:
            _reraise_timeout(e)
            cur['exc'] = [type(e).__name__, _where(e), str(e)[:300], step_no]
            if len(cur['selected']) < len(cur['bens']):
                cur['selected'].append([[] for _ in range(dim)])
            cur['states'].append(_snapshot_safe(sa, 0))
            return False
        self.out['max_size'] = max(self.out['max_size'], max(len(t) for t in cur['states'][-1]['trees']))
        return True

    # ------------------------------------------------------------------------------------------- sweep axes (a) (b) (c) (e)
    def _levelvec_arg(self, lv):
        kind = self.orng.choice(['list', 'tuple', 'ndarray', 'own'])
        self.axis('b:levelvec-as-' + kind)
        if kind == 'list':
            return [int(x) for x in lv]
        if kind == 'tuple':
            return tuple(int(x) for x in lv)
        if kind == 'ndarray':
            return self.np.array([int(x) for x in lv])
        return lv

    def _problem(self, kind, where, detail):
        self.problems.append([kind, where, str(detail)[:300], len(self.out['legs']), len(self.cur['bens'])])

    def _check_args(self, where, args_before):
        """argument immutability: the bound objects and every argument object of the observer call are unchanged"""
        if [float(x) for x in self.a_obj] != self.a_copy or [float(x) for x in self.b_obj] != self.b_copy:
            self._problem('argument-mutated', where, 'domain bounds changed: %s %s' % (list(self.a_obj), list(self.b_obj)))
        for name, obj, copy in args_before:
            now = [tuple(float(v) for v in x) if hasattr(x, '__len__') else float(x) for x in obj]
            if now != copy:
                self._problem('argument-mutated', where, '%s changed: %s -> %s' % (name, copy[:4], now[:4]))

    def _scribble(self, x):
        """overwrite a returned object in place with the sentinel (lists, arrays, nested)"""
        np = self.np
        if isinstance(x, np.ndarray):
            if x.flags.writeable and x.dtype.kind in 'fiu':
                x[...] = SENTINEL
        elif isinstance(x, list):
            for i in range(len(x)):
                if isinstance(x[i], (list, np.ndarray)):
                    self._scribble(x[i])
                else:
                    x[i] = SENTINEL
        elif isinstance(x, tuple):
            for y in x:
                self._scribble(y)

    def observe(self, names, scribble):
        """public observer calls on the live object between two steps: the state (incl. the stripes computed through the
        caches) must be unchanged, arguments untouched, returned objects must not alias the internal state"""
        sa, np = self.sa, self.np
        what = max(self.what, 1) if self.dim <= 3 else self.what
        before = _snapshot(sa, what)
        before['benefits'] = [[o.benefit for o in c.get_objects()] for c in self.containers()]
        def snap():
            st = _snapshot(sa, what)
            st['benefits'] = [[o.benefit for o in c.get_objects()] for c in self.containers()]
            return st

        for name in names:
            self.axis('e:observer-' + name)
            args, rets = [], []
            try:
                if name == 'stripes':
                    for g in list(sa.scheme)[:6]:
                        lv = self._levelvec_arg(g.levelvector)
                        keep = [float(x) for x in lv]
                        ret = sa.get_point_coord_for_each_dim(lv)
                        args.append(('levelvec', lv, keep))
                        rets.append(list(ret[:2]))
                elif name == 'points':
                    for g in list(sa.scheme)[:6]:
                        lv = self._levelvec_arg(g.levelvector)
                        keep = [float(x) for x in lv]
                        ret = sa.get_points_component_grid(lv)
                        args.append(('levelvec', lv, keep))
                        if isinstance(ret, list):
                            rets.append(('clear', ret))
                elif name == 'call':
                    pts = [tuple(self.case['a'][k] + (self.case['b'][k] - self.case['a'][k]) * self.orng.randrange(0, 9) / 8.0
                                 for k in range(self.dim)) for _ in range(3)]
                    if self.orng.random() < 0.5:
                        pts = np.array(pts)
                        self.axis('b:points-as-ndarray')
                    keep = [tuple(float(v) for v in x) for x in pts]
                    rets.append(sa(pts))
                    args.append(('points', pts, keep))
                elif name == 'num_points':
                    sa.get_total_num_points()
                    sa.get_total_num_points(distinct_function_evals=False)
                elif name == 'check_scheme':
                    sa.check_combi_scheme()
                elif name == 'final_combi':
                    rets.append(sa.evaluate_final_combi()[0])
                elif name == 'points_weights':
                    rets.append(list(sa.get_points_and_weights()))
                elif name == 'num_each_dim':
                    rets.append(sa.get_num_points_each_dim())
            except Exception as e:
                _reraise_timeout(e)
                self._problem('observer-raises', name, '%s %s %s' % (type(e).__name__, _where(e), str(e)[:120]))
            self._check_args(name, args)
            after = snap()
            if after != before:
                self._problem('observer-changes-state', name, 'fields %s' % [k for k in before if before[k] != after.get(k)])
                before = after
            if scribble and rets:
                for r_ in rets:
                    if isinstance(r_, tuple) and len(r_) == 2 and r_[0] == 'clear':
                        r_[1][:] = [SENTINEL] * len(r_[1])
                    else:
                        self._scribble(r_)
                after = snap()
                if after != before:
                    self._problem('result-aliases-internal-state', name, 'fields %s' % [k for k in before if before[k] != after.get(k)])
                    before = after
        if scribble:
            self.axis('c:returned-objects-overwritten')

    def probe_returned_tuple(self):
        """(c) the objects returned by performSpatiallyAdaptiv / continue_adaptive_refinement: overwrite lmax and the scheme list,
        look at the state, put the original content back (so that the history goes on either way)"""
        res = getattr(self, 'last_result', None)
        if res is None:
            return
        sa = self.sa
        self.axis('c:returned-tuple-probed')
        before = _snapshot(sa, 0)
        for idx, name in ((2, 'lmax'), (1, 'scheme')):
            obj = res[idx]
            if not isinstance(obj, list):
                continue
            keep = list(obj)
            obj[:] = [SENTINEL] * len(obj) if name == 'lmax' else []
            try:
                broken = (list(sa.lmax) != before['lmax']) if name == 'lmax' else (len(sa.scheme) != len(before['scheme']))
            finally:
                obj[:] = keep
            if broken:
                self._problem('result-aliases-internal-state', 'returned-' + name,
                              'overwriting the %s returned by performSpatiallyAdaptiv/continue_adaptive_refinement changes the strategy' % name)

    # ------------------------------------------------------------------------------------------- (f) restart on the same object
    def restart(self, leg):
        """a further performSpatiallyAdaptiv on the SAME object: mode 'fresh' = other (lmin, lmax), the refinement is rebuilt;
        mode 'container' = the refinement of the previous leg is handed back (lmin/lmax arguments are then ignored)"""
        rec = dict(mode=leg['mode'], lmin=leg['lmin'], lmax=leg['lmax'], states=[], bens=[], selected=[], fixed=leg.get('bens'))
        self.out['legs'].append(rec)
        self.cur = rec
        self.memo = {}
        self.axis('f:restart-' + leg['mode'])
        try:
            self.ec.table = None
            self.perform(leg['lmin'], leg['lmax'], container=(self.sa.refinement if leg['mode'] == 'container' else None))
            rec['states'] = [_snapshot(self.sa, self.what)]
        except Exception as e:
            _reraise_timeout(e)
            rec['exc'] = [type(e).__name__, _where(e), str(e)[:300], 0]
            rec['states'] = [_snapshot_safe(self.sa, 0)]
            return False
        if leg['mode'] == 'fresh':
            # implementation-only differential oracle: a FRESH object with the same options in the same (initial) state
            other = _Run(dict(self.case, lmin=leg['lmin'], lmax=leg['lmax'], install=None, drive='direct', what=self.what,
                              observe=False, legs=None, companion=None))
            other.start()
            fresh = other.out['states'][0]
            mine = rec['states'][0]
            for fld in ('trees', 'lmax', 'scheme', 'stripes', 'comp_stripes', 'points'):
                if fld in mine and mine.get(fld) != fresh.get(fld):
                    rec['fresh_diff'] = fld
                    break
        return True

    def finish_interp(self):
        out, what, sa, f, case, dim, frng = self.out, self.what, self.sa, self.f, self.case, self.dim, self.frng
        last = self.cur['states'][-1]
        if what < 2 or 'points' not in last:
            return
        scale = self.fscale
        # interpolation oracle data: combined interpolant at all points of the combined grid vs the function
        pts = sorted(set(tuple(float(x) for x in p) for comp in last['points'] for p in comp[1]))
        if pts and len(pts) <= 4000:
            vals = sa(pts)
            worst = 0.0
            wp = None
            for p, v in zip(pts, vals):
                fv = f.eval(p)
                e = abs(float(v[0]) - fv) / (scale if scale else (1.0 + abs(fv)))
                if e > worst:
                    worst, wp = e, p
            out['interp'] = [worst, wp, len(pts)]
        # combined interpolant at points off the grid (lattice k/32 of the box) and at a few grid points: compared with the model
        qpts = [[Fraction(case['a'][k]) + (Fraction(case['b'][k]) - Fraction(case['a'][k])) * Fraction(frng.randrange(0, 33), 32)
                 for k in range(dim)] for _ in range(8)]
        qpts += [[Fraction(x) for x in p] for p in frng.sample(pts, min(4, len(pts)))] if pts else []
        vals = sa([tuple(float(x) for x in p) for p in qpts])
        out['poly'] = [self.alpha, self.beta]
        out['interp_points'] = qpts
        out['interp_values'] = [float(v[0]) for v in vals]
        out['interp_scale'] = scale


def impl_run(case):
    """One scripted history on the implementation. The benefits are drawn from the case seed against the live
    state (sizes, levels, coarsening), read back from the objects' `benefit` attribute and returned so that the model
    replays them.
      case['drive'] = 'full' (default): scripted ErrorCalculator, every step = refine() + continue_adaptive_refinement
                      'direct': the benefit attributes are set on the objects, benefit_max as evaluate_operation does, refine()
      case['install'] = dict(rebalance, trees): the run starts from an installed state (see gen_case_install)
      case['observe'] / ['scribble']: public observer calls on the live object between the steps (axes a, b, c, e)
      case['legs']: further performSpatiallyAdaptiv calls on the SAME object after the first history (axis f)
      case['companion']: a second strategy object with other options, alive in the same process, stepped alternately (axis g)
      case['ab']: kind of object that carries the domain bounds (axis b); FAR_BOXES / 'bscale' (axis d); dim = 1 (axis i)
    An exception inside a step is returned with the history up to that step (out['exc'])."""
    run = _Run(case)
    comp = None
    if case.get('companion'):
        comp = _Run(case['companion'])
        run.axis('g:companion-object-interleaved')
        try:
            if not comp.start():
                comp = None
        except Exception as e:
            _reraise_timeout(e)
            comp = None
    out = run.out
    if case.get('ab', 'f64') != 'f64':
        run.axis('b:bounds-as-' + case['ab'])
    if case.get('fscale'):
        run.axis('d:box-far-or-tiny')
    if case['dim'] == 1:
        run.axis('i:dim=1')
    if not run.start():
        return out
    observe = bool(case.get('observe'))
    scribble = bool(case.get('scribble'))
    if observe:
        run.probe_returned_tuple()
    fixed = case.get('bens')
    nsteps = len(fixed) if fixed is not None else case['steps']
    ok = True
    for k in range(nsteps):
        if observe and run.orng.random() < 0.6:
            run.observe(run.orng.sample(OBSERVERS, run.orng.randrange(1, 4)), scribble)
        if comp is not None and k < comp.case['steps']:
            try:
                comp.step()
            except Exception as e:
                _reraise_timeout(e)
                comp = None
            # (g) the other object moved, this one did not: its observable state must be what was recorded after its last step
            try:
                now = _snapshot(run.sa, run.what)
            except Exception as e:
                _reraise_timeout(e)
                now = dict(error=str(e)[:100])
            if now != run.cur['states'][-1]:
                run._problem('depends-on-other-instance', 'companion-step',
                             'fields %s changed while only the other object was stepped' % [f for f in now if now[f] != run.cur['states'][-1].get(f)])
        if not run.step():
            ok = False
            break
        if observe and not run.direct and run.orng.random() < 0.3:
            run.probe_returned_tuple()
    if ok and run.out['states'] and max(len(t) for t in run.out['states'][-1]['trees']) >= 200:
        run.axis('h:intervals>=200')
    if ok:
        for leg in (case.get('legs') or []):
            if not run.restart(leg):
                break
            lfixed = leg.get('bens')
            n = len(lfixed) if lfixed is not None else leg['steps']
            good = True
            for k in range(n):
                if observe and run.orng.random() < 0.5:
                    run.observe(run.orng.sample(OBSERVERS, run.orng.randrange(1, 3)), scribble)
                if not run.step():
                    good = False
                    break
            if not good:
                break
        if not case.get('legs'):
            run.finish_interp()
    for leg in out['legs']:
        leg.pop('fixed', None)
    out.pop('fixed', None)
    if case.get('companion') and ok and 'exc' not in out and not case.get('_solo'):
        # (g) implementation-only differential oracle: the same history WITHOUT the other object alive must give the same states
        solo = impl_run(dict(case, companion=None, _solo=True, bens=[[[[b.numerator, b.denominator] for b in bd] for bd in st]
                                                                      for st in out['bens']],
                             legs=[dict(mode=l['mode'], lmin=l['lmin'], lmax=l['lmax'], steps=len(l['bens']),
                                        bens=[[[[b.numerator, b.denominator] for b in bd] for bd in st] for st in l['bens']])
                                   for l in out['legs']] or None))
        mine = [out['states']] + [l['states'] for l in out['legs']]
        other = [solo['states']] + [l['states'] for l in solo['legs']]
        if mine != other:
            where = next((('leg %d' % j) for j, (x, y) in enumerate(zip(mine, other)) if x != y), 'legs')
            out['problems'].append(['depends-on-other-instance', 'companion', 'states differ from the run without the second object (%s)' % where,
                                    0, len(out['bens'])])
    return out


def _snapshot_safe(sa, what):
    try:
        return _snapshot(sa, what)
    except Exception:
        return dict(trees=[], lmax=[int(x) for x in sa.lmax], scheme=[], book=[[], 0])


# ----------------------------------------------------------------------------------------------- float decisions
_RB_CACHE = {}


def rebalance_exceptions(sf, max_m):
    """Triples (pos, pos1, m) on which the binary64 test of rebalance_interval differs from exact arithmetic
    (the safety factor is taken at its exact binary64 value).  Exact test in integers:
    |pos/m - 1/2| > |pos1/m - 1/2| + N/D  <=>  |2 pos - m| - |2 pos1 - m| > 2 m N / D  <=>  ... >= floor(2 m N / D) + 1.
    The binary64 side is evaluated with numpy float64 (same IEEE operations as the Python expression)."""
    import numpy as np
    max_m = 32 * ((max_m + 31) // 32)
    key = (sf, max_m)
    if key in _RB_CACHE:
        return _RB_CACHE[key]
    sfq = Fraction(sf)
    N, D = sfq.numerator, sfq.denominator
    out = []
    for m in range(1, max_m + 1):
        pos = np.arange(0, m + 2)
        fl = np.abs(pos / m - 0.5)
        ex = np.abs(2 * pos - m).astype(np.int64)
        thr = (2 * m * N) // D + 1
        dfl = fl[:, None] > fl[None, :] + sf
        dex = (ex[:, None] - ex[None, :]) >= thr
        bad = dfl != dex
        np.fill_diagonal(bad, False)
        if bad.any():
            for p_, p1 in zip(*np.nonzero(bad)):
                out.append([int(p_), int(p1), m])
    _RB_CACHE[key] = out
    return out


# Inside these bounds the model takes the binary64 decisions from tables computed by Coq with primitive floats
# (coq/Model/DimWiseFloat.v, theorems C06_rebalance_test_is_binary64_bounded / C03_version3_rounding_is_binary64_bounded); the harness
# supplies decisions only beyond them, and cross-checks its own evaluation of the Python expressions against the tables once per run.
CERTIFIED_SF = (0.1, 0.0, 0.125, 0.25, 0.05)
RB_BOUND = 64
V3_DIM_BOUND = 6
V3_SV_BOUND = 64


def harness_rb_exceptions(sf, max_m):
    exc = rebalance_exceptions(sf, max_m)
    if sf in CERTIFIED_SF:
        return [t for t in exc if t[2] > RB_BOUND]
    return exc


def float_table_mismatches(run_model, prop):
    """the tables of the model (entry sub 7) against the harness' own evaluation of the Python expressions in binary64"""
    bad = []
    res = run_model(prop, [(7, [sx.rat(sf), dim]) for sf in CERTIFIED_SF for dim in (1, 2, 3, 4)])
    k = 0
    for sf in CERTIFIED_SF:
        for dim in (1, 2, 3, 4):
            r = res[k]
            k += 1
            if sx.is_err(r) or isinstance(r, tuple):
                bad.append('model error for sf=%r dim=%d: %s' % (sf, dim, str(r)[:100]))
                continue
            bound, rb, v3 = r
            mine = sorted(t for t in rebalance_exceptions(sf, RB_BOUND) if t[2] <= RB_BOUND)
            if bound != RB_BOUND or sorted([list(t) for t in rb if t[0] != t[1]]) != mine:
                bad.append('rebalancing table of safety factor %r differs from the Python evaluation (%d vs %d entries)' % (sf, len(rb), len(mine)))
            if sorted([list(t) for t in v3]) != sorted(v3_exceptions(dim, V3_SV_BOUND)):
                bad.append('version-3 table of dim %d differs from the Python evaluation' % dim)
    return bad


def v3_exceptions(dim, max_sv=40):
    out = []
    for sv in range(0, max_sv + 1):
        for d in range(dim):
            x = sv / dim
            dfl = x - int(x) > d / dim
            dex = (sv % dim) > d
            if dfl != dex:
                out.append([sv, d])
    return out


def model_case(case, impl_result):
    what = case.get('what', 0)
    max_m = max(2, (impl_result or {}).get('max_size', 8) + 2, max([len(t) for t in (case.get('install') or {}).get('trees', [])] + [0]) + 2)
    erb = harness_rb_exceptions(case['safety'], max_m) if case['rebalancing'] else []
    ev3 = v3_exceptions(case['dim']) if case['version'] == 3 and case['dim'] > V3_DIM_BOUND else []
    bens = impl_result['bens'] if impl_result else [[[Fraction(*x) if isinstance(x, (list, tuple)) else sx.rat(x) for x in bd] for bd in st]
                                                    for st in (case.get('bens') or [])]
    hist = [what, case['dim'], case['lmin'], case['lmax'], case['version'], case['rebalancing'], case['boundary'],
            sx.rat(margin_of(case)), sx.rat(case['safety']), [sx.rat(x) for x in case['a']], [sx.rat(x) for x in case['b']],
            erb, ev3, bens]
    inst = case.get('install')
    if inst is None:
        return (0, hist)
    if not case['rebalancing'] and inst['rebalance']:
        hist[11] = harness_rb_exceptions(case['safety'], max_m)
    trees = [[[Fraction(*o[0]), Fraction(*o[1]), o[2], o[3], 0] for o in t] for t in inst['trees']]
    return (5, [hist, bool(inst['rebalance']), trees])


def leg_model_cases(case, r):
    """model inputs for the further legs of a history on one object (axis f).  A 'fresh' leg is an independent run with the leg's
    (lmin, lmax); a 'container' leg continues the run it was handed (its lmin/lmax arguments are ignored by the library).
    Returns [(leg index, model case, offset of the leg's first state in the model's state list)]."""
    res = []
    base = dict(case)
    bens = list(r['bens'])
    for j, leg in enumerate(r.get('legs') or []):
        if leg['mode'] == 'fresh':
            base = dict(case, lmin=leg['lmin'], lmax=leg['lmax'], install=None)
            bens = list(leg['bens'])
            off = 0
        else:
            off = len(bens)
            bens = bens + list(leg['bens'])
        res.append((j, model_case(base, dict(bens=bens, max_size=r.get('max_size', 8))), off))
    return res


def model_interp_case(case, impl_result):
    sub, val = model_case(case, impl_result)
    if sub == 5:
        return (6, val + [impl_result['poly'][0], impl_result['poly'][1], impl_result['interp_points']])
    return (4, [val, impl_result['poly'][0], impl_result['poly'][1], impl_result['interp_points']])


def decode_model_state(ms):
    trees, lmax, active, old, coeffs, book, oks, stripes, points = ms
    st = dict(trees=[[[sx.q(o[0]), sx.q(o[1]), o[2], o[3], o[4]] for o in t] for t in trees], lmax=lmax,
              active=sorted(active), old=sorted(old),
              scheme=sorted([k, sx.rat(c)] for k, c in coeffs),
              book=[[[b[0], 0, b[2]] for b in book[0]], book[1]],
              tree_ok=[bool(x) for x in oks])
    if stripes:
        st['stripes'] = [[[l, ([[sx.q(p[0]), p[1]] for p in s] if not sx.is_err(s) else 'ERR')] for l, s in per] for per in stripes]
    if points:
        st['points'] = sorted([[k, (sorted([sx.q(x) for x in p] for p in ps) if not sx.is_err(ps) else 'ERR')] for k, ps in points],
                              key=lambda t: t[0])
    return st


# ----------------------------------------------------------------------------------------------- oracles (impl only)
def oracle_tree(a, b, lmax_d, tree):
    """C06 predicate on one implementation tree. None or a description of the violated clause."""
    if not tree:
        return 'empty container'
    if tree[0][0] != a or tree[-1][1] != b:
        return 'intervals do not span [a,b]: first start %s, last end %s' % (tree[0][0], tree[-1][1])
    for i, o in enumerate(tree):
        if not o[0] < o[1]:
            return 'interval %d is empty or reversed' % i
        if i + 1 < len(tree):
            if o[1] != tree[i + 1][0]:
                return 'gap/overlap or wrong order between intervals %d and %d' % (i, i + 1)
            if o[3] != tree[i + 1][2]:
                return 'intervals %d and %d disagree on the level of their shared point' % (i, i + 1)
    if tree[0][2] != 0 or tree[-1][3] != 0:
        return 'an end point does not have level 0'
    L = [tree[0][2]] + [o[3] for o in tree]
    for p in range(1, len(L) - 1):
        v = L[p]
        lo = next((L[q] for q in range(p - 1, -1, -1) if L[q] < v), None)
        hi = next((L[q] for q in range(p + 1, len(L)) if L[q] < v), None)
        if lo is None or hi is None or max(lo, hi) != v - 1:
            return 'binary-tree level condition fails at point %d (level %s, nearest lower levels %s / %s)' % (p, v, lo, hi)
    for p in range(1, len(L) - 1):
        for q in range(p + 1, len(L) - 1):
            if L[q] < L[p]:
                break
            if L[q] == L[p]:
                return 'levels do not form a binary tree: points %d and %d have the same level %s with no lower-level point between them' % (p, q, L[p])
    for i, o in enumerate(tree):
        if o[4] != lmax_d - max(o[2], o[3]):
            return 'coarsening level of interval %d is %s, expected lmax - max(levels) = %s' % (i, o[4], lmax_d - max(o[2], o[3]))
        if o[4] < 0:
            return 'negative coarsening level at interval %d' % i
    if lmax_d < max(L):
        return 'lmax %s below the deepest level %s' % (lmax_d, max(L))
    return None


def clause_of(why):
    """structural name of the violated clause (for signatures): the text with the numbers removed"""
    import re
    w = re.sub(r'^(step \d+: )?(dimension \d+: )?', '', why)
    return re.split(r'[\d\[\(]', w)[0].strip()[:60]


def oracle_state_c06(case, st):
    for d in range(case['dim']):
        why = oracle_tree(sx.rat(case['a'][d]), sx.rat(case['b'][d]), st['lmax'][d], st['trees'][d])
        if why:
            return 'dimension %d: %s' % (d, why)
    return None


def oracle_selection(case, bens, selected):
    """a step splits exactly the intervals whose benefit reaches margin * max benefit"""
    margin = margin_of(case)
    bmax = max([Fraction(0)] + [b for bd in bens for b in bd])
    for d, bd in enumerate(bens):
        want = [i for i, b in enumerate(bd) if float_selects(float(b), float(bmax), margin)]
        if want != selected[d]:
            return 'dimension %d: split positions %s, expected %s (benefits %s, margin %s)' % (
                d, selected[d], want, [str(b) for b in bd], margin)
    return None


def oracle_state_c03(case, st, prev=None):
    """C03 predicate on one implementation state (needs what >= 2)."""
    dim = case['dim']
    stripes = st['stripes']
    for d in range(dim):
        a, b = sx.rat(case['a'][d]), sx.rat(case['b'][d])
        prevset = None
        for l, s in stripes[d]:
            xs = [p[0] for p in s]
            if xs != sorted(xs) or len(set(xs)) != len(xs):
                return 'stripe (d=%d,l=%d) is not strictly sorted' % (d, l)
            if not xs or xs[0] != a or xs[-1] != b:
                return 'stripe (d=%d,l=%d) does not contain the domain end points' % (d, l)
            if prevset is not None and not prevset <= set(xs):
                return 'stripes not nested: (d=%d,l=%d) is not contained in level %d' % (d, l - 1, l)
            prevset = set(xs)
    table = {(d, l): s for d in range(dim) for l, s in stripes[d]}
    for lv, ss in st['comp_stripes']:
        for d in range(dim):
            if (d, lv[d]) not in table:
                return 'component %s: level %d outside lmin..lmax in dimension %d' % (lv, lv[d], d)
            if ss[d] != table[(d, lv[d])]:
                return 'component %s: stripe of dimension %d differs from the stripe of (d=%d,l=%d)' % (lv, d, d, lv[d])
    if 'points' in st:
        coeff = dict((tuple(k), c) for k, c in st['scheme'])
        total = {}
        for lv, ps, n in st['points']:
            want = sorted([list(p) for p in itertools.product(*[
                ([x[0] for x in table[(d, lv[d])]] if case['boundary'] else [x[0] for x in table[(d, lv[d])]][1:-1]) for d in range(dim)])])
            if ps != want or n != len(want):
                return 'component %s: points are not the tensor product of its stripes' % (lv,)
            for p in ps:
                total[tuple(p)] = total.get(tuple(p), 0) + coeff[tuple(lv)]
        for p, c in total.items():
            if c != 1:
                return 'point %s of the combined grid has coefficient sum %s' % ([str(x) for x in p], c)
    return None


# ----------------------------------------------------------------------------------------------- rare situations
def _point_levels(tree):
    return [tree[0][2]] + [o[3] for o in tree]


def state_events(case, st):
    """rare situations of one implementation state (for the evidence histogram)"""
    ev = set()
    lmin = case['lmin']
    for d, t in enumerate(st['trees']):
        if not t:
            continue
        L = _point_levels(t)
        shallow = [p for p in range(1, len(L) - 1) if 2 <= L[p] <= lmin and L[p - 1] < L[p] and L[p + 1] < L[p]]
        if shallow:
            ev.add('state:subtree-max-level<=lmin')
            if st['lmax'][d] >= lmin + 2:
                ev.add('state:subtree-max-level<=lmin&lmax_d>=lmin+2')
        mc = max(o[4] for o in t)
        if mc >= 2:
            ev.add('state:coarsening>=2')
        if mc >= 3:
            ev.add('state:coarsening>=3')
        if mc >= 5:
            ev.add('state:coarsening>=5')
        if max(L) >= 8:
            ev.add('state:deepest-level>=8')
        if max(L) >= 12:
            ev.add('state:deepest-level>=12')
        if len(t) >= 32:
            ev.add('state:intervals>=32')
    return ev


def step_events(case, prev, bens, st):
    """rare situations of one refinement step prev --bens--> st on the implementation"""
    ev = set()
    margin = margin_of(case)
    bmax = max([Fraction(0)] + [b for bd in bens for b in bd])
    inc = [y - x for x, y in zip(prev['lmax'], st['lmax'])]
    rot = False
    c0 = False
    for d, t in enumerate(prev['trees']):
        exp = []
        for o, b in zip(t, bens[d]):
            if float_selects(float(b), float(bmax), margin):
                nl = max(o[2], o[3]) + 1
                exp += [(o[2], nl), (nl, o[3])]
                c0 = c0 or o[4] == 0
            else:
                exp.append((o[2], o[3]))
        if d < len(st['trees']) and exp != [(o[2], o[3]) for o in st['trees'][d]]:
            rot = True
    if rot:
        ev.add('step:rotation')
    if c0:
        ev.add('step:split-at-coarsening-0')
    if inc and max(inc) >= 1:
        ev.add('step:lmax-increase')
        if rot:
            ev.add('step:rotation&lmax-increase')
    if inc and max(inc) >= 2:
        ev.add('step:lmax-increase>=2')
    for d, t in enumerate(st['trees']):
        if d < len(inc) and inc[d] >= 2:
            over = [max(o[2], o[3]) - prev['lmax'][d] for o in t if max(o[2], o[3]) > prev['lmax'][d]]
            if over and over[-1] < max(over):
                ev.add('step:last-overshoot<largest-overshoot')
            if len(set(over)) >= 2:
                ev.add('step:different-overshoots')
    return ev


# ----------------------------------------------------------------------------------------------- comparison
def compare_states(case, impl_states, model_out, fields):
    """First difference between implementation states and model states: (step, field, impl, model) or None."""
    if sx.is_err(model_out) or isinstance(model_out, tuple):
        return (0, 'model-error', None, str(model_out)[:200])
    for step, ist in enumerate(impl_states):
        if step >= len(model_out):
            return (step, 'model-has-fewer-states', None, None)
        if sx.is_err(model_out[step]):
            return (step, 'model-rejects-step', None, str(model_out[step]))
        ms = decode_model_state(model_out[step])
        for fld in fields:
            if fld in ('active', 'old', 'stripes', 'points') and fld not in ist:
                continue
            if fld == 'scheme' and step == 0:
                pass
            iv = ist.get(fld)
            mv = ms.get(fld)
            if fld == 'points':
                iv = [[k, ps] for k, ps, n in iv]
            if iv != mv:
                return (step, fld, iv, mv)
    if len(model_out) != len(impl_states):
        return (len(impl_states), 'model-has-more-states', None, None)
    return None
