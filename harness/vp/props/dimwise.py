"""Shared by C03 and C06: drives the REAL SpatiallyAdaptiveSingleDimensions2 step by step with a scripted
ErrorCalculator and compares every state with the extracted Coq model (Model/RefTree.v, Model/DimWise.v)."""
import itertools
import random
from fractions import Fraction
from .. import sx

VERSIONS = [6, 2, 3, 7, 8]
MARGINS = [None, None, 0.5, 0.75, 1.0, 0.25]      # None = library default 0.9
SAFETY = [0.1, 0.1, 0.0, 0.125, 0.25, 0.05]
MAX_INTERVALS = 26        # per dimension; the generator stops refining "everything" beyond this size


# ----------------------------------------------------------------------------------------------- generator
def gen_case(rng, tier, what):
    dim = rng.choice([2, 2, 2, 3, 3, 4] if tier == 'quick' else [2, 2, 3, 3, 4, 4])
    lmin = rng.choice([1, 1, 1, 2])
    lmax = lmin + rng.choice([1, 1, 2])
    if dim == 4 or lmax > 3:
        lmax = min(lmax, 3)
    lmin = min(lmin, lmax - 1)
    if lmax < 2:
        lmax = 2
    steps = rng.randrange(1, 7 if tier == 'quick' else 11)
    if dim == 4:
        steps = min(steps, 4)
        if lmax >= 3:                       # 9^4-point component grids: only short histories
            steps = min(steps, 1)
    if dim == 3 and lmax >= 3:
        steps = min(steps, 5)
    if what >= 2:          # stripes and component-grid points are observed: keep the grids small
        if dim == 4:
            lmin, lmax, steps = 1, 2, min(steps, 3)
        elif dim == 3:
            steps = min(steps, 4 if lmax <= 2 else 3)
    boxes = [(0.0, 1.0), (0.0, 1.0), (-1.0, 1.0), (0.5, 2.0), (-3.0, 6.0), (2.0, 2.25)]
    ab = [rng.choice(boxes) for _ in range(dim)]
    return dict(what=what, dim=dim, lmin=lmin, lmax=lmax, version=rng.choice(VERSIONS),
                rebalancing=rng.random() < 0.5, boundary=rng.random() < 0.6,
                margin=rng.choice(MARGINS), safety=rng.choice(SAFETY),
                a=[x[0] for x in ab], b=[x[1] for x in ab], steps=steps, seed=rng.randrange(1 << 30))


def margin_of(case):
    return 0.9 if case['margin'] is None else case['margin']


def float_selects(b, bmax, margin):
    return b >= bmax * margin


def exact_selects(b, bmax, margin):
    return Fraction(b) >= Fraction(bmax) * Fraction(margin)


def gen_benefits(rng, sizes, margin, mode=None):
    """Benefit per (dimension, position). Values on the lattice k/16 so that the margin test is exact;
    assignments on which the binary64 test and the exact test disagree are redrawn."""
    total = sum(sizes)
    for attempt in range(20):
        modes = ['random', 'random', 'single', 'ties', 'one-dim', 'few']
        if max(sizes) <= MAX_INTERVALS // 2:
            modes += ['zeros', 'all-equal']
        m = mode or rng.choice(modes)
        if max(sizes) > MAX_INTERVALS:
            m = rng.choice(['single', 'few'])
        if attempt > 10:
            m = 'single'
        bens = [[0.0] * n for n in sizes]
        if m == 'zeros':
            pass
        elif m == 'all-equal':
            v = rng.choice([1, 4, 16]) / 16
            bens = [[v] * n for n in sizes]
        elif m == 'single':
            d = rng.randrange(len(sizes)); bens[d][rng.randrange(sizes[d])] = rng.choice([1, 8, 16]) / 16
        elif m == 'few':
            for _ in range(rng.randrange(1, 4)):
                d = rng.randrange(len(sizes)); bens[d][rng.randrange(sizes[d])] = rng.choice([8, 15, 16]) / 16
        elif m == 'ties':
            top = rng.choice([16, 8, 10, 12]) / 16
            for d, n in enumerate(sizes):
                for i in range(n):
                    r = rng.random()
                    bens[d][i] = top if r < 0.15 else (top * margin if r < 0.4 and (top * margin * 16) == int(top * margin * 16) else
                                                       rng.choice([0, 1, 2]) / 16)
            d = rng.randrange(len(sizes)); bens[d][rng.randrange(sizes[d])] = top
        elif m == 'one-dim':
            d = rng.randrange(len(sizes))
            bens[d] = [rng.choice([0, 0, 4, 9, 10, 16]) / 16 for _ in range(sizes[d])]
        else:
            p = rng.choice([0.2, 0.5, 0.8])
            bens = [[(rng.randrange(1, 17) / 16 if rng.random() < p else 0.0) for _ in range(n)] for n in sizes]
        bmax = max([0.0] + [b for bd in bens for b in bd])
        if all(float_selects(b, bmax, margin) == exact_selects(b, bmax, margin) for bd in bens for b in bd):
            nsel = [sum(1 for b in bd if float_selects(b, bmax, margin)) for bd in bens]
            if all(n + s <= 2 * MAX_INTERVALS for n, s in zip(sizes, nsel)):
                return m, bens
    bens = [[0.0] * n for n in sizes]
    bens[0][0] = 1.0
    return 'single', bens


# ----------------------------------------------------------------------------------------------- implementation
def _snapshot(sa, what):
    trees, book = [], []
    for d in range(sa.dim):
        c = sa.refinement.get_refinement_container_for_dim(d)
        trees.append([[sx.rat(o.start), sx.rat(o.end), int(o.levels[0]), int(o.levels[1]), int(o.coarsening_level)]
                      for o in c.get_objects()])
        # startNewObjects (which objects count as 'new') is bookkeeping of the evaluation phase, not of the refinement
        # structure: it is not compared (the C14 repair clears the marker after every evaluation)
        book.append([[int(p) for p in c.popArray], 0, int(c.searchPosition)])
    st = dict(trees=trees, lmax=[int(x) for x in sa.lmax],
              scheme=sorted([[int(x) for x in g.levelvector], sx.rat(g.coefficient)] for g in sa.scheme),
              book=[book, int(sa.refinement.curContainer)])
    if getattr(sa.combischeme, 'initialized_adaptive', False):
        st['active'] = sorted([int(x) for x in l] for l in sa.combischeme.active_index_set)
        st['old'] = sorted([int(x) for x in l] for l in sa.combischeme.old_index_set)
    if what >= 1:
        stripes = []
        for d in range(sa.dim):
            per = []
            for l in range(sa.lmin[d], sa.lmax[d] + 1):
                lv = [int(x) for x in sa.lmin]
                lv[d] = l
                coords, levels, _ = sa.get_point_coord_for_each_dim(lv)
                per.append([l, [[sx.rat(x), int(k)] for x, k in zip(coords[d], levels[d])]])
            stripes.append(per)
        st['stripes'] = stripes
        # the stripes of the real component grids (must equal the per-(d,l) stripes: "depend only on d and l")
        comp = []
        for g in sa.scheme:
            coords, levels, _ = sa.get_point_coord_for_each_dim(g.levelvector)
            comp.append([[int(x) for x in g.levelvector],
                         [[[sx.rat(x), int(k)] for x, k in zip(coords[d], levels[d])] for d in range(sa.dim)]])
        st['comp_stripes'] = sorted(comp, key=lambda t: t[0])
    if what >= 2:
        pts = []
        for g in sa.scheme:
            ps = sa.get_points_component_grid(g.levelvector)
            pts.append([[int(x) for x in g.levelvector], sorted([sx.rat(x) for x in p] for p in ps), len(ps)])
        st['points'] = sorted(pts, key=lambda t: t[0])
    return st


def impl_run(case):
    """One scripted history on the implementation. The benefits are drawn from the case seed against the live
    state (sizes), read back from the objects' `benefit` attribute and returned so that the model replays them."""
    import numpy as np
    from sparseSpACE.spatiallyAdaptiveSingleDimension2 import SpatiallyAdaptiveSingleDimensions2
    from sparseSpACE.ErrorCalculator import ErrorCalculator
    from sparseSpACE.Grid import GlobalTrapezoidalGrid
    from sparseSpACE.GridOperation import Integration
    from sparseSpACE.Function import Function

    what = case.get('what', 0)
    rng = random.Random(case['seed'])
    dim = case['dim']
    a = np.array(case['a'], dtype=float)
    b = np.array(case['b'], dtype=float)
    margin = margin_of(case)
    fixed = case.get('bens')

    # f(x) = sum_k alpha_k x_k^2 + prod_k (beta_k + x_k): smooth, non-multilinear, dyadic coefficients
    frng = random.Random(case['seed'] ^ 0x5f5f)
    alpha = [Fraction(frng.choice([0, 1, 2, -1, 3]), 2) for _ in range(dim)]
    beta = [Fraction(frng.choice([2, 3, 4, 7]), 2) for _ in range(dim)]

    class TestFunction(Function):
        def eval(self, coordinates):
            s_, p_ = 0.0, 1.0
            for k, xk in enumerate(coordinates):
                s_ += float(alpha[k]) * xk * xk
                p_ *= (float(beta[k]) + xk)
            return s_ + p_

        def output_length(self):
            return 1

    class Scripted(ErrorCalculator):
        def __init__(self):
            super().__init__()
            self.sa = None
            self.table = None
            self.round = 0
            self.modes = []

        def calc_error(self, refine_object, norm, volume_weights=None):
            if self.table is None:
                conts = [self.sa.refinement.get_refinement_container_for_dim(d) for d in range(dim)]
                sizes = [c.size() for c in conts]
                if fixed is not None and self.round < len(fixed):
                    bens = [[float(Fraction(*x)) if isinstance(x, (list, tuple)) else float(x) for x in bd] for bd in fixed[self.round]]
                    mode = 'fixed'
                else:
                    mode, bens = gen_benefits(rng, sizes, margin)
                self.modes.append(mode)
                self.table = {}
                for d, c in enumerate(conts):
                    for i, o in enumerate(c.get_objects()):
                        self.table[(d, o.start)] = bens[d][i] if i < len(bens[d]) else 0.0
            return self.table[(refine_object.this_dim, refine_object.start)]

    grid = GlobalTrapezoidalGrid(a, b, boundary=case['boundary'], modified_basis=False)
    f = TestFunction()
    op = Integration(f, grid=grid, dim=dim, reference_solution=None)
    kw = dict(version=case['version'], operation=op, rebalancing=case['rebalancing'],
              rebalancing_safety_factor=case['safety'])
    if case['margin'] is not None:
        kw['margin'] = case['margin']
    sa = SpatiallyAdaptiveSingleDimensions2(a, b, **kw)
    ec = Scripted()
    ec.sa = sa
    sa.performSpatiallyAdaptiv(case['lmin'], case['lmax'], ec, tol=-1, max_evaluations=1, print_output=False)
    states = [_snapshot(sa, what)]
    bens_used, selected, max_size = [], [], 0
    nsteps = len(fixed) if fixed is not None else case['steps']
    for step in range(nsteps):
        conts = [sa.refinement.get_refinement_container_for_dim(d) for d in range(dim)]
        bens = [[sx.rat(o.benefit) for o in c.get_objects()] for c in conts]
        bens_used.append(bens)
        before = [[(o.start, o.end) for o in c.get_objects()] for c in conts]
        sa.refine()
        after = [set((o.start, o.end) for o in sa.refinement.get_refinement_container_for_dim(d).get_objects()) for d in range(dim)]
        selected.append([[i for i, se in enumerate(before[d]) if se not in after[d]] for d in range(dim)])
        ec.table = None
        ec.round += 1
        sa.continue_adaptive_refinement(tol=-1, max_evaluations=1)
        states.append(_snapshot(sa, what))
        max_size = max(max_size, max(len(t) for t in states[-1]['trees']))
    out = dict(states=states, bens=bens_used, selected=selected, modes=ec.modes, max_size=max_size)
    if what >= 2:
        # interpolation oracle data: combined interpolant at all points of the combined grid vs the function
        pts = sorted(set(tuple(float(x) for x in p) for comp in states[-1]['points'] for p in comp[1]))
        if pts and len(pts) <= 4000:
            vals = sa(pts)
            worst = 0.0
            wp = None
            for p, v in zip(pts, vals):
                fv = f.eval(p)
                e = abs(float(v[0]) - fv) / (1.0 + abs(fv))
                if e > worst:
                    worst, wp = e, p
            out['interp'] = [worst, wp, len(pts)]
        # combined interpolant at points off the grid (lattice k/32 of the box) and at a few grid points: compared with the model
        qpts = [[Fraction(case['a'][k]) + (Fraction(case['b'][k]) - Fraction(case['a'][k])) * Fraction(frng.randrange(0, 33), 32)
                 for k in range(dim)] for _ in range(8)]
        qpts += [[Fraction(x) for x in p] for p in frng.sample(pts, min(4, len(pts)))] if pts else []
        vals = sa([tuple(float(x) for x in p) for p in qpts])
        out['poly'] = [alpha, beta]
        out['interp_points'] = qpts
        out['interp_values'] = [float(v[0]) for v in vals]
    return out


# ----------------------------------------------------------------------------------------------- float decisions
_RB_CACHE = {}


def rebalance_exceptions(sf, max_m):
    """Triples (pos, pos1, m) on which the binary64 test of rebalance_interval differs from exact arithmetic
    (the safety factor is taken at its exact binary64 value)."""
    key = (sf, max_m)
    if key in _RB_CACHE:
        return _RB_CACHE[key]
    sfq = Fraction(sf)
    half = Fraction(1, 2)
    out = []
    for m in range(1, max_m + 1):
        for pos in range(0, m + 2):
            fl = abs(pos / m - 0.5)
            ex = abs(Fraction(pos, m) - half)
            for pos1 in range(0, m + 2):
                if pos1 == pos:
                    continue
                dfl = fl > abs(pos1 / m - 0.5) + sf
                dex = ex > abs(Fraction(pos1, m) - half) + sfq
                if dfl != dex:
                    out.append([pos, pos1, m])
    _RB_CACHE[key] = out
    return out


def v3_exceptions(dim, max_sv=40):
    out = []
    for sv in range(0, max_sv + 1):
        for d in range(dim):
            x = sv / dim
            dfl = x - int(x) > d / dim
            dex = (sv % dim) > d
            if dfl != dex:
                out.append([sv, d])
    return out


def model_case(case, impl_result):
    what = case.get('what', 0)
    max_m = max(2, (impl_result or {}).get('max_size', 8) + 2)
    erb = rebalance_exceptions(case['safety'], max_m) if case['rebalancing'] else []
    ev3 = v3_exceptions(case['dim']) if case['version'] == 3 else []
    bens = impl_result['bens'] if impl_result else [[[Fraction(*x) if isinstance(x, (list, tuple)) else sx.rat(x) for x in bd] for bd in st]
                                                    for st in (case.get('bens') or [])]
    return (0, [what, case['dim'], case['lmin'], case['lmax'], case['version'], case['rebalancing'], case['boundary'],
                sx.rat(margin_of(case)), sx.rat(case['safety']), [sx.rat(x) for x in case['a']], [sx.rat(x) for x in case['b']],
                erb, ev3, bens])


def model_interp_case(case, impl_result):
    sub, hist = model_case(case, impl_result)
    return (4, [hist, impl_result['poly'][0], impl_result['poly'][1], impl_result['interp_points']])


def decode_model_state(ms):
    trees, lmax, active, old, coeffs, book, oks, stripes, points = ms
    st = dict(trees=[[[sx.q(o[0]), sx.q(o[1]), o[2], o[3], o[4]] for o in t] for t in trees], lmax=lmax,
              active=sorted(active), old=sorted(old),
              scheme=sorted([k, sx.rat(c)] for k, c in coeffs),
              book=[[[b[0], 0, b[2]] for b in book[0]], book[1]],
              tree_ok=[bool(x) for x in oks])
    if stripes:
        st['stripes'] = [[[l, ([[sx.q(p[0]), p[1]] for p in s] if not sx.is_err(s) else 'ERR')] for l, s in per] for per in stripes]
    if points:
        st['points'] = sorted([[k, (sorted([sx.q(x) for x in p] for p in ps) if not sx.is_err(ps) else 'ERR')] for k, ps in points],
                              key=lambda t: t[0])
    return st


# ----------------------------------------------------------------------------------------------- oracles (impl only)
def oracle_tree(a, b, lmax_d, tree):
    """C06 predicate on one implementation tree. None or a description of the violated clause."""
    if not tree:
        return 'empty container'
    if tree[0][0] != a or tree[-1][1] != b:
        return 'intervals do not span [a,b]: first start %s, last end %s' % (tree[0][0], tree[-1][1])
    for i, o in enumerate(tree):
        if not o[0] < o[1]:
            return 'interval %d is empty or reversed' % i
        if i + 1 < len(tree):
            if o[1] != tree[i + 1][0]:
                return 'gap/overlap or wrong order between intervals %d and %d' % (i, i + 1)
            if o[3] != tree[i + 1][2]:
                return 'intervals %d and %d disagree on the level of their shared point' % (i, i + 1)
    if tree[0][2] != 0 or tree[-1][3] != 0:
        return 'an end point does not have level 0'
    L = [tree[0][2]] + [o[3] for o in tree]
    for p in range(1, len(L) - 1):
        v = L[p]
        lo = next((L[q] for q in range(p - 1, -1, -1) if L[q] < v), None)
        hi = next((L[q] for q in range(p + 1, len(L)) if L[q] < v), None)
        if lo is None or hi is None or max(lo, hi) != v - 1:
            return 'binary-tree level condition fails at point %d (level %s, nearest lower levels %s / %s)' % (p, v, lo, hi)
    for p in range(1, len(L) - 1):
        for q in range(p + 1, len(L) - 1):
            if L[q] < L[p]:
                break
            if L[q] == L[p]:
                return 'levels do not form a binary tree: points %d and %d have the same level %s with no lower-level point between them' % (p, q, L[p])
    for i, o in enumerate(tree):
        if o[4] != lmax_d - max(o[2], o[3]):
            return 'coarsening level of interval %d is %s, expected lmax - max(levels) = %s' % (i, o[4], lmax_d - max(o[2], o[3]))
        if o[4] < 0:
            return 'negative coarsening level at interval %d' % i
    if lmax_d < max(L):
        return 'lmax %s below the deepest level %s' % (lmax_d, max(L))
    return None


def clause_of(why):
    """structural name of the violated clause (for signatures): the text with the numbers removed"""
    import re
    w = re.sub(r'^(step \d+: )?(dimension \d+: )?', '', why)
    return re.split(r'[\d\[\(]', w)[0].strip()[:60]


def oracle_state_c06(case, st):
    for d in range(case['dim']):
        why = oracle_tree(sx.rat(case['a'][d]), sx.rat(case['b'][d]), st['lmax'][d], st['trees'][d])
        if why:
            return 'dimension %d: %s' % (d, why)
    return None


def oracle_selection(case, bens, selected):
    """a step splits exactly the intervals whose benefit reaches margin * max benefit"""
    margin = margin_of(case)
    bmax = max([Fraction(0)] + [b for bd in bens for b in bd])
    for d, bd in enumerate(bens):
        want = [i for i, b in enumerate(bd) if float_selects(float(b), float(bmax), margin)]
        if want != selected[d]:
            return 'dimension %d: split positions %s, expected %s (benefits %s, margin %s)' % (
                d, selected[d], want, [str(b) for b in bd], margin)
    return None


def oracle_state_c03(case, st, prev=None):
    """C03 predicate on one implementation state (needs what >= 2)."""
    dim = case['dim']
    stripes = st['stripes']
    for d in range(dim):
        a, b = sx.rat(case['a'][d]), sx.rat(case['b'][d])
        prevset = None
        for l, s in stripes[d]:
            xs = [p[0] for p in s]
            if xs != sorted(xs) or len(set(xs)) != len(xs):
                return 'stripe (d=%d,l=%d) is not strictly sorted' % (d, l)
            if not xs or xs[0] != a or xs[-1] != b:
                return 'stripe (d=%d,l=%d) does not contain the domain end points' % (d, l)
            if prevset is not None and not prevset <= set(xs):
                return 'stripes not nested: (d=%d,l=%d) is not contained in level %d' % (d, l - 1, l)
            prevset = set(xs)
    table = {(d, l): s for d in range(dim) for l, s in stripes[d]}
    for lv, ss in st['comp_stripes']:
        for d in range(dim):
            if (d, lv[d]) not in table:
                return 'component %s: level %d outside lmin..lmax in dimension %d' % (lv, lv[d], d)
            if ss[d] != table[(d, lv[d])]:
                return 'component %s: stripe of dimension %d differs from the stripe of (d=%d,l=%d)' % (lv, d, d, lv[d])
    if 'points' in st:
        coeff = dict((tuple(k), c) for k, c in st['scheme'])
        total = {}
        for lv, ps, n in st['points']:
            want = sorted([list(p) for p in itertools.product(*[
                ([x[0] for x in table[(d, lv[d])]] if case['boundary'] else [x[0] for x in table[(d, lv[d])]][1:-1]) for d in range(dim)])])
            if ps != want or n != len(want):
                return 'component %s: points are not the tensor product of its stripes' % (lv,)
            for p in ps:
                total[tuple(p)] = total.get(tuple(p), 0) + coeff[tuple(lv)]
        for p, c in total.items():
            if c != 1:
                return 'point %s of the combined grid has coefficient sum %s' % ([str(x) for x in p], c)
    return None


# ----------------------------------------------------------------------------------------------- comparison
def compare_states(case, impl_states, model_out, fields):
    """First difference between implementation states and model states: (step, field, impl, model) or None."""
    if sx.is_err(model_out) or isinstance(model_out, tuple):
        return (0, 'model-error', None, str(model_out)[:200])
    for step, ist in enumerate(impl_states):
        if step >= len(model_out):
            return (step, 'model-has-fewer-states', None, None)
        if sx.is_err(model_out[step]):
            return (step, 'model-rejects-step', None, str(model_out[step]))
        ms = decode_model_state(model_out[step])
        for fld in fields:
            if fld in ('active', 'old') and fld not in ist:
                continue
            if fld == 'scheme' and step == 0:
                pass
            iv = ist.get(fld)
            mv = ms.get(fld)
            if fld == 'points':
                iv = [[k, ps] for k, ps, n in iv]
            if iv != mv:
                return (step, fld, iv, mv)
    if len(model_out) != len(impl_states):
        return (len(impl_states), 'model-has-more-states', None, None)
    return None
