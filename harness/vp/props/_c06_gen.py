"""C06 / C03: source-derived model of the level bookkeeping of the dimension-wise strategy (DESIGN.md 0.5.1 scheme).
coq/Gen/DimWiseGen.v is regenerated from the working tree ($VERIF_REPO) by harness/translate/py2gallina_c06.py (a front end of the
shared translator, which is imported, not modified) under the build lock, before the proof obligations are (re)built;
Props/C06gen.v holds the equivalence theorems (modify_according_to_levelvec, update_coarsening_values, get_max_level)."""
import fcntl
import hashlib
import os
import re
import subprocess
import sys
from ..core import ROOT, COQ
from .. import gen

TRANSLATOR = os.path.join(ROOT, 'harness', 'translate', 'py2gallina_c06.py')
GEN_FILE = 'DimWiseGen.v'
GEN_CHAIN = ['Base/PyC06.v', 'Gen/DimWiseGen.v', 'Proofs/GenDimWiseEq.v', 'Proofs/GenDimWiseSubEq.v', 'Gen/RefContainerGen.v',
             'Proofs/GenRefContEq.v', 'Proofs/GenDimWiseStripe.v', 'Props/C06gen.v']
EXTRA_PROPS = ('C06gen',)
ASSUMPTION = gen.ASSUMPTION + ('; C06/C03 front end: unannotated parameters of modify_according_to_levelvec / update_coarsening_values '
                               'declared int / List[int]; OBJECT VIEWS: a RefinementObjectSingleDimension is read as its levels '
                               'tuple, a RefinementContainer as the list of these in container order (get_objects() checked to be '
                               '`return self.refinementObjects`), the assignment of coarsening_level to the loop element becomes part '
                               'of the result; `if p: break` in a while loop becomes a loop flag; max_level_dict keyed by (d, i) is an '
                               'association list (coq/Base/PyC06.v), a store into it becomes part of the result; get_subtraction_value: the branches of versions 3, 4, 5 '
                               'are declared outside the model (the generated function raises there), sum([1 for v in range(E) if C]) becomes a counting loop; second target RefinementContainer.get_next_object_for_refinement: '
                               'objects viewed as their benefits, the write of searchPosition becomes part of the result, the returned object is dropped, '
                               'the None index of the not-found result is written -1')


def regenerate(chk):
    with open(os.path.join(ROOT, '.buildlock'), 'w') as lk:
        fcntl.flock(lk, fcntl.LOCK_EX)
        p = subprocess.run([sys.executable, TRANSLATOR], capture_output=True, text=True)
    msg = '\n'.join(l for l in p.stderr.splitlines() if 'conda' not in l).strip()
    chk.checker_cmds.append('/venv/bin/python harness/translate/py2gallina_c06.py  (regenerates coq/Gen/%s from '
                            'sparseSpACE/spatiallyAdaptiveSingleDimension2.py)' % GEN_FILE)
    info = dict(rc=p.returncode, message=msg, target='dimwise')
    try:
        src = open(os.path.join(COQ, 'Gen', GEN_FILE)).read()
        info['generated_sha256'] = hashlib.sha256(src.encode()).hexdigest()
        info['translated'] = re.findall(r'^\(\* (\S+:\d+-\d+)  (\S+) \*\)$', src, re.M)
    except OSError:
        pass
    chk.extra['source_derived_model'] = info
    return info


def diagnose(chk, info):
    """after coq_obligations: None when the generated model is in place and proved equivalent, else the reason"""
    problem = gen.gen_diagnosis(chk, info, GEN_CHAIN)
    gen.report(chk, info, problem, 'C06_gen_*')
    return problem


def finish(chk, info, problem):
    gen.finish_gen(chk, info, problem)
