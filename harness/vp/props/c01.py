"""C01: adaptive combination scheme = inclusion-exclusion scheme. Correspondence model <-> combiScheme.py."""
import fcntl
import hashlib
import itertools
import os
import random
import re
import subprocess
import sys
from .. import sx
from ..core import ROOT, COQ, sh
from ..impl import run_impl
from ..model import run_model

ASSUMPTIONS = ['Python sets modelled as duplicate-free lists; observables compared as sorted sets',
               'closed-form coefficients are floats in Python (factorial quotient), compared as exact rationals',
               'source-derived model: Python `ast`, the translation scheme of harness/translate/py2gallina.py and the semantics '
               'library coq/Base/PyLib.v (ints = Z, lists/tuples = list, sets/dicts = duplicate-free association lists, loops '
               '= early-exit folds, exceptions = no result) are trusted; numpy dtype coercions and float rounding of the '
               'closed-form coefficient are not modelled']

TRANSLATOR = os.path.join(ROOT, 'harness', 'translate', 'py2gallina.py')
GEN_V = os.path.join(COQ, 'Gen', 'CombiSchemeGen.v')


def run_translator(chk):
    """Regenerates coq/Gen/CombiSchemeGen.v from the working tree ($VERIF_REPO) under the build lock."""
    with open(os.path.join(ROOT, '.buildlock'), 'w') as lk:
        fcntl.flock(lk, fcntl.LOCK_EX)
        p = subprocess.run([sys.executable, TRANSLATOR], capture_output=True, text=True)
    msg = '\n'.join(l for l in p.stderr.splitlines() if 'conda' not in l).strip()
    chk.checker_cmds.append('/venv/bin/python harness/translate/py2gallina.py  (regenerates coq/Gen/CombiSchemeGen.v from the source)')
    info = dict(rc=p.returncode, message=msg)
    try:
        src = open(GEN_V).read()
        info['generated_sha256'] = hashlib.sha256(src.encode()).hexdigest()
        info['translated'] = re.findall(r'^\(\* (\S+:\d+-\d+)  (\S+) \*\)$', src, re.M)
    except OSError:
        pass
    chk.extra['source_derived_model'] = info
    return info


def gen_diagnosis(chk, tinfo):
    """None when the generated model and its equivalence proofs are in place; otherwise a message naming the rejected
    construct / the file that does not compile / the equivalence theorem that no longer holds."""
    if tinfo['rc'] != 0:
        return 'translator rejected the source: ' + tinfo['message']
    def uptodate(f):
        return sh('make -f Makefile.coq -q %s.vo' % f[:-2], cwd=COQ)[0] == 0
    if uptodate('Proofs/GenCombiSchemeEq.v'):
        return None
    os.makedirs(chk.work, exist_ok=True)
    for f in ('Gen/CombiSchemeGen.v', 'Proofs/PyLibFacts.v', 'Proofs/GenCombiSchemeEq.v'):
        if uptodate(f):
            continue
        rc, out = sh('timeout 900 coqc -Q . SG -o %s %s' % (os.path.join(chk.work, os.path.basename(f) + 'o'), f), cwd=COQ)
        out = '\n'.join(l for l in out.splitlines() if 'conda' not in l)
        if rc == 0:
            continue      # compiles on its own (e.g. regenerated meanwhile); the problem is further down the chain
        m = re.search(r'line (\d+)', out)
        thm = None
        if m:
            for i, ln in enumerate(open(os.path.join(COQ, f)).read().splitlines()[:int(m.group(1))]):
                mm = re.match(r'\s*(?:Theorem|Lemma|Corollary|Definition|Fixpoint)\s+(\w+)', ln)
                if mm:
                    thm = mm.group(1)
        if f.startswith('Gen/'):
            return 'generated model %s does not type-check (in %s): %s' % (f, thm, out[-1200:])
        return 'the source-derived model changed its meaning: %s of %s no longer holds: %s' % (thm, f, out[-1200:])
    return 'Proofs/GenCombiSchemeEq.vo is not up to date (build problem): see setup notes'


def gen_case(rng, tier):
    r = rng.random()
    dim = rng.choice([1, 2, 2, 3, 3, 4, 5] if tier == 'quick' else [1, 2, 2, 3, 3, 4, 4, 5, 6])
    lmin = rng.choice([0, 1, 1, 2, 3])
    span = rng.choice([0, 1, 2, 2, 3, 4]) if dim < 5 else rng.choice([0, 1, 2, 3])
    lmax = lmin + span
    nops = rng.randrange(0, 13)
    kind = 'valid'
    if r < 0.04:
        kind = 'bad-init'
        lmin, lmax = rng.choice([(2, 1), (3, 0), (-1, 2), (-2, -1)])
        nops = 0
    return dict(dim=dim, lmin=lmin, lmax=lmax, nops=nops, seed=rng.randrange(1 << 30), kind=kind)


def impl_state(cs, ret):
    grids = cs.getCombiScheme(do_print=False)
    return [(-1 if ret is None else [int(d) for d in ret]),
            sorted([int(x) for x in l] for l in cs.active_index_set),
            sorted([int(x) for x in l] for l in cs.old_index_set),
            int(cs.lmax_adaptive),
            sorted([[int(x) for x in g.levelvector], sx.rat(g.coefficient)] for g in grids)]


def impl_run(case):
    """Generates the op sequence while running the implementation (ops are chosen from the live index sets)."""
    from sparseSpACE.combiScheme import CombiScheme
    rng = random.Random(case['seed'])
    cs = CombiScheme(case['dim'])
    cs.init_adaptive_combi_scheme(case['lmax'], case['lmin'])
    states = [impl_state(cs, [])]
    ops = list(case.get('ops') or [])
    fixed = 'ops' in case and case['ops'] is not None
    out_ops = []
    for i in range(len(ops) if fixed else case['nops']):
        if fixed:
            l = ops[i]
        else:
            r = rng.random()
            act = sorted(cs.active_index_set)
            old = sorted(cs.old_index_set)
            if r < 0.62 and act:
                l = list(rng.choice(act))
            elif r < 0.72 and old:
                l = list(rng.choice(old))           # not refinable: old index
            elif r < 0.80 and act:
                l = list(rng.choice(act)); l[rng.randrange(len(l))] += rng.choice([1, -1])   # neighbour of active
            elif r < 0.90:
                l = [rng.randrange(max(0, case['lmin'] - 1), case['lmax'] + 3) for _ in range(case['dim'])]
            elif r < 0.95:
                l = [rng.randrange(0, case['lmax'] + 2) for _ in range(case['dim'] + rng.choice([-1, 1]))]  # wrong length
            else:
                l = list(rng.choice(act)) if act else [case['lmin']] * case['dim']   # refine the same one again later
        out_ops.append([int(x) for x in l])
        ret = cs.update_adaptive_combi(list(l))
        states.append(impl_state(cs, ret))
    # closed form on a fresh, non-initialised scheme
    std = None
    if case['lmin'] <= case['lmax']:
        cs2 = CombiScheme(case['dim'])
        # earlier requests on the same (non-initialised) object must not influence later ones
        r2 = random.Random(case['seed'] + 1)
        for _ in range(r2.choice([0, 1, 2])):
            l0 = max(0, case['lmin'] + r2.choice([-1, 1, 2]))
            cs2.getCombiScheme(lmin=l0, lmax=l0 + max(0, case['lmax'] - case['lmin'] + r2.choice([0, 0, 1])), do_print=False)
        std = sorted([[int(x) for x in g.levelvector], sx.rat(g.coefficient)]
                     for g in cs2.getCombiScheme(lmin=case['lmin'], lmax=case['lmax'], do_print=False))
    return dict(ops=out_ops, states=states, std=std)


def canon_model_state(st):
    ret, act, old, lmaxa, coeffs = st
    return [ret, sorted(act), sorted(old), lmaxa, sorted([[k, sx.rat(c)] for k, c in coeffs])]


def oracle_state(dim, lmin, st):
    """The property's own predicate evaluated on an implementation state. Returns None or a description."""
    ret, act, old, lmaxa, coeffs = st
    A = set(map(tuple, act)); O = set(map(tuple, old)); I = A | O
    if A & O:
        return 'active and old index sets intersect: %s' % sorted(A & O)[:3]
    for k in I:
        if len(k) != dim or min(k) < lmin:
            return 'index %s has wrong length or lies below lmin' % (k,)
        for d in range(dim):
            b = list(k); b[d] -= 1; b = tuple(b)
            if b[d] >= lmin and b not in I:
                return 'index set not downward closed: %s in set, backward neighbour %s missing' % (k, b)
            f = list(k); f[d] += 1; f = tuple(f)
            if k in A and f in I:
                return 'active index %s has forward neighbour %s in the set' % (k, f)
    for k, c in coeffs:
        if tuple(k) not in I:
            return 'returned grid %s lies outside the index set' % (k,)
    if I:
        hi = [max(k[d] for k in I) + 1 for d in range(dim)]
        for l in itertools.product(*[range(lmin, hi[d] + 1) for d in range(dim)]):
            s = sum(c for k, c in coeffs if all(k[d] >= l[d] for d in range(dim)))
            want = 1 if l in I else 0
            if s != want:
                return 'coefficients of grids dominating %s sum to %s, expected %s' % (l, s, want)
    return None


def run(chk):
    tinfo = run_translator(chk)       # BEFORE the obligations: the theorems are re-checked against the source as it is now
    chk.coq_obligations()
    gen_problem = gen_diagnosis(chk, tinfo)
    chk.extra['source_derived_model']['status'] = gen_problem or 'generated, equivalent to the hand-written model (C01_gen_* proved)'
    n = chk.n(400, 20000)
    cases = [gen_case(chk.rng, chk.tier) for _ in range(n)]
    # corpus: fixed regression cases first
    corpus = [dict(dim=2, lmin=1, lmax=2, ops=[[1, 2], [2, 1], [1, 1]], nops=3, seed=0, kind='valid'),
              dict(dim=3, lmin=0, lmax=2, ops=[[0, 0, 2], [0, 0, 3], [1, 0, 1], [0, 1, 1]], nops=4, seed=0, kind='valid'),
              dict(dim=1, lmin=1, lmax=1, ops=[[1], [2], [3], [2]], nops=4, seed=0, kind='valid')]
    cases = corpus + cases
    impl = run_impl(impl_run, cases, limit=120)
    mcases, idx = [], []
    for i, (c, (st, r)) in enumerate(zip(cases, impl)):
        if st == 'ok':
            mcases.append((0, [c['dim'], c['lmax'], c['lmin'], r['ops']])); idx.append((i, 'hist'))
            if r['std'] is not None:
                mcases.append((1, [c['dim'], c['lmin'], c['lmax']])); idx.append((i, 'std'))
        else:
            mcases.append((0, [c['dim'], c['lmax'], c['lmin'], c.get('ops') or []])); idx.append((i, 'hist'))
    mres = run_model(1, mcases)
    keys, samples = [], []
    for (i, what), mc, mr in zip(idx, mcases, mres):
        c = cases[i]; st, r = impl[i]
        chk.count('dim=%d' % c['dim']); chk.count('kind=' + c['kind'])
        sig = {'dim': c['dim']}
        if what == 'std':
            m = sorted([[k, sx.rat(cf)] for k, cf in mr])
            if m != r['std']:
                chk.violation('corr:C01/closed_form', 'closed-form-differs', {}, c,
                              dict(model=str(m)[:600], impl=str(r['std'])[:600]), failing_input=False)
            # property clause: closed form == freshly initialised adaptive scheme (implementation against itself)
            if r['std'] != r['states'][0][4]:
                chk.violation('oracle:closed_form_equals_adaptive_init', 'closed-form-vs-adaptive', {}, dict(c, ops=[]),
                              dict(closed_form=str(r['std'])[:600], adaptive=str(r['states'][0][4])[:600]))
            continue
        if st != 'ok':
            if st == 'exc' and r[0] == 'AssertionError' and sx.is_err(mr):
                chk.count('rejected-by-both')
                continue
            chk.violation('corr:C01/history', 'impl-exception', {'exc': r[0] if r else st}, c, dict(impl=str(r), model=str(mr)[:300]))
            continue
        chk.traces += 1
        chk.count('ops=%d' % len(r['ops']))
        if sx.is_err(mr) or (isinstance(mr, tuple)):
            chk.violation('corr:C01/history', 'model-rejects', {}, dict(c, ops=r['ops']), dict(model=str(mr)))
            continue
        mstates = [canon_model_state(s) for s in mr]
        bad = None
        for step, (ms, is_) in enumerate(zip(mstates, r['states'])):
            if ms != is_:
                bad = step
                break
        if bad is not None or len(mstates) != len(r['states']):
            # failing-input search: does the implementation state violate the property?
            fc = dict(c, ops=r['ops'][:bad] if bad is not None else r['ops'])
            why = None
            for step in range(len(r['states'])):
                why = oracle_state(c['dim'], c['lmin'], r['states'][step])
                if why:
                    fc = dict(c, ops=r['ops'][:step]); break
            names = ['return value', 'active set', 'old set', 'lmax_adaptive', 'coefficients']
            diff = [names[j] for j in range(5) if bad is not None and mstates[bad][j] != r['states'][bad][j]]
            chk.violation('corr:C01/history', 'history-differs', {'observable': ','.join(diff)}, fc,
                          dict(step=bad, differs=diff, property_predicate=why,
                               model=str(mstates[bad] if bad is not None else None)[:800],
                               impl=str(r['states'][bad] if bad is not None else None)[:800]),
                          failing_input=bool(why))
        else:
            # the oracle is evaluated on every implementation state as well (independent of the model)
            for step, s in enumerate(r['states']):
                why = oracle_state(c['dim'], c['lmin'], s) if (chk.quick and c['dim'] <= 4) or c['dim'] <= 3 else None
                if why:
                    chk.violation('oracle:ie_scheme', 'property-predicate', {}, dict(c, ops=r['ops'][:step]), dict(why=why))
                    break
        refin = sum(1 for s in r['states'][1:] if s[0] != -1)
        if refin >= 1 and c['dim'] >= 2:
            keys.append((c['dim'], c['lmin'], c['lmax'], str(r['ops'])))
        if len(samples) < 3 and refin >= 2:
            samples.append(dict(dim=c['dim'], lmin=c['lmin'], lmax=c['lmax'], ops=r['ops'],
                                final_scheme=str(r['states'][-1][4])))
    if gen_problem and not any(v['failing_input'] for v in chk.violations):
        # broken proof obligation of the source-derived model; the correspondence and the oracle above found no input on
        # which the implementation violates the property
        chk.violation('theorem:gen-equivalence', 'translator-or-equivalence-broken',
                      {'stage': 'translator' if tinfo['rc'] != 0 else 'coq'}, None, gen_problem, failing_input=False)
    chk.record_cases(len(cases), keys,
                     'random histories on CombiScheme (d 1..6, lmin 0..3, span 0..4, <=12 update requests incl. old/'
                     'neighbour/random/wrong-length vectors); non-trivial = d>=2 and at least one request actually refined; '
                     'distinct by (d,lmin,lmax,ops)', samples)


def replay(chk, rep):
    c = rep['case']
    st, r = run_impl(impl_run, [c])[0]
    print('impl:', st, r)
    mr = run_model(1, [(0, [c['dim'], c['lmax'], c['lmin'], r['ops'] if st == 'ok' else c.get('ops') or []])])[0]
    print('model:', mr)
    if st == 'ok':
        for step, s in enumerate(r['states']):
            why = oracle_state(c['dim'], c['lmin'], s)
            print('step', step, 'property predicate:', why or 'holds')
            if why:
                return 1
    return 0
