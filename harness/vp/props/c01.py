"""C01: adaptive combination scheme = inclusion-exclusion scheme. Correspondence model <-> combiScheme.py."""
import fcntl
import hashlib
import itertools
import os
import random
import re
import subprocess
import sys
from .. import sx
from ..core import ROOT, COQ, sh
from ..impl import run_impl
from ..model import run_model

ASSUMPTIONS = ['Python sets modelled as duplicate-free lists; observables compared as sorted sets',
               'closed-form coefficients are floats in Python (factorial quotient), compared as exact rationals',
               'source-derived model: Python `ast`, the translation scheme of harness/translate/py2gallina.py and the semantics '
               'library coq/Base/PyLib.v (ints = Z, lists/tuples = list, sets/dicts = duplicate-free association lists, loops '
               '= early-exit folds, exceptions = no result) are trusted; numpy dtype coercions and float rounding of the '
               'closed-form coefficient are not modelled']

TRANSLATOR = os.path.join(ROOT, 'harness', 'translate', 'py2gallina.py')
GEN_V = os.path.join(COQ, 'Gen', 'CombiSchemeGen.v')


def run_translator(chk):
    """Regenerates coq/Gen/CombiSchemeGen.v from the working tree ($VERIF_REPO) under the build lock."""
    with open(os.path.join(ROOT, '.buildlock'), 'w') as lk:
        fcntl.flock(lk, fcntl.LOCK_EX)
        p = subprocess.run([sys.executable, TRANSLATOR], capture_output=True, text=True)
    msg = '\n'.join(l for l in p.stderr.splitlines() if 'conda' not in l).strip()
    chk.checker_cmds.append('/venv/bin/python harness/translate/py2gallina.py  (regenerates coq/Gen/CombiSchemeGen.v from the source)')
    info = dict(rc=p.returncode, message=msg)
    try:
        src = open(GEN_V).read()
        info['generated_sha256'] = hashlib.sha256(src.encode()).hexdigest()
        info['translated'] = re.findall(r'^\(\* (\S+:\d+-\d+)  (\S+) \*\)$', src, re.M)
    except OSError:
        pass
    chk.extra['source_derived_model'] = info
    return info


def gen_diagnosis(chk, tinfo):
    """None when the generated model and its equivalence proofs are in place; otherwise a message naming the rejected
    construct / the file that does not compile / the equivalence theorem that no longer holds."""
    if tinfo['rc'] != 0:
        return 'translator rejected the source: ' + tinfo['message']
    def uptodate(f):
        return sh('make -f Makefile.coq -q %s.vo' % f[:-2], cwd=COQ)[0] == 0
    if uptodate('Proofs/GenCombiSchemeEq.v'):
        return None
    os.makedirs(chk.work, exist_ok=True)
    for f in ('Gen/CombiSchemeGen.v', 'Proofs/PyLibFacts.v', 'Proofs/GenCombiSchemeEq.v'):
        if uptodate(f):
            continue
        rc, out = sh('timeout 900 coqc -Q . SG -o %s %s' % (os.path.join(chk.work, os.path.basename(f) + 'o'), f), cwd=COQ)
        out = '\n'.join(l for l in out.splitlines() if 'conda' not in l)
        if rc == 0:
            continue      # compiles on its own (e.g. regenerated meanwhile); the problem is further down the chain
        m = re.search(r'line (\d+)', out)
        thm = None
        if m:
            for i, ln in enumerate(open(os.path.join(COQ, f)).read().splitlines()[:int(m.group(1))]):
                mm = re.match(r'\s*(?:Theorem|Lemma|Corollary|Definition|Fixpoint)\s+(\w+)', ln)
                if mm:
                    thm = mm.group(1)
        if f.startswith('Gen/'):
            return 'generated model %s does not type-check (in %s): %s' % (f, thm, out[-1200:])
        return 'the source-derived model changed its meaning: %s of %s no longer holds: %s' % (thm, f, out[-1200:])
    return 'Proofs/GenCombiSchemeEq.vo is not up to date (build problem): see setup notes'


def gen_case(rng, tier):
    r = rng.random()
    dim = rng.choice([1, 2, 2, 3, 3, 4, 5] if tier == 'quick' else [1, 2, 2, 3, 3, 4, 4, 5, 6])
    lmin = rng.choice([0, 1, 1, 2, 3])
    span = rng.choice([0, 1, 2, 2, 3, 4]) if dim < 5 else rng.choice([0, 1, 2, 3])
    lmax = lmin + span
    nops = rng.randrange(0, 13)
    kind = 'valid'
    if r < 0.04:
        kind = 'bad-init'
        lmin, lmax = rng.choice([(2, 1), (3, 0), (-1, 2), (-2, -1)])
        nops = 0
    return dict(dim=dim, lmin=lmin, lmax=lmax, nops=nops, seed=rng.randrange(1 << 30), kind=kind)


def impl_state(cs, ret):
    grids = cs.getCombiScheme(do_print=False)
    return [(-1 if ret is None else [int(d) for d in ret]),
            sorted([int(x) for x in l] for l in cs.active_index_set),
            sorted([int(x) for x in l] for l in cs.old_index_set),
            int(cs.lmax_adaptive),
            sorted([[int(x) for x in g.levelvector], sx.rat(g.coefficient)] for g in grids)]


def impl_run(case):
    """Generates the op sequence while running the implementation (ops are chosen from the live index sets)."""
    import importlib
    import sparseSpACE.combiScheme as _m
    importlib.reload(_m)        # a case is self-contained: no module/class level state from earlier cases of this worker
    CombiScheme = _m.CombiScheme
    rng = random.Random(case['seed'])
    cs = CombiScheme(case['dim'])
    cs.init_adaptive_combi_scheme(case['lmax'], case['lmin'])
    states = [impl_state(cs, [])]
    ops = list(case.get('ops') or [])
    fixed = 'ops' in case and case['ops'] is not None
    out_ops = []
    for i in range(len(ops) if fixed else case['nops']):
        if fixed:
            l = ops[i]
        else:
            r = rng.random()
            act = sorted(cs.active_index_set)
            old = sorted(cs.old_index_set)
            if r < 0.62 and act:
                l = list(rng.choice(act))
            elif r < 0.72 and old:
                l = list(rng.choice(old))           # not refinable: old index
            elif r < 0.80 and act:
                l = list(rng.choice(act)); l[rng.randrange(len(l))] += rng.choice([1, -1])   # neighbour of active
            elif r < 0.90:
                l = [rng.randrange(max(0, case['lmin'] - 1), case['lmax'] + 3) for _ in range(case['dim'])]
            elif r < 0.95:
                l = [rng.randrange(0, case['lmax'] + 2) for _ in range(case['dim'] + rng.choice([-1, 1]))]  # wrong length
            else:
                l = list(rng.choice(act)) if act else [case['lmin']] * case['dim']   # refine the same one again later
        out_ops.append([int(x) for x in l])
        ret = cs.update_adaptive_combi(list(l))
        states.append(impl_state(cs, ret))
    # closed form on a fresh, non-initialised scheme
    std = None
    if case['lmin'] <= case['lmax']:
        cs2 = CombiScheme(case['dim'])
        # earlier requests on the same (non-initialised) object must not influence later ones
        r2 = random.Random(case['seed'] + 1)
        for _ in range(r2.choice([0, 1, 2])):
            l0 = max(0, case['lmin'] + r2.choice([-1, 1, 2]))
            cs2.getCombiScheme(lmin=l0, lmax=l0 + max(0, case['lmax'] - case['lmin'] + r2.choice([0, 0, 1])), do_print=False)
        std = sorted([[int(x) for x in g.levelvector], sx.rat(g.coefficient)]
                     for g in cs2.getCombiScheme(lmin=case['lmin'], lmax=case['lmax'], do_print=False))
    return dict(ops=out_ops, states=states, std=std)


def canon_model_state(st):
    ret, act, old, lmaxa, coeffs = st
    return [ret, sorted(act), sorted(old), lmaxa, sorted([[k, sx.rat(c)] for k, c in coeffs])]


def oracle_state(dim, lmin, st):
    """The property's own predicate evaluated on an implementation state. Returns None or a description."""
    ret, act, old, lmaxa, coeffs = st
    A = set(map(tuple, act)); O = set(map(tuple, old)); I = A | O
    if A & O:
        return 'active and old index sets intersect: %s' % sorted(A & O)[:3]
    for k in I:
        if len(k) != dim or min(k) < lmin:
            return 'index %s has wrong length or lies below lmin' % (k,)
        for d in range(dim):
            b = list(k); b[d] -= 1; b = tuple(b)
            if b[d] >= lmin and b not in I:
                return 'index set not downward closed: %s in set, backward neighbour %s missing' % (k, b)
            f = list(k); f[d] += 1; f = tuple(f)
            if k in A and f in I:
                return 'active index %s has forward neighbour %s in the set' % (k, f)
    for k, c in coeffs:
        if tuple(k) not in I:
            return 'returned grid %s lies outside the index set' % (k,)
    if I:
        hi = [max(k[d] for k in I) + 1 for d in range(dim)]
        for l in itertools.product(*[range(lmin, hi[d] + 1) for d in range(dim)]):
            s = sum(c for k, c in coeffs if all(k[d] >= l[d] for d in range(dim)))
            want = 1 if l in I else 0
            if s != want:
                return 'coefficients of grids dominating %s sum to %s, expected %s' % (l, s, want)
    return None


# ====================================================================================================================
# HISTORIES OF PUBLIC REQUESTS ON ONE OBJECT (several objects per process): re-initialisation with equal / other
# parameters / other parameters giving an index set of the SAME SIZE, init_full_grid, update requests, scheme requests
# with arbitrary lmin/lmax/do_print, queries; returned objects are mutated by the caller, arguments are passed as
# list / tuple / ndarray.  Model: Entry sub 2 (Model/CombiSchemeObj.v), one independent machine per object.
# ====================================================================================================================
OPCODE = {'init': 0, 'full': 1, 'update': 2, 'get': 3, 'index_set': 4, 'active': 5, 'refinable': 6, 'forward': 7,
          'inset': 8, 'old': 9, 'ext': 10}


def simplex_size(dim, span):
    import math
    return math.comb(span + dim, dim) if span >= 0 else 0


def gen_hist_case(rng, tier):
    r = rng.random()
    if r < 0.70:
        dims = [rng.choice([1, 2, 2, 2, 3, 3, 4])]
    elif r < 0.85:
        d = rng.choice([2, 2, 3])
        dims = [d, d]                                    # two objects of one class in one process, same dimension
    else:
        dims = [rng.choice([1, 2, 3]), rng.choice([2, 3, 4])]
    if tier != 'quick' and rng.random() < 0.1:
        dims = [rng.choice([5, 6])]
    mode = rng.choice(['random', 'random', 'twin', 'collide', 'collide'])
    return dict(dims=dims, nops=rng.randrange(4, 15), mode=mode, probe=rng.random() < 0.35, seed=rng.randrange(1 << 30),
                kind='history')


def _canon_lv(l):
    return [int(x) for x in l]


def _mk_arg(l, kind):
    import numpy as np
    if kind == 'tuple':
        return tuple(l)
    if kind == 'nd':
        return np.array(l, dtype=int)
    return list(l)


def _exec(cs, op, mutate):
    """One request. Returns (status, canonical result, problem-with-argument or None)."""
    import contextlib
    import io
    import numpy as np
    k = op['op']
    arg = None
    try:
        if k in ('init', 'full'):
            (cs.init_adaptive_combi_scheme if k == 'init' else cs.init_full_grid)(op['lmax'], op['lmin'])
            res = ['unit']
        elif k == 'get':
            if op.get('pr'):
                with contextlib.redirect_stdout(io.StringIO()):
                    g = cs.getCombiScheme(op['lmin'], op['lmax'], True)
            elif op.get('defaults'):
                g = cs.getCombiScheme(do_print=False)
            else:
                g = cs.getCombiScheme(lmin=op['lmin'], lmax=op['lmax'], do_print=False)
            res = ['coeffs', sorted([_canon_lv(x.levelvector), sx.rat(x.coefficient)] for x in g)]
            if mutate and op.get('mut') == 'list':
                del g[:]
            elif mutate and op.get('mut') == 'coef':
                for x in g:
                    x.coefficient = 77
            elif mutate and op.get('mut') == 'lv':
                for x in g:
                    if isinstance(x.levelvector, np.ndarray):
                        x.levelvector += 3
                    else:
                        x.levelvector = tuple(9 for _ in x.levelvector)
        elif k == 'index_set':
            st = cs.get_index_set()
            res = ['set', sorted(_canon_lv(x) for x in st)]
            if mutate and op.get('mut'):
                st.add(tuple([99] * cs.dim))
                if len(st) > 1:
                    st.discard(min(st))
        elif k == 'active':
            res = ['set', sorted(_canon_lv(x) for x in cs.get_active_indices())]     # the object's own set: read only
        else:
            arg = _mk_arg(op['l'], op.get('kind', 'list'))
            keep = list(arg)
            f = {'update': cs.update_adaptive_combi, 'refinable': cs.is_refinable, 'forward': cs.has_forward_neighbour,
                 'inset': cs.in_index_set, 'old': cs.is_old_index, 'ext': cs.extendable_level}[k]
            v = f(arg)
            if k == 'update':
                res = ['dims', -1 if v is None else [int(d) for d in v]]
            elif k == 'ext':
                res = ['ext', int(bool(v[0])), int(v[1])]
            else:
                res = ['bool', int(bool(v))]
            if type(arg) is not type(_mk_arg(op['l'], op.get('kind', 'list'))) or [int(x) for x in arg] != [int(x) for x in keep]:
                return 'ok', res, 'argument %s changed from %s to %s' % (k, keep, list(arg))
        return 'ok', res, None
    except Exception as e:      # exceptions are observables
        return 'exc', ['exc', type(e).__name__], None


def _snapshot(cs):
    return [sorted(_canon_lv(x) for x in cs.active_index_set), sorted(_canon_lv(x) for x in cs.old_index_set),
            int(getattr(cs, 'lmax_adaptive', -1))]


def _rand_lv(rng, cs, info, dim):
    r = rng.random()
    act = sorted(cs.active_index_set); old = sorted(cs.old_index_set)
    lo = info['lmin'] if info['lmin'] is not None else 1
    if r < 0.45 and act:
        return list(rng.choice(act))
    if r < 0.6 and old:
        return list(rng.choice(old))
    if r < 0.75 and act:
        l = list(rng.choice(act)); l[rng.randrange(len(l))] += rng.choice([1, -1]); return l
    if r < 0.9:
        return [rng.randrange(max(0, lo - 1), lo + 5) for _ in range(dim)]
    return [rng.randrange(0, 4) for _ in range(max(0, dim + rng.choice([-1, 1])))]          # wrong length


def _plan(rng, case, o, cs, info, dim):
    """The next request(s) for object o, chosen from the live state."""
    kinds = ['list', 'list', 'tuple', 'nd']
    def upd(l):
        return dict(o=o, op='update', l=_canon_lv(l), kind=rng.choice(kinds))
    def get():
        r = rng.random()
        op = dict(o=o, op='get', lmin=rng.choice([0, 1, 1, 2, 3]), lmax=0, pr=int(rng.random() < 0.2),
                  mut=rng.choice([None, None, 'list', 'coef', 'lv']))
        op['lmax'] = op['lmin'] + rng.choice([-1, 0, 1, 2, 3, 4])
        if r < 0.3 and not op['pr']:
            op['defaults'] = 1; op['lmin'], op['lmax'] = 1, 2
        elif r < 0.6 and info['shared'].get('get'):
            op['lmin'], op['lmax'] = info['shared']['get']       # the parameters of the last request on ANY object of the case
        info['shared']['get'] = (op['lmin'], op['lmax'])
        return op
    size = len(cs.active_index_set | cs.old_index_set)
    if info['state'] is None:            # not initialised yet
        r = rng.random()
        if r < 0.30:
            return [get()]
        if r < 0.38:
            return [dict(o=o, op=rng.choice(['refinable', 'forward', 'inset', 'old', 'ext', 'update']),
                         l=[rng.randrange(0, 4) for _ in range(dim)], kind=rng.choice(kinds))]
        if r < 0.40:
            return [dict(o=o, op=rng.choice(['index_set', 'active']), mut=0)]
    r = rng.random()
    if info['state'] is None or r < 0.16:
        # (re-)initialisation
        lmin = rng.choice([0, 1, 1, 2, 3]); span = rng.choice([0, 1, 2, 2, 3, 4 if dim < 4 else 2])
        rel = 'first' if info['state'] is None else 'other'
        if info['state'] is not None:
            q = rng.random()
            mode = case['mode']
            if mode == 'twin' or q < 0.25:
                lmin, span, rel = info['lmin'], info['lmax'] - info['lmin'], 'same-parameters'
            elif mode == 'collide' or q < 0.5:
                # other parameters whose initial index set is as large as possible without exceeding the size the last
                # scheme request saw; refinements then bring it to exactly that size
                want = info['get_size'] or size
                cands = [(lm, sp) for lm in (0, 1, 2, 3) for sp in (0, 1, 2, 3, 4)
                         if simplex_size(dim, sp) <= want and (lm, lm + sp) != (info['lmin'], info['lmax'])]
                if cands:
                    best = max(simplex_size(dim, sp) for lm, sp in cands)
                    lmin, span = rng.choice([c for c in cands if simplex_size(dim, c[1]) == best])
                    rel = 'same-size-other-content' if best == want else 'grow-to-same-size'
        if rng.random() < 0.06:
            lmin, span, rel = rng.choice([(2, -1), (-1, 2), (3, -3)]) + ('bad-parameters',)
        full = info['state'] is not None and rng.random() < 0.12 or (info['state'] is None and rng.random() < 0.06)
        info['pending_rel'] = rel
        return [dict(o=o, op='full' if full else 'init', lmax=lmin + span, lmin=lmin, rel=rel)]
    if r < 0.22 and info['state'] == 'adaptive' and info.get('get_size') and size < info['get_size'] and info.get('chase', 0) < 8:
        pass
    if info['state'] == 'adaptive' and info.get('target') and size < info['target'] and info.get('chase', 0) < 10:
        # after a re-initialisation: refine towards the size the last scheme request saw (other content, same size)
        info['chase'] = info.get('chase', 0) + 1
        act = sorted(cs.active_index_set)
        avoid = info.get('first_pass', [])
        pool = [a for a in act if list(a) not in avoid] or act
        return [upd(rng.choice(pool))]
    if info['state'] == 'adaptive' and info.get('target') and size == info['target']:
        info['target'] = None
        return [get()]
    if r < 0.55:
        return [upd(_rand_lv(rng, cs, info, dim))]
    if r < 0.72:
        return [get()]
    if r < 0.80:
        return [dict(o=o, op='index_set', mut=int(rng.random() < 0.5))]
    if r < 0.83:
        return [dict(o=o, op='active')]
    return [dict(o=o, op=rng.choice(['refinable', 'forward', 'inset', 'old', 'ext']), l=_canon_lv(_rand_lv(rng, cs, info, dim)),
                 kind=rng.choice(kinds))]


def impl_hist(case):
    """Runs a history on the objects `main` (returned objects are mutated as a caller might) and on `ctrl` (same requests,
    returned objects untouched).  The history is generated from the live state unless case['ops'] is given."""
    import importlib
    import sparseSpACE.combiScheme as _m
    importlib.reload(_m)        # module/class level state must not leak from the case the worker process ran before
    CombiScheme = _m.CombiScheme
    rng = random.Random(case['seed'])
    dims = case['dims']
    main = [CombiScheme(d) for d in dims]
    ctrl = [CombiScheme(d) for d in dims]
    shared = {}
    info = [dict(state=None, lmin=None, lmax=None, get_size=None, target=None, first_pass=[], shared=shared) for _ in dims]
    fixed = case.get('ops') is not None
    queue = list(case['ops']) if fixed else []
    ops, obs, cobs, argp = [], [], [], []
    budget = len(queue) if fixed else case['nops']
    while len(ops) < (budget if fixed else 40) and (queue or (not fixed and len(ops) < budget + 12 and
                                                             (len(ops) < budget or any(i['target'] for i in info)))):
        if not queue:
            o = rng.randrange(len(dims))
            queue = _plan(rng, case, o, main[o], info[o], dims[o])
            if case.get('probe') and queue[0]['op'] not in ('get',):
                queue = queue + [dict(o=o, op='get', lmin=1, lmax=2, defaults=1, pr=0, mut=None)]
        op = queue.pop(0)
        o = op['o']; cs = main[o]; inf = info[o]
        st, res, ap = _exec(cs, op, True)
        cst, cres, _ = _exec(ctrl[o], op, False)
        ops.append(op)
        obs.append([st, res] + _snapshot(cs))
        cobs.append([cst, cres] + _snapshot(ctrl[o]))
        argp.append(ap)
        # bookkeeping for the generator
        if op['op'] in ('init', 'full') and st == 'ok':
            inf['state'] = 'adaptive' if op['op'] == 'init' else 'full'
            if inf.get('get_size') and op['op'] == 'init' and op.get('rel') in ('same-parameters', 'grow-to-same-size',
                                                                              'same-size-other-content'):
                inf['target'] = inf['get_size']; inf['chase'] = 0
            else:
                inf['target'] = None
            if op.get('rel') != 'same-parameters':
                inf['first_pass'] = []
            inf['lmin'], inf['lmax'] = op['lmin'], op['lmax']
        elif op['op'] == 'update' and st == 'ok' and res[1] != -1 and not inf.get('target'):
            inf['first_pass'].append(op['l'])
        elif op['op'] == 'get' and st == 'ok' and inf['state'] is not None:
            inf['get_size'] = len(cs.active_index_set | cs.old_index_set)
    return dict(ops=ops, obs=obs, ctrl=cobs, argp=argp)


def enc_op(op):
    k = op['op']
    if k in ('init', 'full'):
        return [OPCODE[k], op['lmax'], op['lmin']]
    if k == 'get':
        return [OPCODE[k], op['lmin'], op['lmax']]
    if k in ('index_set', 'active'):
        return [OPCODE[k]]
    return [OPCODE[k], op['l']]


def dec_model_step(m):
    r, act, old, la = m
    t = r[0]
    if t == 0:
        res = ['exc']
    elif t == 1:
        res = ['unit']
    elif t == 2:
        res = ['dims', r[1]]
    elif t == 3:
        res = ['coeffs', sorted([k, sx.rat(c)] for k, c in r[1])]
    elif t == 4:
        res = ['set', sorted(r[1])]
    elif t == 5:
        res = ['bool', r[1]]
    else:
        res = ['ext', r[1], r[2]]
    return [res, sorted(act), sorted(old), la]


def oracle_sets(dim, lmin, act, old):
    A = set(map(tuple, act)); O = set(map(tuple, old)); I = A | O
    if A & O:
        return 'active and old index sets intersect: %s' % sorted(A & O)[:3]
    for k in I:
        if len(k) != dim or min(k) < lmin:
            return 'index %s has wrong length or lies below lmin' % (k,)
        for d in range(dim):
            b = list(k); b[d] -= 1; b = tuple(b)
            if b[d] >= lmin and b not in I:
                return 'index set not downward closed: %s in set, backward neighbour %s missing' % (k, b)
            f = list(k); f[d] += 1; f = tuple(f)
            if k in A and f in I:
                return 'active index %s has forward neighbour %s in the set' % (k, f)
    return None


def oracle_coeffs(dim, lmin, I, coeffs, support=True):
    I = set(map(tuple, I))
    for k, c in coeffs:
        if support and tuple(k) not in I:
            return 'returned grid %s lies outside the index set' % (k,)
    pts = list(I) + [tuple(k) for k, c in coeffs]
    if pts:
        hi = [max(k[d] for k in pts) + 1 for d in range(dim)]
        for l in itertools.product(*[range(lmin, hi[d] + 1) for d in range(dim)]):
            s = sum(c for k, c in coeffs if all(k[d] >= l[d] for d in range(dim)))
            want = 1 if l in I else 0
            if s != want:
                return 'coefficients of grids dominating %s sum to %s, expected %s' % (l, s, want)
    return None


def oracle_history(dims, ops, obs, ctrl, argp, deep=True):
    """The property's own predicates along a history, evaluated on the implementation alone.
    Returns (step, kind, message) of the first violation or None."""
    state = [None] * len(dims); par = [None] * len(dims)
    for i, (op, ob) in enumerate(zip(ops, obs)):
        o = op['o']; dim = dims[o]
        st, res, act, old, la = ob
        if argp[i]:
            return i, 'argument-mutated', argp[i]
        if ctrl[i] != ob:
            return i, 'result-aliases-internal-state', ('after the caller changed an object returned by an earlier request '
                    'the object answers/holds %s; the same requests without touching returned objects give %s' % (str(ob)[:300], str(ctrl[i])[:300]))
        if op['op'] in ('init', 'full') and st == 'ok':
            state[o] = 'adaptive' if op['op'] == 'init' else 'full'; par[o] = (op['lmax'], op['lmin'])
        A = set(map(tuple, act)); O = set(map(tuple, old)); I = A | O
        if state[o] == 'adaptive':
            why = oracle_sets(dim, par[o][1], act, old)
            if why:
                return i, 'property-predicate', why
        if st != 'ok':
            continue
        k = op['op']
        if k == 'get' and state[o] in ('adaptive', 'full') and deep:
            # after init_full_grid (plotting helper, 'violates the basic properties of the index sets': active set empty, and
            # for d >= 3 the set is not even downward closed) only the dominating-sum identity is claimed: it holds for the
            # coefficients of ANY finite index set (C01_inclusion_exclusion_any_index_set)
            why = oracle_coeffs(dim, par[o][1], I, res[1], support=state[o] == 'adaptive')
            if why:
                return i, 'property-predicate', why
        if k == 'get' and state[o] is None and 0 <= op['lmin'] <= op['lmax'] and deep:
            # closed form = inclusion-exclusion scheme of the freshly initialised index set {k >= lmin, |k-lmin|_1 <= lmax-lmin}
            span = op['lmax'] - op['lmin']
            S = [tuple(op['lmin'] + x for x in v) for v in itertools.product(range(span + 1), repeat=dim) if sum(v) <= span]
            why = oracle_coeffs(dim, op['lmin'], S, res[1])
            if why:
                return i, 'property-predicate', 'closed form for lmin=%d lmax=%d: %s' % (op['lmin'], op['lmax'], why)
        if k == 'index_set' and set(map(tuple, res[1])) != I:
            return i, 'query-inconsistent-with-sets', 'get_index_set returns %s, the sets hold %s' % (res[1], sorted(I))
        if k in ('refinable', 'inset', 'old'):
            t = tuple(op['l']); want = {'refinable': t in A, 'inset': t in I, 'old': t in O}[k]
            if bool(res[1]) != want:
                return i, 'query-inconsistent-with-sets', '%s(%s) answers %s, the sets say %s' % (k, op['l'], bool(res[1]), want)
        if k == 'forward' and len(op['l']) == dim:
            want = any(tuple(op['l'][:d] + [op['l'][d] + 1] + op['l'][d + 1:]) in I for d in range(dim))
            if bool(res[1]) != want:
                return i, 'query-inconsistent-with-sets', 'has_forward_neighbour(%s) answers %s, the sets say %s' % (op['l'], bool(res[1]), want)
    return None


def shrink_history(case, ops, upto, pred):
    """Greedy removal of requests before the failing one while the implementation still fails the same predicate."""
    ops = ops[:upto + 1]
    i = 0
    tries = 0
    while i < len(ops) - 1 and tries < 40:
        cand = ops[:i] + ops[i + 1:]
        tries += 1
        st, r = run_impl(impl_hist, [dict(case, ops=cand)], limit=60)[0]
        if st == 'ok' and pred(r):
            ops = cand
        else:
            i += 1
    return ops


def run_object_histories(chk):
    n = chk.n(420, 12000)
    corpus = [
        # equal size, other content after a re-initialisation (seeded/C01r3)
        dict(dims=[2], nops=4, mode='fixed', probe=False, seed=0, kind='history', ops=[
            dict(o=0, op='init', lmax=3, lmin=1), dict(o=0, op='get', lmin=1, lmax=2, pr=0, mut=None, defaults=1),
            dict(o=0, op='init', lmax=2, lmin=0), dict(o=0, op='get', lmin=1, lmax=2, pr=0, mut=None, defaults=1)]),
        dict(dims=[2], nops=6, mode='fixed', probe=False, seed=0, kind='history', ops=[
            dict(o=0, op='init', lmax=2, lmin=1), dict(o=0, op='update', l=[1, 2], kind='list'),
            dict(o=0, op='get', lmin=1, lmax=2, pr=0, mut='coef'), dict(o=0, op='init', lmax=2, lmin=1),
            dict(o=0, op='update', l=[2, 1], kind='nd'), dict(o=0, op='get', lmin=1, lmax=2, pr=1, mut=None)]),
        # closed form requests with changing parameters on one never initialised object, two objects in one process
        dict(dims=[3, 2], nops=6, mode='fixed', probe=False, seed=0, kind='history', ops=[
            dict(o=0, op='get', lmin=1, lmax=3, pr=0, mut='lv'), dict(o=1, op='get', lmin=1, lmax=3, pr=0, mut='list'),
            dict(o=0, op='get', lmin=2, lmax=4, pr=0, mut=None), dict(o=0, op='get', lmin=1, lmax=3, pr=1, mut=None),
            dict(o=1, op='init', lmax=3, lmin=1), dict(o=1, op='get', lmin=0, lmax=5, pr=0, mut=None),
            dict(o=0, op='full', lmax=2, lmin=1), dict(o=0, op='get', lmin=1, lmax=2, pr=0, mut=None),
            dict(o=0, op='index_set', mut=1), dict(o=0, op='forward', l=[1, 1, 1], kind='tuple'),
            dict(o=0, op='init', lmax=2, lmin=1), dict(o=0, op='ext', l=[1, 2, 1], kind='nd'),
            dict(o=0, op='update', l=[1, 1, 2], kind='nd'), dict(o=0, op='get', lmin=1, lmax=2, pr=0, mut=None)]),
        # larger sizes
        dict(dims=[2], nops=3, mode='fixed', probe=False, seed=0, kind='history', ops=[
            dict(o=0, op='init', lmax=9, lmin=1), dict(o=0, op='get', lmin=1, lmax=2, pr=0, mut=None, defaults=1),
            dict(o=0, op='update', l=[5, 5], kind='list'), dict(o=0, op='get', lmin=1, lmax=2, pr=0, mut=None, defaults=1)]),
        dict(dims=[6], nops=3, mode='fixed', probe=False, seed=0, kind='history', ops=[
            dict(o=0, op='init', lmax=3, lmin=1), dict(o=0, op='update', l=[1, 1, 1, 1, 1, 3], kind='tuple'),
            dict(o=0, op='get', lmin=1, lmax=2, pr=0, mut=None, defaults=1)]),
    ]
    cases = corpus + [gen_hist_case(chk.rng, chk.tier) for _ in range(n)]
    impl = run_impl(impl_hist, cases, limit=120)
    mcases, midx = [], []
    for i, (c, (st, r)) in enumerate(zip(cases, impl)):
        if st != 'ok':
            continue
        for o, d in enumerate(c['dims']):
            mcases.append((2, [d, [enc_op(op) for op in r['ops'] if op['o'] == o]])); midx.append((i, o))
    mres = run_model(1, mcases)
    mstep = {}
    for (i, o), mr in zip(midx, mres):
        mstep[(i, o)] = mr
    keys, samples = [], []
    shrunk = {}
    for i, (c, (st, r)) in enumerate(zip(cases, impl)):
        chk.count('hist:objects=%d' % len(c['dims'])); chk.count('hist:mode=' + c['mode'])
        for d in c['dims']:
            chk.count('hist:dim=%d' % d)
        if st != 'ok':
            chk.violation('corr:C01/object-history', 'harness-exception', {'exc': r[0] if r else st}, c, dict(impl=str(r)[:600]),
                          failing_input=False)
            continue
        chk.traces += 1
        ops, obs = r['ops'], r['obs']
        nontrivial = False
        last_get = {}
        for op, ob in zip(ops, obs):
            chk.count('hist:op=' + op['op'])
            if 'kind' in op:
                chk.count('hist:arg=' + op['kind'])
            if op['op'] in ('init', 'full'):
                chk.count('hist:reinit=' + op.get('rel', 'fixed'))
            if op['op'] == 'get':
                chk.count('hist:get:' + ('print' if op.get('pr') else 'defaults' if op.get('defaults') else 'explicit-lmin-lmax'))
                chk.count('hist:get:mutate-result=' + str(op.get('mut')))
                I = sorted(ob[2] + ob[3])
                if ob[0] == 'ok' and I:
                    if op['o'] in last_get and len(last_get[op['o']]) == len(I) and last_get[op['o']] != I:
                        chk.count('hist:consecutive scheme requests see index sets of equal size and other content')
                        nontrivial = True
                    last_get[op['o']] = I
            if ob[0] == 'exc':
                chk.count('hist:raises=' + ob[1][1] + '@' + op['op'])
        # 1. the property's own predicates on the implementation alone
        bad = oracle_history(c['dims'], ops, obs, r['ctrl'], r['argp'], deep=max(c['dims']) <= 4)
        # 2. correspondence with the model, object by object
        diff = None
        for o, d in enumerate(c['dims']):
            mr = mstep.get((i, o))
            mine = [(j, op, ob) for j, (op, ob) in enumerate(zip(ops, obs)) if op['o'] == o]
            if sx.is_err(mr) or isinstance(mr, tuple) or len(mr) != len(mine):
                diff = (mine[0][0] if mine else 0, 'model-rejects', str(mr)[:300], ''); break
            for (j, op, ob), m in zip(mine, mr):
                ms = dec_model_step(m)
                is_ = [ob[1] if ob[0] == 'ok' else ['exc']] + ob[2:]
                if ms != is_:
                    names = ['result of ' + op['op'], 'active set', 'old set', 'lmax_adaptive']
                    diff = (j, ','.join(names[q] for q in range(4) if ms[q] != is_[q]), str(ms)[:700], str(is_)[:700]); break
            if diff:
                break
        if bad:
            step, kind, msg = bad
            small = ops[:step + 1]
            shrunk[kind] = shrunk.get(kind, 0) + 1
            try:
                if shrunk[kind] <= 3:
                    small = shrink_history(c, ops, step, lambda rr: (lambda b: b is not None and b[1] == kind)(
                    oracle_history(c['dims'], rr['ops'], rr['obs'], rr['ctrl'], rr['argp'])))
            except Exception:
                pass
            chk.violation('oracle:object_history', kind, {'request': small[-1]['op']}, dict(c, ops=small, nops=len(small)),
                          dict(step=step, why=msg, model_differs_at=diff and diff[0]))
        elif diff:
            chk.violation('corr:C01/object-history', 'object-history-differs', {'observable': diff[1].split(' of ')[0]},
                          dict(c, ops=ops[:diff[0] + 1]), dict(step=diff[0], differs=diff[1], model=diff[2], impl=diff[3],
                                                              property_predicate=None), failing_input=False)
        inits = sum(1 for op, ob in zip(ops, obs) if op['op'] in ('init', 'full') and ob[0] == 'ok')
        if inits >= 2 or nontrivial:
            keys.append(('hist', str(c['dims']), json_key(ops)))
        if len(samples) < 2 and nontrivial:
            samples.append(dict(dims=c['dims'], ops=ops[:12]))
    chk.record_cases(len(cases), keys,
                     'histories of 4..26 public requests on one object / two objects in one process (d 1..6): (re-)initialisation '
                     'with equal, other and size-colliding parameters, init_full_grid, update requests (list/tuple/ndarray, '
                     'arbitrary vectors), scheme requests (defaults / other lmin,lmax / do_print), queries, caller-side mutation of '
                     'returned lists/grids/sets; non-trivial = at least two successful initialisations of one object or two '
                     'consecutive scheme requests on index sets of equal size and other content', samples)


def json_key(ops):
    import json
    return json.dumps([enc_op(op) for op in ops])


def run(chk):
    tinfo = run_translator(chk)       # BEFORE the obligations: the theorems are re-checked against the source as it is now
    chk.coq_obligations()
    gen_problem = gen_diagnosis(chk, tinfo)
    chk.extra['source_derived_model']['status'] = gen_problem or 'generated, equivalent to the hand-written model (C01_gen_* proved)'
    n = chk.n(400, 20000)
    cases = [gen_case(chk.rng, chk.tier) for _ in range(n)]
    # corpus: fixed regression cases first
    corpus = [dict(dim=2, lmin=1, lmax=2, ops=[[1, 2], [2, 1], [1, 1]], nops=3, seed=0, kind='valid'),
              dict(dim=3, lmin=0, lmax=2, ops=[[0, 0, 2], [0, 0, 3], [1, 0, 1], [0, 1, 1]], nops=4, seed=0, kind='valid'),
              dict(dim=1, lmin=1, lmax=1, ops=[[1], [2], [3], [2]], nops=4, seed=0, kind='valid')]
    cases = corpus + cases
    impl = run_impl(impl_run, cases, limit=120)
    mcases, idx = [], []
    for i, (c, (st, r)) in enumerate(zip(cases, impl)):
        if st == 'ok':
            mcases.append((0, [c['dim'], c['lmax'], c['lmin'], r['ops']])); idx.append((i, 'hist'))
            if r['std'] is not None:
                mcases.append((1, [c['dim'], c['lmin'], c['lmax']])); idx.append((i, 'std'))
        else:
            mcases.append((0, [c['dim'], c['lmax'], c['lmin'], c.get('ops') or []])); idx.append((i, 'hist'))
    mres = run_model(1, mcases)
    keys, samples = [], []
    for (i, what), mc, mr in zip(idx, mcases, mres):
        c = cases[i]; st, r = impl[i]
        chk.count('dim=%d' % c['dim']); chk.count('kind=' + c['kind'])
        sig = {'dim': c['dim']}
        if what == 'std':
            m = sorted([[k, sx.rat(cf)] for k, cf in mr])
            if m != r['std']:
                chk.violation('corr:C01/closed_form', 'closed-form-differs', {}, c,
                              dict(model=str(m)[:600], impl=str(r['std'])[:600]), failing_input=False)
            # property clause: closed form == freshly initialised adaptive scheme (implementation against itself)
            if r['std'] != r['states'][0][4]:
                chk.violation('oracle:closed_form_equals_adaptive_init', 'closed-form-vs-adaptive', {}, dict(c, ops=[]),
                              dict(closed_form=str(r['std'])[:600], adaptive=str(r['states'][0][4])[:600]))
            continue
        if st != 'ok':
            if st == 'exc' and r[0] == 'AssertionError' and sx.is_err(mr):
                chk.count('rejected-by-both')
                continue
            chk.violation('corr:C01/history', 'impl-exception', {'exc': r[0] if r else st}, c, dict(impl=str(r), model=str(mr)[:300]))
            continue
        chk.traces += 1
        chk.count('ops=%d' % len(r['ops']))
        if sx.is_err(mr) or (isinstance(mr, tuple)):
            chk.violation('corr:C01/history', 'model-rejects', {}, dict(c, ops=r['ops']), dict(model=str(mr)))
            continue
        mstates = [canon_model_state(s) for s in mr]
        bad = None
        for step, (ms, is_) in enumerate(zip(mstates, r['states'])):
            if ms != is_:
                bad = step
                break
        if bad is not None or len(mstates) != len(r['states']):
            # failing-input search: does the implementation state violate the property?
            fc = dict(c, ops=r['ops'][:bad] if bad is not None else r['ops'])
            why = None
            for step in range(len(r['states'])):
                why = oracle_state(c['dim'], c['lmin'], r['states'][step])
                if why:
                    fc = dict(c, ops=r['ops'][:step]); break
            names = ['return value', 'active set', 'old set', 'lmax_adaptive', 'coefficients']
            diff = [names[j] for j in range(5) if bad is not None and mstates[bad][j] != r['states'][bad][j]]
            chk.violation('corr:C01/history', 'history-differs', {'observable': ','.join(diff)}, fc,
                          dict(step=bad, differs=diff, property_predicate=why,
                               model=str(mstates[bad] if bad is not None else None)[:800],
                               impl=str(r['states'][bad] if bad is not None else None)[:800]),
                          failing_input=bool(why))
        else:
            # the oracle is evaluated on every implementation state as well (independent of the model)
            for step, s in enumerate(r['states']):
                why = oracle_state(c['dim'], c['lmin'], s) if (chk.quick and c['dim'] <= 4) or c['dim'] <= 3 else None
                if why:
                    chk.violation('oracle:ie_scheme', 'property-predicate', {}, dict(c, ops=r['ops'][:step]), dict(why=why))
                    break
        refin = sum(1 for s in r['states'][1:] if s[0] != -1)
        if refin >= 1 and c['dim'] >= 2:
            keys.append((c['dim'], c['lmin'], c['lmax'], str(r['ops'])))
        if len(samples) < 3 and refin >= 2:
            samples.append(dict(dim=c['dim'], lmin=c['lmin'], lmax=c['lmax'], ops=r['ops'],
                                final_scheme=str(r['states'][-1][4])))
    run_object_histories(chk)
    if gen_problem and not any(v['failing_input'] for v in chk.violations):
        # broken proof obligation of the source-derived model; the correspondence and the oracle above found no input on
        # which the implementation violates the property
        chk.violation('theorem:gen-equivalence', 'translator-or-equivalence-broken',
                      {'stage': 'translator' if tinfo['rc'] != 0 else 'coq'}, None, gen_problem, failing_input=False)
    chk.record_cases(len(cases), keys,
                     'random histories on CombiScheme (d 1..6, lmin 0..3, span 0..4, <=12 update requests incl. old/'
                     'neighbour/random/wrong-length vectors); non-trivial = d>=2 and at least one request actually refined; '
                     'distinct by (d,lmin,lmax,ops)', samples)


def replay(chk, rep):
    c = rep['case']
    if 'dims' in c:
        st, r = run_impl(impl_hist, [c])[0]
        print('impl:', st)
        if st != 'ok':
            print(r); return 1
        for op, ob, cb in zip(r['ops'], r['obs'], r['ctrl']):
            print(' ', op, '->', ob[:2], 'active', ob[2], 'old', ob[3], '' if cb == ob else '   [control object: %s]' % (cb,))
        for o, d in enumerate(c['dims']):
            print('model, object %d:' % o, run_model(1, [(2, [d, [enc_op(op) for op in r['ops'] if op['o'] == o]])])[0])
        bad = oracle_history(c['dims'], r['ops'], r['obs'], r['ctrl'], r['argp'])
        print('property predicates:', 'hold' if bad is None else 'VIOLATED at request %d (%s): %s' % bad)
        return 1 if bad else 0
    st, r = run_impl(impl_run, [c])[0]
    print('impl:', st, r)
    mr = run_model(1, [(0, [c['dim'], c['lmax'], c['lmin'], r['ops'] if st == 'ok' else c.get('ops') or []])])[0]
    print('model:', mr)
    if st == 'ok':
        for step, s in enumerate(r['states']):
            why = oracle_state(c['dim'], c['lmin'], s)
            print('step', step, 'property predicate:', why or 'holds')
            if why:
                return 1
    return 0
