"""C08: source-derived model of the 1D local grid classes (DESIGN.md 0.5.1 scheme).  coq/Gen/LocalGrid1DGen.v is regenerated from the
working tree ($VERIF_REPO) by harness/translate/py2gallina_c08.py (a front end of the shared translator, which is imported,
not modified) under the build lock, before the proof obligations are (re)built; Props/C08gen.v holds the equivalence theorems
(generated = Model/LocalGrids.v for all attribute values) and the C08 statements for the generated functions."""
import fcntl
import hashlib
import os
import re
import subprocess
import sys
from ..core import ROOT, COQ
from .. import gen

TRANSLATOR = os.path.join(ROOT, 'harness', 'translate', 'py2gallina_c08.py')
GEN_FILE = 'LocalGrid1DGen.v'
TRANSLATOR_AREA = os.path.join(ROOT, 'harness', 'translate', 'py2gallina_c08_area.py')
GEN_FILE_AREA = 'Grid1dAreaGen.v'
GEN_CHAIN = ['Base/PyNumMath.v', 'Gen/LocalGrid1DGen.v', 'Gen/Grid1dAreaGen.v', 'Proofs/GenLocalGridsEq.v', 'Proofs/GenGrid1dAreaEq.v',
             'Props/C08gen.v']
EXTRA_PROPS = ('C08gen',)
ASSUMPTION = gen.ASSUMPTION + ('; C08 front end (py2gallina_c08.py): unannotated parameters `level`, `index` of the 1D grid classes declared int, '
                               'math.isclose read as |x-y| <= 1e-9*max(|x|,|y|) on exact rationals (coq/Base/PyNumMath.v), int(bool) = 0/1; '
                               'translated: TrapezoidalGrid1D.level_to_num_points_1d / weight_composite_trapezoidal / get_1d_weight / '
                               'get_1D_level_weights, ClenshawCurtisGrid1D / GaussGrid1D / LejaGrid1D.level_to_num_points_1d; the border bookkeeping '
                               'Grid1d.set_current_area (attribute writes) is translated by its own front end py2gallina_c08_area.py (record updates; '
                               'the abstract method level_to_num_points_1d of the subclass is a parameter that sees the record; the array construction '
                               'at the end of the method is accepted by exact text and not translated); not translated: numpy slicing with steps '
                               '(Simpson), np.linspace, math.cos (Clenshaw-Curtis weights), LAPACK / fmin (Leja weights and points)')


def regenerate(chk):
    with open(os.path.join(ROOT, '.buildlock'), 'w') as lk:
        fcntl.flock(lk, fcntl.LOCK_EX)
        p = subprocess.run([sys.executable, TRANSLATOR], capture_output=True, text=True)
        p2 = subprocess.run([sys.executable, TRANSLATOR_AREA], capture_output=True, text=True)
    msg = '\n'.join(l for l in (p.stderr + p2.stderr).splitlines() if 'conda' not in l).strip()
    chk.checker_cmds.append('/venv/bin/python harness/translate/py2gallina_c08_area.py  (regenerates coq/Gen/%s: Grid1d.set_current_area)' % GEN_FILE_AREA)
    chk.checker_cmds.append('/venv/bin/python harness/translate/py2gallina_c08.py  (regenerates coq/Gen/%s from sparseSpACE/Grid.py)' % GEN_FILE)
    info = dict(rc=(p.returncode or p2.returncode), message=msg, target='local1d + grid1d-area')
    try:
        src = open(os.path.join(COQ, 'Gen', GEN_FILE)).read()
        info['generated_sha256'] = hashlib.sha256(src.encode()).hexdigest()
        info['translated'] = re.findall(r'^\(\* (\S+:\d+-\d+)  (\S+) \*\)$', src, re.M)
        src2 = open(os.path.join(COQ, 'Gen', GEN_FILE_AREA)).read()
        info['translated'] += re.findall(r'^\(\* (\S+:\d+-\d+)  (Grid1d\.\S+)', src2, re.M)
        info['generated_sha256_area'] = hashlib.sha256(src2.encode()).hexdigest()
    except OSError:
        pass
    chk.extra['source_derived_model'] = info
    return info


def diagnose(chk, info):
    """after coq_obligations: None when the generated model is in place and proved equivalent, else the reason"""
    problem = gen.gen_diagnosis(chk, info, GEN_CHAIN)
    gen.report(chk, info, problem, 'C08_gen_*')
    return problem


def finish(chk, info, problem):
    gen.finish_gen(chk, info, problem)
