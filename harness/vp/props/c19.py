"""C19: Classification assigns the arg-max density class under the learning scaling.

Real learning runs (small 1/2/3-d data sets, 2..4 classes, arbitrary label values, standard and dimension-wise learners,
a few large cases) followed by histories of __call__/test_data/evaluate/continue_dimension_wise_refinement calls on ONE
object (fresh data sets, re-used data sets, a second classifier in the same process).  The densities are read from the
real classificators at the scaled samples and fed to the extracted Coq model (coq/Model/Classify.v + ClassifyLearn.v
through coq/Entry/C19.v sub 2), which recomputes the learning-time scaling, the ordered learning/testing split, the
positions, the out-of-range filter, the classes (arg-max + label table), the summaries and the bookkeeping.
Independently, the property's own predicates (oracle) are evaluated on the implementation alone; the oracle identifies
the class of a classificator by the samples it was TRAINED on (DensityEstimation.data), not by any label table."""
import random
from fractions import Fraction
from .. import sx
from ..impl import run_impl, CaseTimeout
from ..model import run_model
from . import c18
from . import _c19_gen

ASSUMPTIONS = [
    _c19_gen.ASSUMPTION,
    'the learned densities are inputs of the model: read from get_density_estimation_results() at the scaled samples (C16/C17 cover them)',
    'the shuffle permutation (replayed from the numpy RNG state) and the iteration orders of the Python sets in move_boundaries_to_front / '
    'get_labels() (recomputed by the same Python expressions) are inputs of the model, validated by Coq checkers '
    '(is_perm, same_index_set, label_order_ok); with them the model recomputes the ORDERED learning and testing data',
    'floats as exact rationals; positions compared within 1e-9; calls with a scaled coordinate within 1e-9 of 0.0049/0.9951 are skipped as ambiguous; '
    'splits whose size product n*p is within 1e-9 of a half-integer for a non-dyadic p are skipped as ambiguous',
    'argument objects: the numpy arrays handed to DataSet are re-used across the calls of a history (same objects, views of one parent, several layouts) and must never be modified; '
    'expected values and model inputs come from pristine copies taken when the arrays were created',
    'input scaling state: for every data set handed in the harness knows the ORIGINAL coordinates of each sample; in any pre-scaled state either the call raises or '
    'the result must be the one for the learning-time map of the ORIGINAL coordinates (model not consulted where acceptance depends on bitwise float equality)',
    'estimated density: besides the classifier\'s own evaluation the oracle recomputes every per-class density as the combination interpolant of the learned surpluses '
    '(get_result(), combi.scheme, plain nodal hats) and demands the arg-max of these values; numerical ties within 1e-9 relative are not judged',
    'exact ties of the maximal density are judged "any maximal class" by the oracle (the model takes the first, as numpy.argmax)',
    'one_vs_others only with labels 0..k-1 (the code indexes class counts by label); modified_basis=True is excluded (AssertionError "not yet implemented")',
]

LO, HI, LO_CUT, HI_CUT = 0.005, 0.995, 0.0049, 0.9951

# label sets whose CPython set iteration order is NOT ascending (or depends on the insertion order), plus large values
ODD_LABEL_SETS = [[1, 8], [8, 1], [3, 10], [5, 16], [7, 32], [2, 9, 17], [8, 0], [0, 8], [16, 0, 8], [9, 1, 17], [1000, 1], [3, 100],
                  [2 ** 31, 1], [2 ** 40 + 3, 5, 64], [15, 7, 23, 31], [6, 14, 22, 30], [33, 1, 65, 2], [24, 8, 16], [11, 3]]
# layouts of the numpy arrays a history hands to DataSet: a row slice of a larger C array, Fortran order, float32 samples, every second row of a
# parent, a column block of a wider parent, int32 labels.  (cfg['parent_array']: ALL arrays of a history, the learning data included, are
# row slices of ONE parent array.)
# scaling state the USER gives a data set before handing it to __call__/test_data (all relative to the data set itself unless said otherwise):
#   prescaled            scale_range((0.005, 0.995)): the range the classifier uses internally, but relative to the set's OWN min/max
#   prescaled-other      scale_range to another range ((0, 1) / (-1, 1) / (0.25, 0.75))
#   prescaled-corners    scale_range((0.005, 0.995)) on a set that contains the corners of the learned range (own min/max = learning min/max)
#   byhand-learning-map  shift_value(-learning min), scale_factor(learning factor), shift_value(0.005): the learning-time map applied by hand
#   byhand-factor        scale_factor(2.0) / shift_value(0.5)
#   byhand-then-range    scale_factor(0.5) followed by scale_range((0.005, 0.995))
#   internal             a data set that really is in the internal scaling: get_learning_data() / get_testing_data()
# (plus 'reuse': a data set already scaled by an earlier call).  Either the call raises, or every sample is placed by the learning-time map of its
# ORIGINAL coordinates, out-of-range samples are removed, classes are the arg-max there.
#   prescaled-translated a translated copy of the learned range (same extent, other place) scaled by scale_range((0.005, 0.995)): the learning FACTOR
#                        with another OFFSET - accepted by the code as found (finding C19-prescaled-offset-not-compared; generated only while
#                        that finding is registered, see translated_enabled)
PRESCALED = ['prescaled', 'prescaled-other', 'prescaled-corners', 'byhand-learning-map', 'byhand-factor', 'byhand-then-range', 'internal', 'prescaled-translated']
OFFSET_FINDING = 'C19-prescaled-offset-not-compared'


def translated_enabled():
    import json, os
    if os.environ.get('VERIF_C19_TRANSLATED'):
        return True
    try:
        root = os.path.dirname(os.path.dirname(os.path.dirname(os.path.dirname(os.path.abspath(__file__)))))
        return any(f.get('id') == OFFSET_FINDING for f in json.load(open(os.path.join(root, 'known_findings.json'))))
    except Exception:
        return False
# in-place public DataSet methods the CALLER applies to a data set AFTER having passed it to the classifier
CALLER_MUTATIONS = ['remove_labels', 'remove_labels_all', 'shuffle', 'remove_samples', 'revert_scaling', 'scale_range', 'scale_factor', 'shift_value',
                    'move_boundaries_to_front', 'set_label']
ARRAY_LAYOUTS = ['slice', 'F', 'f32', 'strided', 'colslice', 'i32labels']
PERCENTAGES = [1.0, 0.5, 0.75, 0.8, 0.8, 0.9, 0.7, 0.625, 0.875, 0.25, 1, 0.0, 1.5]


TAMPER_FINDING = 'C19-getters-alias-internal-data'


def tamper_enabled():
    """Histories that call an in-place DataSet method on the object returned by get_testing_data()/get_learning_data() are generated
    only once the finding about the shallow copies is registered (known or fixed) in known_findings.json - before that they would
    turn an unchanged tree red."""
    import json, os
    if os.environ.get('VERIF_C19_TAMPER'):
        return True
    try:
        root = os.path.dirname(os.path.dirname(os.path.dirname(os.path.dirname(os.path.abspath(__file__)))))
        return any(f.get('id') == TAMPER_FINDING for f in json.load(open(os.path.join(root, 'known_findings.json'))))
    except Exception:
        return False


# --------------------------------------------------------------------------------------------- generation
def lattice(rng, c, spread):
    return c + rng.randrange(-spread, spread + 1) / 16.0


def gen_labels(rng, k):
    r = rng.random()
    if r < 0.36:
        labels, axis = list(range(k)), 'contiguous'
    elif r < 0.46:
        labels = sorted(rng.sample(range(0, 8), k))
        if labels == list(range(k)):
            labels = [l + 1 for l in labels]
        axis = 'small-noncontiguous'
    elif r < 0.70:
        cands = [l for l in ODD_LABEL_SETS if len(l) == k] or [l for l in ODD_LABEL_SETS if len(l) >= k]
        labels, axis = list(rng.choice(cands))[:k], 'hash-order-pool'
    elif r < 0.90:
        labels, axis = rng.sample(range(0, 48), k), 'random<48'
    else:
        labels, axis = rng.sample([100, 1000, 65536, 2 ** 31, 2 ** 40 + 3, 12345, 7, 0, 2 ** 62], k), 'large'
    if axis not in ('hash-order-pool',):
        rng.shuffle(labels)              # label of centre j = labels[j]; the order of first occurrence in the data is not ascending
    return labels, axis


def gen_points(rng, kind, m, X, lo, hi, dim):
    P = []
    for _i in range(m):
        if kind == 'inside' or (kind == 'partly' and rng.random() < 0.55):
            a, b = rng.choice(X), rng.choice(X)
            p = [(u + w) / 2 for u, w in zip(a, b)] if rng.random() < 0.5 else list(a)
        elif kind == 'edge':
            a = rng.choice(X)
            p = [rng.choice([lo[j], hi[j], a[j]]) for j in range(dim)]
        else:
            p = [rng.choice([lo[j] - rng.randrange(1, 9) / 4.0, hi[j] + rng.randrange(1, 9) / 4.0] + ([rng.choice(X)[j]] if j == 0 and dim > 1 else []))
                 for j in range(dim)]
        P.append(p)
    return P


def gen_case(rng, tier, idx, big=False, gate=None):
    """gate = 'std2' / 'std3': standard learning with maximum_level 7 in 2 / 3 dimensions (component grids (4,4), (5,3), ... with >= 200 points: the
    point-by-point interpolation branch); gate = 'dw': dimension-wise learning with max_evaluations 1500 (refined component grids >= 200 points)"""
    if gate:
        c = gen_case(rng, tier, idx)
        while len(c['X'][0]) != (3 if gate == 'std3' else 2) or c['data_range'] or len(c['X']) < 24:
            c = gen_case(rng, tier, idx)
        c['cfg'].update(learner='dw' if gate == 'dw' else 'std', masslumping=True, lambd=0.0, levels=(1, 7), one_vs_others=False,
                        max_evaluations=1500 if gate == 'dw' else c['cfg']['max_evaluations'], split_percentage=0.75, print_tests=False)
        c['cfg']['dw'] = dict(c['cfg']['dw'], boundary=False, tolerance=0.0001)
        pts = [list(p) for p in c['X']]
        extra = [o for o in c['ops'] if o[0] in ('call', 'test') and o[3] in ('inside', 'partly', 'edge')][:2]
        c['ops'] = [['call', pts[:12], [-1] * 12, 'inside'],
                    ['test', pts[6:20], [l if l in c['labels'] else c['labels'][0] for l in c['y'][6:20]], 'inside'],
                    ['call', 0, None, 'rewrap']] + ([['continue', 300]] if gate == 'dw' else []) + [['evaluate']] + extra
        c['kind'] = 'gate-' + gate
        return c
    dim = 2 if big else rng.choice([1, 2, 2, 2, 2, 3, 3])
    k = rng.choice([2, 2, 3, 3, 4])
    labels, label_axis = gen_labels(rng, k)
    centres = []
    span = 20 if dim == 1 else 8
    while len(centres) < k:
        c = tuple(rng.randrange(-span, span + 1) / 4.0 for _ in range(dim))
        if all(sum(abs(a - b) for a, b in zip(c, o)) >= (1.5 if dim == 1 else 1.0) for o in centres):
            centres.append(c)
    n = rng.randrange(250, 420) if big else rng.randrange(3 * k + 2, 61)
    X, y = [], []
    for i in range(n):
        j = i % k if i < 2 * k else rng.randrange(k)
        X.append([lattice(rng, centres[j][t], 7) for t in range(dim)])
        y.append(labels[j])
    if rng.random() < 0.35:
        for i in rng.sample(range(2 * k, n), min(n - 2 * k, rng.randrange(1, 5))):
            y[i] = -1
    contiguous = sorted(labels) == list(range(k))
    learner = 'std' if big else rng.choice(['std', 'std', 'std', 'dw', 'dw'])
    cfg = dict(split_percentage=rng.choice(PERCENTAGES), split_evenly=rng.random() < 0.5, shuffle=rng.random() < 0.5,
               learner=learner, masslumping=rng.random() < 0.7, lambd=rng.choice([0.0, 0.0, 0.01]),
               levels=rng.choice([(1, 2), (1, 3), (1, 3), (2, 3), (1, 4)]) if dim < 3 else rng.choice([(1, 2), (1, 3), (2, 3)]),
               one_vs_others=contiguous and rng.random() < 0.2, max_evaluations=rng.choice([20, 40, 60]),
               reuse_old_values=rng.random() < 0.25, pre_scaled_data=rng.random() < 0.2,
               dw=dict(rebalancing=rng.random() < 0.3, boundary=rng.random() < 0.2, numeric_calculation=False,   # True: a single learning run takes minutes (excluded; it only changes the densities, which are model inputs)
                      
                       margin=rng.choice([0.5, 0.5, 0.9]), tolerance=rng.choice([0.01, 0.01, 0.2]), use_relative_surplus=rng.random() < 0.8),
               parent_array=rng.random() < 0.25, decoy_before_learning=rng.random() < 0.08, call_before_learning=rng.random() < 0.1, print_tests=rng.random() < 0.15)
    data_range = None
    r = rng.random()
    cmin = [min(p[t] for p in X) for t in range(dim)]
    cmax = [max(p[t] for p in X) for t in range(dim)]
    if r < 0.12:
        data_range = [[cmin[t] - (0.5, 0.25, 1.0)[t] for t in range(dim)], [cmax[t] + (0.5, 1.0, 0.25)[t] for t in range(dim)]]      # wider than the data
    elif r < 0.18:
        data_range = [[cmin[t] + (0.25, -0.25, 0.0)[t] for t in range(dim)], [cmax[t] + (0.5, -0.25, 0.5)[t] for t in range(dim)]]   # cuts some learning samples off
    elif r < 0.20:
        data_range = [[cmin[0]] + [cmax[t] for t in range(1, dim)], list(cmax)]                                                        # invalid
    lo = data_range[0] if data_range else cmin
    hi = data_range[1] if data_range else cmax
    ops = []
    nops = rng.randrange(2, 4) if big else rng.randrange(1, 7)
    for _ in range(nops):
        r = rng.random()
        if big and not ops:
            r = 0.99                       # the first call of a big case is a __call__/test_data beyond 1024 points
        if r < 0.18:
            ops.append(['evaluate'])
            continue
        if learner == 'dw' and r < 0.30:
            ops.append(['continue', rng.choice([20, 40, 80])])
            continue
        if 0.30 <= r < 0.36 and not big:
            ops.append(['decoy', rng.randrange(1 << 30)])
            continue
        if 0.36 <= r < 0.40:
            ops.append(['relearn', rng.choice(['std', 'dw'])])
            continue
        if 0.40 <= r < 0.45 and tamper_enabled():
            ops.append(['tamper'])
            continue
        kind = 'call' if rng.random() < 0.5 else 'test'
        prev = [j for j, o in enumerate(ops) if o[0] in ('call', 'test') and o[3] not in ('reuse', 'rewrap') and o[1]]
        if prev and rng.random() < 0.12:
            ops.append([kind, rng.choice(prev), None, 'reuse'])        # the SAME DataSet object as in an earlier call
            continue
        if prev and rng.random() < 0.25:
            ops.append([kind, rng.choice(prev), None, 'rewrap'])       # the SAME numpy arrays as in an earlier call, wrapped in a NEW DataSet
            continue
        if prev and rng.random() < 0.07:
            ops.append(['other', rng.choice(prev)])                    # the same numpy arrays handed to a SECOND classifier
            continue
        m = rng.randrange(1030, 1400) if big and not ops else (rng.randrange(60, 300) if big else rng.randrange(1, 9))
        flavour = rng.choices(['inside', 'partly', 'outside', 'unlabelled', 'empty', 'edge'] + PRESCALED,
                              [36, 22, 7, 7, 3, 10] + [6, 4, 4, 4, 4, 4, 3, 5 if translated_enabled() else 0])[0]
        if big and flavour in ('empty', 'outside', 'internal'):
            flavour = 'partly'
        # pre-scaled inputs: points inside AND outside the learned range (a pre-scaled set must not smuggle out-of-range samples in)
        P = gen_points(rng, {'unlabelled': 'inside', 'empty': 'inside', 'prescaled-corners': 'inside', 'internal': 'inside', 'prescaled-translated': 'inside'}.get(flavour, 'partly' if flavour in PRESCALED else flavour),
                       m, X, lo, hi, dim)
        if flavour == 'prescaled-translated':
            tr = [rng.choice([2.0, -1.5, 4.0]) for _ in range(dim)]
            P = [[p[t] + tr[t] for t in range(dim)] for p in gen_points(rng, 'inside', m, X, lo, hi, dim)] + \
                [[lo[t] + tr[t] for t in range(dim)], [hi[t] + tr[t] for t in range(dim)]]
        if flavour == 'prescaled-corners':
            P = P + [list(lo), list(hi)]       # own min/max = the learned range: scale_range((0.005, 0.995)) reproduces the learning-time map
        L = []
        for p in P:
            j = min(range(k), key=lambda jj: sum((p[t] - centres[jj][t]) ** 2 for t in range(dim)))
            l = labels[j]
            if rng.random() < 0.15:
                l = rng.choice(labels)
            if flavour == 'unlabelled' or rng.random() < 0.12:
                l = -1
            L.append(l)
        if flavour == 'empty':
            P, L = [], []
        op = [kind, P, L, flavour]
        if P and kind == 'call' and flavour not in PRESCALED and rng.random() < 0.15:
            op = [kind, P, [-1] * len(P), flavour, 'nolabels']         # DataSet(X): a bare sample array, no label array
        elif P and rng.random() < 0.3:
            op.append(rng.choice(ARRAY_LAYOUTS))                       # how the numpy arrays handed to DataSet are laid out
        ops.append(op)
    # the caller keeps USING the objects it passed: after a call/test_data step (probability 0.4) one in-place public DataSet method is applied to
    # the data set that was passed, then the observers are called (evaluate / get_testing_data / calculated classes): value semantics required
    newops, remap = [], {}
    for j_, o_ in enumerate(ops):
        if o_[0] in ('call', 'test') and len(o_) > 3 and o_[3] in ('reuse', 'rewrap'):
            o_ = [o_[0], remap.get(o_[1], o_[1])] + list(o_[2:])
        elif o_[0] == 'other':
            o_ = ['other', remap.get(o_[1], o_[1])]
        remap[j_] = len(newops)
        newops.append(o_)
        if o_[0] in ('call', 'test') and rng.random() < (0.4 if o_[0] == 'test' else 0.25):
            newops.append(['mutate', remap[j_], rng.choice(CALLER_MUTATIONS)])
    ops = newops
    cfg['mutate_learning_data'] = rng.choice(CALLER_MUTATIONS) if rng.random() < 0.4 else None
    return dict(seed=rng.randrange(1 << 30), X=X, y=y, labels=labels, cfg=cfg, data_range=data_range, ops=ops,
                kind='big' if big else 'random', label_axis=label_axis)


# --------------------------------------------------------------------------------------------- implementation side
def _mk(X, y):
    import numpy as np
    from sparseSpACE.DEMachineLearning import DataSet
    if not X:
        return DataSet((np.array([]), np.array([], dtype=np.int64)))
    return DataSet((np.array(X, dtype=np.float64).reshape(len(X), len(X[0])), np.array(y, dtype=np.int64)))


def _arrays(P, L, layout, dim):
    """numpy arrays for DataSet((X, y)) in the requested memory layout; returns (X, y, parents) - parents are the arrays X / y are views of"""
    import numpy as np
    m = len(P)
    Xc = np.array(P, dtype=np.float64).reshape(m, dim)
    yc = np.array(L, dtype=np.int64)
    if layout == 'slice':
        px = np.full((m + 5, dim), 77.25); px[2:2 + m] = Xc
        py = np.zeros(m + 5, dtype=np.int64); py[2:2 + m] = yc
        return px[2:2 + m], py[2:2 + m], [px, py]
    if layout == 'F':
        return np.asfortranarray(Xc), yc, []
    if layout == 'f32':
        return Xc.astype(np.float32), yc, []
    if layout == 'strided':
        px = np.full((2 * m, dim), -55.5); px[::2] = Xc
        return px[::2], yc, [px]
    if layout == 'colslice':
        px = np.full((m, dim + 2), 33.125); px[:, 1:1 + dim] = Xc
        return px[:, 1:1 + dim], yc, [px]
    if layout == 'i32labels':
        return Xc, (yc.astype(np.int32) if all(-2 ** 31 <= int(v) < 2 ** 31 for v in yc) else yc), []
    return Xc, yc, []


class _Args:
    """every array object a history hands to the library, with a pristine copy (truth) and the last seen content (change detection)"""

    def __init__(self):
        self.items = []          # [name, array, pristine copy, last seen copy]

    def add(self, name, arr):
        self.items.append([name, arr, arr.copy(), arr.copy()])

    def changed(self):
        import numpy as np
        out = []
        for it in self.items:
            name, arr, first, last = it
            if arr.dtype != last.dtype or arr.shape != last.shape or not np.array_equal(arr, last):
                n = int(np.sum(arr != last)) if arr.shape == last.shape else -1
                out.append((name, n, arr.shape == first.shape and bool(np.array_equal(arr, first))))
                it[3] = arr.copy()
        return out


def _hat1d(nodes, x, interior):
    """nodal hat functions of a (possibly non-uniform) 1-D grid at the positions x: matrix (len(x), len(nodes)); interior grids have the
    domain ends 0 and 1 as outer neighbours of their first / last node"""
    import numpy as np
    nodes = np.asarray(nodes, dtype=np.float64)
    ext = np.concatenate(([0.0], nodes, [1.0])) if interior else nodes
    off = 1 if interior else 0
    H = np.zeros((len(x), len(nodes)))
    for i in range(len(nodes)):
        c = ext[i + off]
        if i + off - 1 >= 0:
            l = ext[i + off - 1]
            m = (x >= l) & (x <= c) & (c > l)
            H[m, i] = (x[m] - l) / (c - l)
        if i + off + 1 < len(ext):
            r = ext[i + off + 1]
            m = (x >= c) & (x <= r) & (r > c)
            H[m, i] = np.maximum(H[m, i], (r - x[m]) / (r - c))
        H[x == c, i] = 1.0
    return H


def _ref_density(combi, de, pts):
    """The ESTIMATED density of one class, recomputed independently of the library's interpolation code: the combination interpolant
    sum_grids coefficient * sum_nodes surplus * prod_d hat_d(x_d) of the learned surpluses (DensityEstimation.get_result()) over the
    combination scheme (combi.scheme), with plain nodal hat functions on the grid's own 1-D node coordinates.  None = not available."""
    import numpy as np
    pts = np.asarray(pts, dtype=np.float64)
    total = np.zeros(len(pts))
    res = de.get_result()
    for g in combi.scheme:
        lv = tuple(int(l) for l in g.levelvector)
        al = np.asarray(res[lv], dtype=np.float64).reshape(-1)
        if hasattr(combi, 'get_point_coord_for_each_dim'):
            nodes = [np.asarray(s_, dtype=np.float64) for s_ in combi.get_point_coord_for_each_dim(lv)[0]]
        else:
            nodes = [np.arange(1, 2 ** l) / 2.0 ** l for l in lv]
        if int(np.prod([len(s_) for s_ in nodes])) != len(al):
            nodes = [s_[1:-1] for s_ in nodes]
            if int(np.prod([len(s_) for s_ in nodes])) != len(al):
                return None
        H = [_hat1d(nodes[d], pts[:, d], not (len(nodes[d]) >= 2 and abs(nodes[d][0]) < 1e-15 and abs(nodes[d][-1] - 1.0) < 1e-15)) for d in range(len(lv))]
        val = H[0] @ al.reshape(len(nodes[0]), -1)                      # the first dimension varies slowest
        for d in range(1, len(lv)):
            val = np.sum(val.reshape(len(pts), len(nodes[d]), -1) * H[d][:, :, None], axis=1)
        total += float(g.coefficient) * val.reshape(len(pts))
    return total


def _caller_mutates(d, how):
    """one in-place public DataSet method applied by the caller to its own data set; the numpy RNG state is kept"""
    import numpy as np
    st = np.random.get_state()
    try:
        if how == 'remove_labels':
            d.remove_labels(0.5)
        elif how == 'remove_labels_all':
            d.remove_labels(1.0)
        elif how == 'shuffle':
            d.shuffle()
        elif how == 'remove_samples':
            d.remove_samples([0] if d.get_length() > 0 else [])
        elif how == 'revert_scaling':
            d.revert_scaling()
        elif how == 'scale_range':
            d.scale_range((0.0, 1.0), override_scaling=True)
        elif how == 'scale_factor':
            d.scale_factor(2.0, override_scaling=True)
        elif how == 'shift_value':
            d.shift_value(0.25, override_scaling=False)
        elif how == 'move_boundaries_to_front':
            d.move_boundaries_to_front()
        elif how == 'set_label':
            d.set_label('other')
        return None
    except CaseTimeout:
        raise
    except Exception as e:
        return (type(e).__name__, str(e)[:80])
    finally:
        np.random.set_state(st)


def _dens(classificators, pts):
    """densities at the given points: one row per point, one column per classificator"""
    import numpy as np
    if not pts:
        return []
    cols = [[float(v) for v in np.asarray(c(np.array(pts, dtype=np.float64))).reshape(-1)] for c in classificators]
    return [[col[i] for col in cols] for i in range(len(pts))]


def _close(a, b, tol=1e-9):
    return abs(a - b) <= tol * (1.0 + abs(b))


def _silent():
    from sparseSpACE.Utils import log_levels, print_levels
    return dict(print_output=False, log_level=log_levels.WARNING, print_level=print_levels.NONE)


def _learn(clf, cfg):
    lv = cfg['levels']
    if cfg['learner'] == 'dw':
        clf.perform_classification_dimension_wise(masslumping=cfg['masslumping'], lambd=cfg['lambd'], minimum_level=1, maximum_level=2,
                                                  max_evaluations=cfg['max_evaluations'], one_vs_others=cfg['one_vs_others'],
                                                  reuse_old_values=cfg.get('reuse_old_values', False), pre_scaled_data=cfg.get('pre_scaled_data', False),
                                                  print_metrics=False, **cfg.get('dw', {}))
    else:
        clf.perform_classification(masslumping=cfg['masslumping'], lambd=cfg['lambd'], minimum_level=lv[0], maximum_level=lv[1],
                                   one_vs_others=cfg['one_vs_others'], reuse_old_values=cfg.get('reuse_old_values', False),
                                   pre_scaled_data=cfg.get('pre_scaled_data', False), print_metrics=False)


def _decoy(seed, dim):
    """A second, unrelated classifier built, trained and used in the same process (other labels, other range): must not disturb ours."""
    import numpy as np
    from sparseSpACE.DEMachineLearning import Classification
    rng = random.Random(seed)
    labs = rng.choice([[4, 2], [0, 1, 2], [9, 1], [2, 0], [5, 3, 12]])
    X, y = [], []
    for i in range(6 * len(labs)):
        j = i % len(labs)
        X.append([3.0 * j + rng.randrange(0, 17) / 16.0 + 10.0 for _ in range(dim)])
        y.append(labs[j])
    st = np.random.get_state()
    try:
        c = Classification(_mk(X, y), split_percentage=rng.choice([1.0, 0.75]), split_evenly=True, shuffle_data=False, **_silent())
        c.perform_classification(masslumping=True, minimum_level=1, maximum_level=2, print_metrics=False)
        c(_mk(X[:4], y[:4]), print_removed=False)
        c.test_data(_mk(X[4:8], y[4:8]), print_output=False, print_removed=False)
    except Exception:
        pass
    np.random.set_state(st)


def _owner_labels(des, learn_snap, one_vs_others):
    """label of every classificator, identified by the samples it was trained on (independent of any label table / set order)"""
    import numpy as np
    rows_of = {}
    for r, l in zip(learn_snap[0], learn_snap[1]):
        rows_of.setdefault(l, []).append(tuple(r))
    owner = []
    for de in des:
        try:
            data = np.asarray(de.data if not isinstance(de.data, tuple) else de.data[0], dtype=np.float64)
            if one_vs_others:
                cl = np.asarray(de.classes, dtype=np.float64).reshape(-1)
                data = data[cl > 0]
            key = sorted(tuple(float(v) for v in r) for r in data.reshape(len(data), -1))
        except Exception:
            owner.append(None)
            continue
        cands = [l for l, rs in rows_of.items() if len(rs) == len(key) and all(all(_close(a, b, 1e-12) for a, b in zip(u, w)) for u, w in zip(sorted(rs), key))]
        owner.append(cands[0] if len(cands) == 1 else None)
    if any(o is None for o in owner) or len(set(owner)) != len(owner):
        return None
    return owner


def impl_run(case):
    import numpy as np
    import sklearn.utils
    from sparseSpACE.DEMachineLearning import Classification
    np.random.seed(case['seed'] % (2 ** 32))
    cfg = case['cfg']
    dim = len(case['X'][0])
    from sparseSpACE.DEMachineLearning import DataSet
    out = dict(viol=[], ops=[], dim=dim)
    args = _Args()
    nl = len(case['X'])
    parent = None
    if cfg.get('parent_array'):
        # ONE parent array for the whole history: the learning samples first, then the points of every later call (row slices = views)
        blocks = [(None, case['X'], case['y'])] + [(j, o[1], o[2]) for j, o in enumerate(case['ops'])
                                                   if o[0] in ('call', 'test') and o[3] not in ['reuse', 'rewrap'] + PRESCALED and o[1] and len(o) == 4]
        PX = np.array([p for _, P_, _ in blocks for p in P_], dtype=np.float64).reshape(-1, dim)
        PY = np.array([l for _, _, L_ in blocks for l in L_], dtype=np.int64)
        args.add('parent sample array', PX); args.add('parent label array', PY)
        parent, a = {}, 0
        for j, P_, _ in blocks:
            parent[j] = (PX[a:a + len(P_)], PY[a:a + len(P_)])
            a += len(P_)
        Xl, yl = parent[None]
    else:
        Xl, yl = np.array(case['X'], dtype=np.float64).reshape(nl, dim), np.array(case['y'], dtype=np.int64)
    args.add('learning sample array', Xl); args.add('learning label array', yl)
    data = DataSet((Xl, yl))
    rg = case.get('data_range')
    rga = (np.array(rg[0]), np.array(rg[1])) if rg else None
    if rga:
        args.add('data_range[0]', rga[0]); args.add('data_range[1]', rga[1])

    def check_args(where, call):
        for name, ncells, restored in args.changed():
            where.append(dict(kind='argument-mutated', sig=dict(argument=name.split(' of ')[0], call=call),
                              why='%s modified the %s it was handed (%d cells changed): a caller who wraps the same array again gets '
                                  'other samples than they passed' % (call, name, ncells)))

    st0 = np.random.get_state()
    try:
        clf = Classification(data, data_range=rga,
                             split_percentage=cfg['split_percentage'], split_evenly=cfg['split_evenly'], shuffle_data=cfg['shuffle'], **_silent())
    except ValueError as e:
        out['init'] = dict(exc=(type(e).__name__, str(e)[:100]))
        check_args(out['viol'], 'Classification.__init__')
        return out
    check_args(out['viol'], 'Classification.__init__')
    mn0 = [float(v) for v in clf.get_dataset_range()[0]]
    mx0 = [float(v) for v in clf.get_dataset_range()[1]]
    fac0 = [float(v) for v in clf.get_scale_factor()]
    learn, test, omitted = clf.get_learning_data(), clf.get_testing_data(), clf.get_omitted_data()
    out['init'] = dict(exc=None, min=mn0, max=mx0, fac=fac0, learn=c18.snap(learn), test=c18.snap(test), omitted=c18.snap(omitted))
    # oracle: scaling fixed at learning time is the min-max scaling of the labelled samples onto (0.005, 0.995) (or the user range)
    lab = [(x, l) for x, l in zip(case['X'], case['y']) if l >= 0]
    if not rg:
        for j in range(dim):
            col = [x[j] for x, _ in lab]
            want_f = 0.99 / (max(col) - min(col)) if max(col) > min(col) else 0.99
            if not _close(mn0[j], min(col)) or not _close(fac0[j], want_f):
                out['viol'].append(dict(kind='learning-scaling-wrong', sig={}, why='dimension %d: data_range min %r / factor %r, expected %r / %r' % (j, mn0[j], fac0[j], min(col), want_f)))
    spos = [(tuple((x[j] - mn0[j]) * fac0[j] + LO for j in range(dim)), l) for x, l in lab]
    retained = [i for i, p in enumerate(spos) if all(LO_CUT <= v <= HI_CUT for v in p[0])] if rg else list(range(len(spos)))
    exp_pos = sorted(spos[i] for i in retained)
    got_pos = sorted([(tuple(r), l) for r, l in zip(out['init']['learn'][0], out['init']['learn'][1])] +
                     [(tuple(r), l) for r, l in zip(out['init']['test'][0], out['init']['test'][1])])
    if len(exp_pos) != len(got_pos) or any(a[1] != b[1] or not all(_close(u, w) for u, w in zip(a[0], b[0])) for a, b in zip(exp_pos, got_pos)):
        out['viol'].append(dict(kind='learning-data-not-scaled-labelled-samples', sig={}, why='learning + testing data are not the labelled samples in the learning scaling'))
    # inputs of the model's split: shuffle permutation (RNG replay), iteration orders of the Python sets (same expressions as the code)
    nret = len(retained)
    split_in = dict(perm=None, idx=[], lo_split=[])
    try:
        if cfg['shuffle']:
            st1 = np.random.get_state()
            np.random.set_state(st0)
            split_in['perm'] = [int(v) for v in sklearn.utils.shuffle(np.arange(nret))]
            np.random.set_state(st1)
        Xr = np.array([lab[i][0] for i in retained], dtype=np.float64).reshape(nret, dim)
        yr = np.array([lab[i][1] for i in retained], dtype=np.int64)
        if split_in['perm'] is not None:
            Xr, yr = Xr[split_in['perm']], yr[split_in['perm']]
        order = list(set(np.where(Xr == Xr.min(axis=0))[0]) | set(np.where(Xr == Xr.max(axis=0))[0]))
        for i, x in enumerate(order):
            yr[[i, x]] = yr[[x, i]]
        split_in['idx'] = [int(v) for v in order]
        split_in['lo_split'] = [int(v) for v in list(set(yr))]
    except Exception as e:
        split_in['error'] = '%s: %s' % (type(e).__name__, str(e)[:100])
    out['split_in'] = split_in
    out['lo_learn'] = [int(v) for v in learn.get_labels()] if not learn.is_empty() else []
    out['label_order'] = 'ascending' if out['lo_learn'] == sorted(out['lo_learn']) else 'not-ascending'
    if cfg.get('decoy_before_learning'):
        _decoy(case['seed'], dim)
    if cfg.get('call_before_learning'):
        # every evaluation method raises before learning and leaves the passed data set alone
        for what in ('call', 'test', 'evaluate'):
            dpre = _mk(case['X'][:3], [max(l, 0) for l in case['y'][:3]])
            before = c18.snap(dpre)
            try:
                if what == 'call':
                    clf(dpre, print_removed=False)
                elif what == 'test':
                    clf.test_data(dpre, print_output=False, print_removed=False)
                else:
                    clf.evaluate()
                out['viol'].append(dict(kind='evaluation-before-learning-accepted', sig=dict(call=what), why='%s before perform_classification did not raise' % what))
            except CaseTimeout:
                raise
            except Exception:
                pass
            if c18.snap(dpre) != before:
                out['viol'].append(dict(kind='evaluation-before-learning-modifies-input', sig=dict(call=what), why='%s before perform_classification changed the passed data set' % what))
    # learning
    try:
        _learn(clf, cfg)
    except CaseTimeout:
        raise
    except Exception as e:
        out['learn_exc'] = (type(e).__name__, str(e)[:200])
        return out
    out['learn_exc'] = None
    check_args(out['viol'], 'perform_classification')
    if cfg.get('mutate_learning_data'):
        # the caller goes on using the data set it built the classifier from: nothing held by the classifier may change
        l0, t0 = c18.snap(clf.get_learning_data()), c18.snap(clf.get_testing_data())
        out['mutate_learning_exc'] = _caller_mutates(data, cfg['mutate_learning_data'])
        l1, t1 = c18.snap(clf.get_learning_data()), c18.snap(clf.get_testing_data())
        if l0 != l1 or t0 != t1 or [float(v) for v in clf.get_dataset_range()[0]] != mn0 or [float(v) for v in clf.get_scale_factor()] != fac0:
            out['viol'].append(dict(kind='caller-mutation-reaches-classifier', sig=dict(method=cfg['mutate_learning_data'], object='learning data set'),
                                    why='%s() on the data set the classifier was built from changed the learning/testing data or the scaling held by the classifier' % cfg['mutate_learning_data']))
        check_args(out['viol'], 'DataSet.%s (caller)' % cfg['mutate_learning_data'])
    cls, des = clf.get_density_estimation_results()
    cls = list(cls)
    out['nclass'] = len(cls)
    if len(cls) < 2:
        # fewer than two classes left in the learning data (user data range / tiny split cut them off): outside the property's quantifier
        out['degenerate'] = True
        out['calc0'] = [int(c) for c in clf.get_calculated_classes_testset()] if len(cls) == 1 else []
        out['dens_test'] = []
        return out
    # label of the j-th classificator: (a) by the samples it was trained on (oracle), (b) j-th piece of learning_data.split_labels()
    if cfg['one_vs_others']:
        try:
            out['ovo_classes'] = [[float(v) for v in np.asarray(de.classes, dtype=np.float64).reshape(-1)] for de in des]
        except Exception:
            out['ovo_classes'] = None
    owner = _owner_labels(list(des), out['init']['learn'], cfg['one_vs_others'])
    pieces = clf.get_learning_data().split_labels()
    lab_split = [int(p.get_data()[1][0]) for p in pieces]
    out['owner'] = owner
    lab_of = owner if owner is not None else lab_split
    out['label_of_classificator'] = lab_of
    contiguous = int(lab_of == list(range(len(lab_of))))
    calc = [int(c) for c in clf.get_calculated_classes_testset()]
    out['calc0'] = calc
    out['dens_test'] = _dens(cls, out['init']['test'][0])

    def judge_classes(ent, pts, classes, what):
        cls = list(clf.get_density_estimation_results()[0])
        d = _dens(cls, pts)
        if len(classes) != len(pts):
            ent['viol'].append(dict(kind='class-count-wrong', sig=dict(where=what), why='%s: %d classes for %d samples' % (what, len(classes), len(pts))))
            return d
        for i, (row, c) in enumerate(zip(d, classes)):
            best = max(row)
            ok_labels = [lab_of[j] for j in range(len(row)) if row[j] == best]
            if c not in ok_labels:
                amax = [j for j in range(len(row)) if row[j] == best]
                kind = 'class-is-index-not-label' if (c in amax and not contiguous) else 'class-not-argmax'
                ent['viol'].append(dict(kind=kind, sig=dict(contiguous_labels=contiguous, where=what),
                                        why='%s: sample %d at %r got class %r; densities %r, classificators trained on the classes %r' % (what, i, pts[i], c, row, lab_of)))
                break
        # the class must be the arg-max of the ESTIMATED densities = the combination interpolants of the learned surpluses, recomputed here
        # without the library's interpolation code (numerical ties within 1e-9 relative are not judged)
        try:
            cl_, des_ = clf.get_density_estimation_results()
            ref = [_ref_density(c_, d_, pts) for c_, d_ in zip(cl_, des_)] if pts else []
        except CaseTimeout:
            raise
        except Exception:
            ref = [None]
        if pts and all(r_ is not None for r_ in ref):
            out['indep'] = out.get('indep', 0) + len(pts)
            out['maxgrid'] = max([out.get('maxgrid', 0)] + [len(v_) for d_ in des_ for v_ in d_.get_result().values()])
            R = np.array(ref).T                                         # one row per sample, one column per classificator
            if np.any(np.abs(R - np.array(d)) > 1e-7 * (1.0 + np.abs(R))):
                out['dens_mismatch'] = out.get('dens_mismatch', 0) + 1
            for i, c in enumerate(classes):
                order = np.sort(R[i])
                if len(order) >= 2 and order[-1] - order[-2] <= 1e-9 * (1.0 + abs(order[-1])):
                    out['indep_ties'] = out.get('indep_ties', 0) + 1
                    continue
                want = lab_of[int(np.argmax(R[i]))]
                if c != want:
                    ent['viol'].append(dict(kind='class-not-argmax-of-estimated-density', sig=dict(where=what),
                                            why='%s: sample %d at %r got class %r; the combination interpolants of the learned surpluses give the densities %r there '
                                                '(arg-max class %r), the classifier itself evaluated %r; classificators trained on the classes %r' % (
                                                    what, i, pts[i], c, [float(v) for v in R[i]], want, d[i], lab_of)))
                    break
        elif pts:
            out['indep_unavailable'] = out.get('indep_unavailable', 0) + 1
        return d

    ent0 = dict(viol=[])
    if out['init']['test'][0]:
        judge_classes(ent0, out['init']['test'][0], calc, 'testing data at learning time')
    out['viol'] += ent0['viol']
    prev_calc = list(calc)
    prev_test = [list(out['init']['test'][0]), list(out['init']['test'][1])]
    objs = {}
    held = {}            # op index -> (X array, y array, pristine samples, pristine labels)
    state_of = {}        # op index of a DataSet object -> scaling state the user gave it
    origin = {}          # op index of a DataSet object -> ORIGINAL coordinates of the rows it holds now (None: unknown)
    clf2 = [None]
    for jop, op in enumerate(case['ops']):
        if out['ops']:
            check_args(out['ops'][-1]['viol'], out['ops'][-1]['op'])
        ent = dict(op=op[0], viol=[], exc=None)
        out['ops'].append(ent)
        if op[0] == 'other':
            # the arrays of an earlier call handed to a SECOND classifier (same learning data, own object): same positions expected, ours untouched
            h = held.get(op[1])
            if h is None:
                ent['skipped'] = 1
                ent['calc'] = list(prev_calc)
                continue
            try:
                if clf2[0] is None:
                    st_ = np.random.get_state()
                    c2 = Classification(_mk(case['X'], case['y']), split_percentage=1.0, shuffle_data=False, **_silent())
                    c2.perform_classification(masslumping=True, minimum_level=1, maximum_level=2, print_metrics=False)
                    np.random.set_state(st_)
                    clf2[0] = c2
                c2 = clf2[0]
                mn2 = [float(v) for v in c2.get_dataset_range()[0]]; fc2 = [float(v) for v in c2.get_scale_factor()]
                pos2 = [[(x[j] - mn2[j]) * fc2[j] + LO for j in range(dim)] for x in h[2]]
                keep2 = [p for p in pos2 if all(LO_CUT <= v <= HI_CUT for v in p)]
                amb2 = any(abs(v - LO_CUT) < 1e-9 or abs(v - HI_CUT) < 1e-9 for p in pos2 for v in p)
                try:
                    r2 = c18.snap(c2(DataSet((h[0], h[1])), print_removed=False))[0]
                except CaseTimeout:
                    raise
                except Exception as e:
                    ent['exc'] = (type(e).__name__, str(e)[:100])
                    r2 = []
                if not amb2 and (len(r2) != len(keep2) or any(not _close(a, b) for u, w in zip(r2, keep2) for a, b in zip(u, w))):
                    ent['viol'].append(dict(kind='scaling-or-filter-wrong', sig=dict(call='second classifier'),
                                            why='a second classifier evaluated the arrays of call %d at %r, expected %r' % (op[1], r2[:4], keep2[:4])))
            except CaseTimeout:
                raise
            except Exception as e:
                ent['exc'] = (type(e).__name__, str(e)[:100])
            ent['calc'] = [int(c) for c in clf.get_calculated_classes_testset()]
            if ent['calc'] != prev_calc:
                ent['viol'].append(dict(kind='earlier-classes-changed', sig=dict(call='other-classifier'), why='another Classification object changed our calculated classes'))
            continue
        if op[0] == 'decoy':
            _decoy(op[1], dim)
            ent['calc'] = [int(c) for c in clf.get_calculated_classes_testset()]
            if ent['calc'] != prev_calc:
                ent['viol'].append(dict(kind='earlier-classes-changed', sig=dict(call='other-classifier'), why='another Classification object changed our calculated classes'))
            continue
        if op[0] == 'mutate':
            dm = objs.get(op[1])
            if dm is None:
                ent['skipped'] = 1
                ent['calc'] = list(prev_calc)
                continue
            ent['mutation_exc'] = _caller_mutates(dm, op[2])
            origin[op[1]] = None
            state_of[op[1]] = 'mutated-by-caller'
            ent['calc'] = [int(c) for c in clf.get_calculated_classes_testset()]
            tsn = c18.snap(clf.get_testing_data())
            why = []
            if ent['calc'] != prev_calc:
                why.append('the calculated classes changed')
            if tsn[0] != prev_test[0] or tsn[1] != prev_test[1]:
                why.append('the testing data held by the classifier changed (labels %r -> %r)' % (prev_test[1][:12], tsn[1][:12]))
            if prev_test[0] and len(prev_calc) == len(prev_test[0]):
                # the summary must be the one of the classes returned earlier and the labels the data had WHEN THEY WERE PASSED
                wrong = sum(1 for a, b in zip(prev_test[1], prev_calc) if a != b)
                try:
                    ev = clf.evaluate()
                    got = [int(ev['Wrong mappings']), int(ev['Total mappings'])]
                    if got != [wrong, len(prev_calc)]:
                        why.append('evaluate() = wrong %d / total %d, the classes returned earlier and the labels passed give wrong %d / total %d' % (got[0], got[1], wrong, len(prev_calc)))
                except CaseTimeout:
                    raise
                except Exception as e:
                    why.append('evaluate() raises %s: %s' % (type(e).__name__, str(e)[:80]))
            if why:
                ent['viol'].append(dict(kind='caller-mutation-reaches-classifier', sig=dict(method=op[2], object='data set passed to an earlier call'),
                                        why='after the caller applied %s() to the data set it had passed in step %d: %s' % (op[2], op[1], '; '.join(why))))
                ent['stop'] = 1
                break
            continue
        if op[0] == 'relearn':
            # "This method is only called once": a second learning run must raise and leave everything as it is
            try:
                _learn(clf, dict(cfg, learner=op[1]))
                ent['accepted'] = 1
            except CaseTimeout:
                raise
            except Exception as e:
                ent['exc'] = (type(e).__name__, str(e)[:100])
            ent['calc'] = [int(c) for c in clf.get_calculated_classes_testset()]
            tsn = c18.snap(clf.get_testing_data())
            if ent.get('accepted'):
                ent['viol'].append(dict(kind='second-learning-accepted', sig=dict(learner=op[1]), why='perform_classification on an already trained object did not raise'))
            if ent['calc'] != prev_calc or tsn[0] != prev_test[0] or tsn[1] != prev_test[1]:
                ent['viol'].append(dict(kind='earlier-classes-changed', sig=dict(call='second perform_classification'), why='a second learning call changed the calculated classes / testing data'))
            continue
        if op[0] == 'tamper':
            # the user inspects the data sets through the public getters and calls an in-place DataSet method on the returned objects
            try:
                t = clf.get_testing_data()
                if not t.is_empty():
                    t.move_boundaries_to_front()
                l = clf.get_learning_data()
                l.move_boundaries_to_front()
                cc = clf.get_calculated_classes_testset()
                cc[:] = -7
            except CaseTimeout:
                raise
            except Exception as e:
                ent['exc'] = (type(e).__name__, str(e)[:100])
            ent['calc'] = [int(c) for c in clf.get_calculated_classes_testset()]
            tsn = c18.snap(clf.get_testing_data())
            lsn = c18.snap(clf.get_learning_data())
            changed = [nm for nm, a, b in (('get_testing_data', tsn, prev_test), ('get_learning_data', lsn, out['init']['learn'])) if a[0] != b[0] or a[1] != b[1]]
            if ent['calc'] != prev_calc:
                changed.append('get_calculated_classes_testset')
            if changed:
                ent['viol'].append(dict(kind='getter-aliases-internal-data', sig=dict(getter=changed[0]),
                                        why='move_boundaries_to_front() on the object returned by %s changed the data held by the Classification object '
                                            '(the calculated classes no longer belong to the testing samples at the same index)' % ', '.join(changed)))
                ent['stop'] = 1
                break
            continue
        if op[0] == 'evaluate':
            try:
                ev = clf.evaluate()
                ent['res'] = [int(ev['Wrong mappings']), int(ev['Total mappings']), float(ev['Percentage correct'])]
                tl = [int(l) for l in clf.get_testing_data().get_data()[1]]
                wrong = sum(1 for a, b in zip(tl, prev_calc[:len(tl)]) if a != b)
                if ent['res'][0] != wrong or ent['res'][1] != len(tl) or not _close(ent['res'][2], 1.0 - wrong / max(len(tl), 1)):
                    ent['viol'].append(dict(kind='summary-inconsistent', sig=dict(call='evaluate'), why='evaluate() = %r, classes/labels give wrong=%d total=%d' % (ent['res'], wrong, len(tl))))
            except Exception as e:
                ent['exc'] = (type(e).__name__, str(e)[:100])
                ntest = int(clf.get_testing_data().get_length())
                if ntest > 0:
                    ent['viol'].append(dict(kind='evaluate-raises-with-testing-data', sig=dict(after_test_data=int(len(prev_calc) != len(out['calc0']))),
                                            why='evaluate() raised %s although the object holds %d testing samples and %d calculated classes' % (ent['exc'], ntest, len(prev_calc))))
            if cfg.get('print_tests') and ent['exc'] is None:
                try:
                    clf.print_evaluation(print_incorrect_points=True)
                except CaseTimeout:
                    raise
                except Exception as e:
                    ent['viol'].append(dict(kind='print-evaluation-raises', sig=dict(exc=type(e).__name__), why='print_evaluation() raised %s: %s although evaluate() works' % (type(e).__name__, str(e)[:100])))
            ent['calc'] = [int(c) for c in clf.get_calculated_classes_testset()]
            if ent['calc'] != prev_calc:
                ent['viol'].append(dict(kind='earlier-classes-changed', sig=dict(call='evaluate'), why='evaluate() changed the calculated classes'))
            continue
        if op[0] == 'continue':
            try:
                clf.continue_dimension_wise_refinement(tolerance=cfg.get('dw', {}).get('tolerance', 0.01), max_evaluations=cfg['max_evaluations'] + op[1])
            except CaseTimeout:
                raise
            except Exception as e:
                ent['exc'] = (type(e).__name__, str(e)[:100])
            ent['calc'] = [int(c) for c in clf.get_calculated_classes_testset()]
            tsn = c18.snap(clf.get_testing_data())
            ent['ntest'] = len(tsn[0])
            if ent['exc'] is None:
                # the classes of ALL testing data are recomputed from the refined densities
                ent['dens'] = judge_classes(ent, tsn[0], ent['calc'], 'continue_dimension_wise_refinement') if tsn[0] else []
                if tsn[0] != prev_test[0] or tsn[1] != prev_test[1]:
                    ent['viol'].append(dict(kind='testing-data-changed', sig=dict(call='continue'), why='continue_dimension_wise_refinement changed the testing data'))
            rg_now = clf.get_dataset_range(); fc_now = clf.get_scale_factor()
            if [float(v) for v in rg_now[0]] != mn0 or [float(v) for v in rg_now[1]] != mx0 or [float(v) for v in fc_now] != fac0:
                ent['viol'].append(dict(kind='learning-scaling-changed', sig=dict(call=op[0]), why='data range / scale factor changed by a later call'))
            prev_calc = ent['calc']
            continue
        flavour = op[3]
        if flavour == 'reuse':
            d = objs.get(op[1])
            if d is None:
                ent['skipped'] = 1
                ent['calc'] = list(prev_calc)
                continue
        elif flavour == 'rewrap':
            h = held.get(op[1])
            if h is None:
                ent['skipped'] = 1
                ent['calc'] = list(prev_calc)
                continue
            d = DataSet((h[0], h[1]))                 # the same numpy array objects, a new DataSet
            held[jop] = h
            ent['array'] = 'rewrap'
        elif not op[1]:
            d = _mk(op[1], op[2])
            ent['array'] = 'empty'
        else:
            if parent is not None and jop in parent:
                Xa, ya, pars = parent[jop][0], parent[jop][1], []
                ent['array'] = 'parent-slice'
            else:
                Xa, ya, pars = _arrays(op[1], op[2], op[4] if len(op) > 4 else None, dim)
                ent['array'] = op[4] if len(op) > 4 else 'fresh'
                args.add('sample array of call %d' % jop, Xa); args.add('label array of call %d' % jop, ya)
                for pa in pars:
                    args.add('parent array of call %d' % jop, pa)
            held[jop] = (Xa, ya, [[float(v) for v in r_] for r_ in Xa.copy()], [int(v) for v in ya.copy()])
            d = DataSet(Xa) if ent['array'] == 'nolabels' else DataSet((Xa, ya))
            try:
                if flavour in ('prescaled', 'prescaled-corners', 'prescaled-translated'):
                    d.scale_range((LO, HI))
                elif flavour == 'prescaled-other':
                    d.scale_range([(0.0, 1.0), (-1.0, 1.0), (0.25, 0.75)][jop % 3])
                elif flavour == 'byhand-learning-map':
                    d.shift_value(-np.array(mn0)); d.scale_factor(np.array(fac0)); d.shift_value(LO)
                elif flavour == 'byhand-factor':
                    d.scale_factor(2.0) if jop % 2 else d.shift_value(0.5)
                elif flavour == 'byhand-then-range':
                    d.scale_factor(0.5); d.scale_range((LO, HI))
            except CaseTimeout:
                raise
            except Exception as e:
                ent['prescale_exc'] = (type(e).__name__, str(e)[:100])
        internal = False
        if flavour == 'internal':
            # a data set that really is in the internal scaling (the ORIGINAL coordinates are those the learning-time map sends to its samples)
            d = clf.get_learning_data() if (jop % 2 or clf.get_testing_data().is_empty()) else clf.get_testing_data()
            held.pop(jop, None)
            internal = True
            ent['array'] = 'internal'
        objs[jop] = d
        raw = c18.snap(d)
        if flavour not in ['reuse'] + PRESCALED and jop in held:
            # what the caller passed: the PRISTINE content of the arrays (truth for the oracle and the model), whatever the arrays hold by now
            raw = [held[jop][2], held[jop][3]] + raw[2:]
        ent['raw'] = raw
        P, L = raw[0], raw[1]
        scaled_in = bool(raw[c18.SC])
        if scaled_in:
            # accumulated offsets of the learning data and of the input (floats of the implementation; compared bitwise, as np.array_equal does)
            try:
                o1, o2 = clf.get_learning_data().get_scaling_offset(), d.get_scaling_offset()
                ent['offsets_equal'] = int(o1 is not None and o2 is not None and
                                           bool(np.array_equal(np.broadcast_to(np.asarray(o1, dtype=np.float64), (dim,)), np.broadcast_to(np.asarray(o2, dtype=np.float64), (dim,)))))
            except Exception:
                ent['offsets_equal'] = 0
        # a re-used data set that the user had pre-scaled keeps that tag (the same scaling state handed in again)
        ent['input_scaling'] = flavour if flavour in PRESCALED else 'unscaled'
        if flavour == 'reuse':
            ent['input_scaling'] = state_of.get(op[1], 'unscaled') if state_of.get(op[1], 'unscaled') != 'unscaled' else 'reuse'
        state_of[jop if flavour != 'reuse' else op[1]] = ent['input_scaling'] if ent['input_scaling'] != 'reuse' else 'unscaled'
        # ORIGINAL (unscaled) coordinates of the rows the data set holds right now; None = not known to the harness
        if internal:
            orig = None
        elif flavour == 'reuse':
            orig = origin.get(op[1])
        else:
            orig = held[jop][2] if jop in held else []
        if orig is not None and len(orig) != len(P):
            orig = None
        # expected positions / filter in the scaling fixed at learning time, from the ORIGINAL coordinates (oracle's own computation)
        if internal:
            pos = [list(x) for x in P]
        elif orig is not None:
            pos = [[(x[j] - mn0[j]) * fac0[j] + LO for j in range(dim)] for x in orig]
        else:
            pos = None
        ent['ambiguous'] = int(pos is not None and any(abs(v - LO_CUT) < 1e-9 or abs(v - HI_CUT) < 1e-9 for p in pos for v in p))
        if scaled_in and raw[c18.SC + 2] and raw[c18.SC + 2][0] == 1 and len(raw[c18.SC + 2][1]) == len(fac0) and \
                all(_close(a, b) for a, b in zip(raw[c18.SC + 2][1], fac0)):
            ent['ambiguous_model'] = 1      # pre-scaled input whose factor equals the learning factor up to rounding: float equality, not decidable exactly by the model
        keep = [i for i, p in enumerate(pos) if all(LO_CUT <= v <= HI_CUT for v in p)] if pos is not None else None
        res = None
        try:
            pr = bool(cfg.get('print_tests'))
            if op[0] == 'call':
                res = clf(d, print_removed=pr)
            else:
                res = clf.test_data(d, print_output=pr, print_removed=pr, print_incorrect_points=pr)
        except CaseTimeout:
            raise
        except Exception as e:
            ent['exc'] = (type(e).__name__, str(e)[:100])
        after = c18.snap(d)
        ent['after'] = after
        ent['calc'] = [int(c) for c in clf.get_calculated_classes_testset()]
        tsn = c18.snap(clf.get_testing_data())
        ent['ntest'] = len(tsn[0])
        rg_now = clf.get_dataset_range(); fc_now = clf.get_scale_factor()
        if [float(v) for v in rg_now[0]] != mn0 or [float(v) for v in rg_now[1]] != mx0 or [float(v) for v in fc_now] != fac0:
            ent['viol'].append(dict(kind='learning-scaling-changed', sig=dict(call=op[0]), why='data range / scale factor changed by a later call'))
        if ent['calc'][:len(prev_calc)] != prev_calc:
            ent['viol'].append(dict(kind='earlier-classes-changed', sig=dict(call=op[0]), why='calculated classes were %r, now %r' % (prev_calc[:40], ent['calc'][:40])))
        if ent['ambiguous']:
            origin[jop if flavour != 'reuse' else op[1]] = None
            prev_calc = ent['calc']
            prev_test = [tsn[0], tsn[1]]
            continue
        prescaled_mismatch = scaled_in      # an already scaled input may always be refused (also the classifier's own data: after a first test_data on an
        #                                     empty testing set the stored testing data carry the scaling attributes of the user's set)
        origin[jop if flavour != 'reuse' else op[1]] = None
        if flavour == 'reuse':
            origin[jop] = None
        if keep is None:
            # a re-used data set whose original coordinates were lost (an earlier call failed half-way): nothing to judge against
            ent['no_origin'] = 1
            keep = list(range(len(P)))
            pos = [list(x) for x in P]
        if ent['exc'] is None:
            # retained samples: exactly those whose ORIGINAL position lies in the learned range, at the learning-time map of their ORIGINAL
            # coordinates, labels attached - whatever scaling state the data set was handed in
            kept_pos = after[0]
            if ent.get('no_origin'):
                pass
            elif len(kept_pos) != len(keep) or any(not _close(a, b) for i, r in zip(keep, kept_pos) for a, b in zip(r, pos[i])):
                wrong_kind = 'prescaled-input-misplaced' if scaled_in else 'scaling-or-filter-wrong'
                nout = len(P) - len(keep)
                ent['viol'].append(dict(kind=wrong_kind, sig=dict(call=op[0], **(dict(input_scaling=ent['input_scaling']) if scaled_in else {})),
                                        why='%s accepted a data set in the scaling state %r: retained %d samples at %r; the learning-time map of the ORIGINAL coordinates puts '
                                            '%d of the %d samples in range (indices %r) at %r%s' % (
                                                op[0], ent['input_scaling'], len(kept_pos), kept_pos[:4], len(keep), len(P), keep[:12], [pos[i] for i in keep][:4],
                                                '; %d out-of-range samples were neither removed nor reported' % (len(kept_pos) - len(keep)) if len(kept_pos) > len(keep) and nout else '')
                                        if scaled_in else
                                        'retained samples %r, expected the in-range samples %r of the input at %r' % (kept_pos[:6], keep[:12], [pos[i] for i in keep][:6])))
            elif after[1] != [L[i] for i in keep]:
                ent['viol'].append(dict(kind='labels-detached', sig=dict(call=op[0]), why='labels of the retained samples %r, expected %r' % (after[1][:20], [L[i] for i in keep][:20])))
            if op[0] == 'call':
                rs = c18.snap(res)
                ent['res_classes'] = [int(c) for c in rs[1]]
                ent['dens'] = judge_classes(ent, rs[0], ent['res_classes'], '__call__')
                if rs[0] != kept_pos:
                    ent['viol'].append(dict(kind='returned-samples-differ', sig={}, why='__call__ returns samples %r, retained %r' % (rs[0][:6], kept_pos[:6])))
                if ent['calc'] != prev_calc:
                    ent['viol'].append(dict(kind='call-changes-bookkeeping', sig={}, why='__call__ changed the calculated classes of the testing data'))
                if tsn[0] != prev_test[0] or tsn[1] != prev_test[1]:
                    ent['viol'].append(dict(kind='testing-data-changed', sig=dict(call='__call__'), why='__call__ changed the testing data'))
                if jop % 2 == 0 and flavour not in ('reuse',) and not any(len(o) > 3 and o[3] == 'reuse' and o[1] == jop for o in case['ops']):
                    # the returned data set belongs to the caller: overwrite its arrays - nothing held by the classifier may change (checked by the
                    # following calls: testing data, calculated classes, argument arrays)
                    try:
                        res.get_data()[0][...] = -1.0
                        res.get_data()[1][...] = -3
                        ent['result_overwritten'] = 1
                    except Exception:
                        pass
            else:
                used = [(r, l) for r, l in zip(after[0], after[1]) if l >= 0]
                newc = ent['calc'][len(prev_calc):]
                ent['res_classes'] = newc
                ent['res'] = [int(res['Wrong mappings']), int(res['Total mappings']), float(res['Percentage correct'])]
                ent['dens'] = judge_classes(ent, [r for r, _ in used], newc, 'test_data')
                wrong = sum(1 for (r, l), c in zip(used, newc) if l != c)
                if len(newc) != len(used) or ent['res'][0] != wrong or ent['res'][1] != len(used) or not _close(ent['res'][2], 1.0 - wrong / max(len(used), 1)):
                    ent['viol'].append(dict(kind='summary-inconsistent', sig=dict(call='test_data'),
                                            why='test_data() = %r; %d labelled retained samples, classes %r, labels %r' % (ent['res'], len(used), newc[:30], [l for _, l in used][:30])))
                if ent['ntest'] != len(ent['calc']):
                    ent['viol'].append(dict(kind='testing-data-not-extended', sig={},
                                            why='after test_data the object holds %d calculated classes but %d testing samples (evaluate() will raise)' % (len(ent['calc']), ent['ntest'])))
                elif tsn[0] != prev_test[0] + [r for r, _ in used] or tsn[1] != prev_test[1] + [l for _, l in used]:
                    ent['viol'].append(dict(kind='testing-data-content-wrong', sig={}, why='testing data after test_data are not the earlier testing data followed by the tested labelled in-range samples'))
        else:
            # a raising call: legitimate when nothing (labelled) is left to classify / input empty / scaling mismatch
            legit = (not P) or (not keep) or prescaled_mismatch or bool(ent.get('no_origin')) or (op[0] == 'test' and all(L[i] < 0 for i in keep))
            pr = int(bool(cfg.get('print_tests')))
            if not legit:
                ent['viol'].append(dict(kind='call-raises', sig=dict(call=op[0], exc=ent['exc'][0], print_incorrect_points=pr),
                                        why='%s(print_output=%s, print_incorrect_points=%s) raised %r on %d in-range samples (%d of them unlabelled)' % (
                                            op[0], bool(pr), bool(pr), ent['exc'], len(keep), sum(1 for i in keep if L[i] < 0))))
                ent['stop_model'] = 1        # the model cannot follow a call that crashed half-way
            if ent['calc'] != prev_calc:
                ent['viol'].append(dict(kind='failed-call-changes-bookkeeping', sig=dict(call=op[0], print_incorrect_points=pr),
                                        why='a raising %s changed the calculated classes (%d -> %d)' % (op[0], len(prev_calc), len(ent['calc']))))
        if not ent.get('no_origin') and not internal and not ent.get('result_overwritten'):
            base_orig = orig if orig is not None else None
            if base_orig is not None:
                if len(after[0]) == len(keep) and ent['exc'] is None:
                    origin[jop if flavour != 'reuse' else op[1]] = [base_orig[i] for i in keep]
                elif len(after[0]) == len(base_orig):
                    origin[jop if flavour != 'reuse' else op[1]] = list(base_orig)          # the call failed before removing anything
        prev_calc = ent['calc']
        prev_test = [tsn[0], tsn[1]]
    if out['ops']:
        check_args(out['ops'][-1]['viol'], out['ops'][-1]['op'])
    return out


def probe_variant(_case):
    """Which of the two proposed repairs (fixes/C19-test-data-store-results, fixes/C19-classificate-returns-labels) are present?"""
    from sparseSpACE.DEMachineLearning import Classification
    c = CORPUS[1]
    try:
        clf = Classification(_mk(c['X'], c['y']), split_percentage=0.8, split_evenly=True, shuffle_data=False, **_silent())
        clf.perform_classification(masslumping=True, minimum_level=1, maximum_level=2, print_metrics=False)
        res = clf(_mk([[0.25, 0.25], [2.0, 1.75]], [1, 3]), print_removed=False)
        labelmap = int(sorted(int(v) for v in res.get_data()[1]) == [1, 3])
        n0 = clf.get_testing_data().get_length()
        clf.test_data(_mk([[0.25, 0.25], [2.0, 1.75]], [1, 3]), print_output=False, print_removed=False)
        store = int(clf.get_testing_data().get_length() == n0 + 2)
    except Exception:
        return [0, 0, 0]
    # third repair (phase 3): does _internal_scaling compare the accumulated OFFSET of an already scaled input?  A translated copy of the
    # learning cloud (same extent), min-max scaled to the internal range, has the learning factor but another offset.
    offcmp = 0
    try:
        t = _mk([[x + 2.0, y + 2.0] for x, y in c['X']], c['y'])
        t.scale_range((LO, HI))
        try:
            clf(t, print_removed=False)
        except ValueError:
            offcmp = 1
    except Exception:
        pass
    return [store, labelmap, offcmp]


def get_cvariant(chk=None):
    st, v = run_impl(probe_variant, [None])[0]
    v = v if st == 'ok' else [0, 0, 0]
    if chk is not None:
        chk.extra['classification_model_variant'] = dict(test_data_stores_results=v[0], classificate_returns_labels=v[1], internal_scaling_compares_offset=v[2],
                                                         note='selected by probing the implementation; [0,0] = code as found')
    return v


# --------------------------------------------------------------------------------------------- model side
def model_case(case, r, variant):
    rg = case.get('data_range')
    ops = []
    for op, ent in zip(case['ops'], r['ops']):
        if op[0] in ('decoy', 'relearn', 'tamper', 'other', 'mutate') or ent.get('skipped'):
            continue
        if op[0] == 'evaluate':
            ops.append([3])
        elif op[0] == 'continue':
            ops.append([4, ent.get('dens') or []] if ent.get('exc') is None else [3])
        else:
            rj = int(bool(len(variant) > 4 and variant[4] and ent['raw'][c18.SC] and not ent.get('offsets_equal', 1)))
            ops.append([1 if op[0] == 'call' else 2, ent['raw'], ent.get('dens') or [], rj])
    init_ok = r['init']['exc'] is None
    sp = r.get('split_in') or dict(perm=None, idx=[], lo_split=[])
    p = case['cfg']['split_percentage']
    split = [int(isinstance(p, float)), float(p), int(bool(case['cfg']['split_evenly'])), [] if sp['perm'] is None else [sp['perm']], sp['idx'], sp['lo_split']]
    return [variant[:4], [case['X'], case['y']], [[float(v) for v in rg[0]], [float(v) for v in rg[1]]] if rg else [], split,
            r.get('lo_learn') or [], r.get('dens_test') or [], ops if (init_ok and not r.get('learn_exc') and not r.get('degenerate')) else []]


def model_ops_index(case, r):
    """indices of the ops that are sent to the model, in order"""
    return [j for j, (op, ent) in enumerate(zip(case['ops'], r['ops'])) if not (op[0] in ('decoy', 'relearn', 'tamper', 'other', 'mutate') or ent.get('skipped'))]


def msorted(s):
    """rows of a model data-set snapshot as a sorted multiset of (row, label)"""
    return sorted(([sx.q(v) for v in row], l) for row, l in zip(s[0], s[1]))


def isorted(s):
    return sorted(([sx.rat(v) for v in row], l) for row, l in zip(s[0], s[1]))


def close_q(a, b):
    return abs(a - b) <= c18.TOL * (1 + abs(b))


def split_ambiguous(case, r):
    """the float product n * percentage lies (within 1e-9) on a half-integer although the percentage is not dyadic: Python's round()
    of the float product and the exact rounding of the model may then differ"""
    p = case['cfg']['split_percentage']
    if not (isinstance(p, float) and 0 < p < 1):
        return False
    if Fraction(p).denominator <= 1024:
        return False
    labs = r['init']['learn'][1] + r['init']['test'][1]
    sizes = [labs.count(l) for l in set(labs)] if case['cfg']['split_evenly'] else [len(labs)]
    return any(abs((n * p) % 1.0 - 0.5) < 1e-9 for n in sizes)


_X10 = [[0.0, 0.0], [0.25, 0.5], [0.5, 0.25], [0.125, 0.125], [0.375, 0.25], [2.0, 2.0], [2.25, 1.5], [1.75, 2.5], [2.5, 2.25], [1.5, 1.75]]
_CFG = dict(split_percentage=0.8, split_evenly=True, shuffle=False, learner='std', masslumping=True, lambd=0.0, levels=(1, 3), one_vs_others=False, max_evaluations=20)


def _two(la, lb):
    return [la] * 5 + [lb] * 5


CORPUS = [
    # exemplars of the known findings first
    dict(seed=1, kind='corpus', name='evaluate-after-test-data', labels=[0, 1], X=_X10, y=_two(0, 1), data_range=None, cfg=dict(_CFG),
         ops=[['evaluate'], ['test', [[0.25, 0.25], [2.0, 1.75]], [0, 1], 'inside'], ['evaluate']]),
    dict(seed=2, kind='corpus', name='labels-not-contiguous', labels=[1, 3], X=_X10, y=_two(1, 3), data_range=None, cfg=dict(_CFG),
         ops=[['call', [[0.25, 0.25], [2.0, 1.75]], [1, 3], 'inside'], ['evaluate']]),
    # the flow of test/test_DEMachineLearning.py::test_classification in small
    dict(seed=3, kind='corpus', name='suite-flow', labels=[0, 1], X=_X10, y=[0, 0, 0, 0, -1, 1, 1, 1, 1, 1], data_range=None, cfg=dict(_CFG),
         ops=[['evaluate'], ['call', [[0.25, 0.25], [2.0, 1.75], [9.0, 0.0], [0.0, 2.5]], [0, 1, 1, -1], 'partly'],
              ['test', [[0.25, 0.25], [2.0, 1.75], [-4.0, 0.0], [2.5, 0.0]], [1, 1, 0, -1], 'partly'],
              ['test', [[9.0, 9.0]], [0], 'outside'], ['test', [[0.25, 0.25]], [-1], 'unlabelled'], ['call', [], [], 'empty']]),
    # label VALUES whose CPython set iteration order is not ascending ({1,8} iterates 8,1; {8,0} with 8 first iterates 8,0): the
    # classificators follow get_labels() of the learning data, the label table must follow the same order
    dict(seed=4, kind='corpus', name='labels-set-order-1-8', labels=[1, 8], X=_X10, y=_two(1, 8), data_range=None, cfg=dict(_CFG),
         ops=[['call', [[0.25, 0.25], [2.0, 1.75]], [1, 8], 'inside'], ['test', [[0.125, 0.25], [2.25, 2.0], [2.0, 2.0]], [1, 8, 1], 'inside'], ['evaluate']]),
    dict(seed=5, kind='corpus', name='labels-set-order-8-0-dw', labels=[8, 0], X=_X10, y=_two(8, 0), data_range=None,
         cfg=dict(_CFG, learner='dw', split_evenly=False, split_percentage=1.0),
         ops=[['call', [[0.25, 0.25], [2.0, 1.75]], [8, 0], 'inside'], ['continue', 40], ['test', [[0.125, 0.25], [2.25, 2.0]], [8, 0], 'inside'], ['evaluate']]),
    dict(seed=6, kind='corpus', name='labels-set-order-2-9-17', labels=[2, 9, 17],
         X=_X10 + [[4.0, 0.0], [4.25, 0.5], [4.5, 0.25], [4.125, 0.125], [4.375, 0.25]], y=_two(2, 9) + [17] * 5, data_range=None,
         cfg=dict(_CFG, split_percentage=0.75, shuffle=True),
         ops=[['evaluate'], ['call', [[0.25, 0.25], [2.0, 1.75], [4.25, 0.25]], [2, 9, 17], 'inside'], ['call', 1, None, 'reuse'], ['evaluate']]),
]


def _viol_sigs(r):
    """(step, kind) of every oracle violation of one implementation run"""
    if not isinstance(r, dict):
        return set()
    out = set((-1, v['kind']) for v in r.get('viol', []))
    for j, ent in enumerate(r.get('ops', [])):
        out |= set((j, v['kind']) for v in ent['viol'])
    return out


def confirm_in_fresh_processes(chk, cases, impl, max_confirm=24):
    """The worker processes of the first pass run many cases each, so state shared between Classification objects (class-level
    caches ...) can leak from one case into the next.  Every case with an oracle violation is therefore re-run alone in a fresh
    process: the re-run result replaces the first one (so that every reported failing input replays), and violations that do
    not reproduce alone are reported separately as state leaks (no replayable input; the 'decoy' histories are the replayable
    form of the same defect)."""
    from concurrent.futures import ThreadPoolExecutor
    bad = [i for i, (st, r) in enumerate(impl) if st == 'ok' and _viol_sigs(r)]
    seen, pick = set(), []
    for i in bad:                       # one representative per violation kind first, then the rest up to the bound
        ks = frozenset(k for _, k in _viol_sigs(impl[i][1]))
        if ks not in seen:
            seen.add(ks); pick.append(i)
    pick += [i for i in bad if i not in pick]
    pick = pick[:max_confirm]
    if not pick:
        return impl, []
    with ThreadPoolExecutor(8) as ex:
        fresh = list(ex.map(lambda i: run_impl(impl_run, [cases[i]], nproc=1, limit=600)[0], pick))
    impl = list(impl)
    leaks = []
    for i, (st2, r2) in zip(pick, fresh):
        first = _viol_sigs(impl[i][1])
        again = _viol_sigs(r2) if st2 == 'ok' else set()
        lost = sorted(first - again)
        if lost:
            leaks.append((i, lost))
        if st2 == 'ok':
            impl[i] = (st2, r2)
    chk.extra['violations_confirmed_in_fresh_process'] = dict(cases_rerun=len(pick), cases_with_violations=len(bad),
                                                              not_reproduced_alone=len(leaks))
    # cases beyond the bound keep their first-pass result; say so
    return impl, leaks


# one numpy array object wrapped in DataSets again and again (and handed to a second classifier): evaluate, test, evaluate the same samples
_PTS = [[0.25, 0.25], [2.0, 1.75], [0.125, 0.5], [2.25, 2.0], [9.0, 9.0]]
CORPUS.append(dict(seed=9, kind='corpus', name='same-arrays-wrapped-again', labels=[3, 10], X=[[x + 4.0, y - 2.0] for x, y in _X10], y=_two(3, 10), data_range=None,
                   cfg=dict(_CFG), ops=[['call', [[x + 4.0, y - 2.0] for x, y in _PTS], [3, 10, 3, 10, 3], 'partly'], ['test', 0, None, 'rewrap'],
                                        ['call', 0, None, 'rewrap'], ['other', 0], ['call', 0, None, 'rewrap'], ['evaluate']]))
CORPUS.append(dict(seed=10, kind='corpus', name='slices-of-one-parent-array', labels=[0, 1], X=[[x - 3.0, y + 5.0] for x, y in _X10], y=_two(0, 1), data_range=None,
                   cfg=dict(_CFG, parent_array=True, split_percentage=1.0),
                   ops=[['test', [[x - 3.0, y + 5.0] for x, y in _PTS[:4]], [0, 1, 0, 1], 'inside'], ['call', 0, None, 'rewrap'],
                        ['call', [[x - 3.0, y + 5.0] for x, y in _PTS[:2]], [0, 1], 'inside', 'f32'], ['test', 2, None, 'rewrap'], ['evaluate']]))

# exemplar of the finding about test_data(print_output=True, print_incorrect_points=True) with classless samples in the tested data
PRINT_CASE = dict(seed=8, kind='corpus', name='test-data-print-incorrect-points', labels=[0, 1], X=_X10, y=_two(0, 1), data_range=None,
                  cfg=dict(_CFG, split_percentage=1.0, print_tests=True),
                  ops=[['test', [[0.25, 0.25], [2.0, 1.75], [0.125, 0.25]], [-1, 1, 1], 'inside'], ['evaluate']])
CORPUS.append(PRINT_CASE)
# the caller keeps using the data sets it passed (no internal test split: the first tested set becomes the testing data)
for _k, _how in enumerate(['remove_labels_all', 'shuffle', 'remove_samples', 'revert_scaling']):
    CORPUS.append(dict(seed=20 + _k, kind='corpus', name='caller-mutates-passed-data-set-' + _how, labels=[0, 1], X=_X10, y=_two(0, 1), data_range=None,
                       cfg=dict(_CFG, split_percentage=1.0, mutate_learning_data=_how),
                       ops=[['test', [[0.25, 0.25], [2.0, 1.75], [0.125, 0.5], [2.25, 2.0]], [0, 1, 1, 1], 'inside'], ['mutate', 0, _how], ['evaluate'],
                            ['test', [[0.5, 0.25], [1.75, 2.0]], [0, 0], 'inside'], ['mutate', 3, 'remove_labels'], ['evaluate'], ['mutate', 0, 'shuffle'], ['evaluate']]))

# exemplar of the finding about the shallow copies handed out by the getters (runs only once the finding is registered, see tamper_enabled)
TAMPER_CASE = dict(seed=7, kind='corpus', name='getter-copy-aliases-testing-data', labels=[0, 1], X=_X10, y=_two(0, 1), data_range=None,
                   cfg=dict(_CFG, split_percentage=0.6), ops=[['evaluate'], ['tamper'], ['evaluate']])


# exemplar of the finding about the accumulated offset that _internal_scaling does not compare (runs only once the finding is registered)
TRANSLATED_CASE = dict(seed=11, kind='corpus', name='prescaled-translated-accepted', labels=[0, 1], X=_X10, y=_two(0, 1), data_range=None,
                       cfg=dict(_CFG, split_percentage=1.0),
                       ops=[['call', [[2.0, 2.0], [4.5, 4.5], [2.25, 2.25], [4.0, 4.0]], [1, 1, 1, 1], 'prescaled-translated']])


def run(chk):
    gen_info = _c19_gen.regenerate(chk)
    chk.coq_obligations(extra_props=_c19_gen.EXTRA_PROPS)
    gen_problem = _c19_gen.diagnose(chk, gen_info)
    n = chk.n(200, 3000)
    nbig = chk.n(6, 40)
    chk.count('getter-tamper-histories=' + ('on' if tamper_enabled() else 'off (finding %s not registered)' % TAMPER_FINDING))
    chk.count('translated-prescaled-histories=' + ('on' if translated_enabled() else 'off (finding %s not registered)' % OFFSET_FINDING))
    cases = [dict(c) for c in CORPUS] + ([dict(TAMPER_CASE)] if tamper_enabled() else []) + ([dict(TRANSLATED_CASE)] if translated_enabled() else []) + \
            [gen_case(chk.rng, chk.tier, i, gate=g) for i, g in enumerate(['std2', 'std3', 'dw'] * chk.n(1, 4))] + \
            [gen_case(chk.rng, chk.tier, i, big=True) for i in range(nbig)] + [gen_case(chk.rng, chk.tier, i) for i in range(n)]
    impl = run_impl(impl_run, cases, limit=600)
    impl, leaks = confirm_in_fresh_processes(chk, cases, impl)
    for i, lost in leaks:
        c = cases[i]
        chk.violation('oracle:state-shared-between-objects', 'state-shared-between-objects', {'kinds': sorted(set(k for _, k in lost))},
                      {k: c[k] for k in ('seed', 'kind', 'X', 'y', 'labels', 'cfg', 'data_range', 'ops')},
                      dict(why='property predicates %r failed for this case when it ran after other cases in the same process, but hold when it runs alone in a '
                               'fresh process: state is shared between Classification objects / across calls in one process' % (lost,)), failing_input=False)
    judge(chk, cases, impl, c18.get_variant(chk)[:2] + get_cvariant(chk))
    _c19_gen.finish(chk, gen_info, gen_problem)


def judge(chk, cases, impl, variant):
    batch, where = [], []
    for i, (c, (st, r)) in enumerate(zip(cases, impl)):
        if st == 'ok':
            batch.append((2, model_case(c, r, variant)))
            where.append(i)
    mres = dict(zip(where, run_model(19, batch)))
    # one_vs_others: the signed training labels of every classificator (model: split_one_vs_others, entry sub 3) against DensityEstimation.classes
    ovo_idx = [i for i, (c, (st, r)) in enumerate(zip(cases, impl)) if st == 'ok' and c['cfg'].get('one_vs_others') and r['init']['exc'] is None and r.get('lo_learn')]
    ovo_res = dict(zip(ovo_idx, run_model(19, [(3, [impl[i][1]['lo_learn'], impl[i][1]['init']['learn'][1]]) for i in ovo_idx]))) if ovo_idx else {}
    for i in ovo_idx:
        c, r, mo = cases[i], impl[i][1], ovo_res.get(i)
        base = {k: c[k] for k in ('seed', 'kind', 'X', 'y', 'labels', 'cfg', 'data_range')}
        if mo is None or sx.is_err(mo) or isinstance(mo, tuple):
            chk.violation('corr:C19/one_vs_others', 'model-differs', {'observable': 'one_vs_others'}, dict(base, ops=[]), dict(model=str(mo)[:300]), failing_input=False)
            continue
        raises_m = mo == [1]
        raises_i = bool(r.get('learn_exc'))
        chk.count('one_vs_others:' + ('raises' if raises_i else 'trained'))
        if raises_m != raises_i and not (raises_i and r['learn_exc'][0] not in ('IndexError', 'ZeroDivisionError')):
            chk.violation('corr:C19/one_vs_others', 'model-differs', {'observable': 'one_vs_others/raises'}, dict(base, ops=[]),
                          dict(impl='raises %r' % (r.get('learn_exc'),) if raises_i else 'trains', model='raises' if raises_m else 'trains',
                               lo=r['lo_learn'], labels=r['init']['learn'][1][:40]), failing_input=False)
            continue
        if not raises_i and not raises_m and r.get('ovo_classes') is not None:
            mc = mo[1]
            ic = r['ovo_classes']
            if len(mc) != len(ic) or any(len(a) != len(b) or any(not close_q(sx.rat(u), sx.q(w)) for u, w in zip(a, b)) for a, b in zip(ic, mc)):
                chk.violation('corr:C19/one_vs_others', 'model-differs', {'observable': 'one_vs_others/signed-labels'}, dict(base, ops=[]),
                              dict(impl=str(ic)[:400], model=str([[str(sx.q(w)) for w in b] for b in mc])[:400], lo=r['lo_learn']), failing_input=False)
    keys, samples = [], []
    for i, (c, (st, r)) in enumerate(zip(cases, impl)):
        chk.count('kind=' + c.get('kind', 'random'))
        base = {k: c[k] for k in ('seed', 'kind', 'X', 'y', 'labels', 'cfg', 'data_range')}
        if st != 'ok':
            chk.violation('corr:C19/run', 'harness-or-impl-failure', {'status': st}, dict(base, ops=c['ops']), dict(impl=str(r)[:600]), failing_input=False)
            continue
        cfg = c['cfg']
        if r.get('indep'):
            chk.count('independent-density:samples-judged', r['indep'])
            chk.count('independent-density:cases')
            chk.count('largest-component-grid=%s' % ('>=200' if r.get('maxgrid', 0) >= 200 else '64-199' if r.get('maxgrid', 0) >= 64 else '<64'))
        if r.get('indep_ties'):
            chk.count('independent-density:ties-not-judged', r['indep_ties'])
        if r.get('indep_unavailable'):
            chk.count('independent-density:unavailable', r['indep_unavailable'])
        if r.get('dens_mismatch'):
            chk.count('independent-density:library-interpolation-differs(no class change needed)', r['dens_mismatch'])
        chk.count('dim=%d' % r['dim']); chk.count('learner=%s' % cfg['learner']); chk.count('classes=%d' % len(c['labels']))
        chk.count('labels=%s' % c.get('label_axis', 'corpus'))
        chk.count('split=%r/%s' % (cfg['split_percentage'], 'even' if cfg['split_evenly'] else 'uneven'))
        chk.count('shuffle=%d' % int(bool(cfg['shuffle'])))
        chk.count('data_range=' + ('given' if c.get('data_range') else 'none'))
        chk.count('samples=%s' % ('<=20' if len(c['X']) <= 20 else '<=60' if len(c['X']) <= 60 else '>=250'))
        for flag in ('one_vs_others', 'reuse_old_values', 'pre_scaled_data', 'masslumping', 'decoy_before_learning', 'call_before_learning', 'print_tests'):
            if cfg.get(flag):
                chk.count('option:%s' % flag)
        if cfg.get('parent_array'):
            chk.count('option:parent_array')
        if cfg.get('mutate_learning_data'):
            chk.count('caller-mutation-of-learning-data-set=%s' % cfg['mutate_learning_data'])
        chk.count('option:lambd=%r' % cfg['lambd'])
        if cfg['learner'] == 'dw':
            for k_, v_ in sorted(cfg.get('dw', {}).items()):
                if v_ not in (False, 0.5, 0.01) or k_ == 'use_relative_surplus':
                    chk.count('option:dw/%s=%r' % (k_, v_))
        else:
            chk.count('option:levels=%r' % (tuple(cfg['levels']),))
        for v in r['viol']:
            chk.violation('oracle:' + v['kind'], v['kind'], v['sig'], dict(base, ops=[]), dict(step='learning', why=v['why']))
        for j, ent in enumerate(r['ops']):
            o = c['ops'][j]
            chk.count('op=%s' % ent['op'] + ('/' + o[3] if ent['op'] in ('call', 'test') else ''))
            if ent['op'] == 'mutate' and not ent.get('skipped'):
                chk.count('caller-mutation=%s%s' % (o[2], '/raises' if ent.get('mutation_exc') else ''))
            if ent.get('array'):
                chk.count('array=' + ent['array'])
            if ent.get('input_scaling'):
                chk.count('input-scaling=%s/%s' % (ent['input_scaling'], 'raises' if ent.get('exc') else 'accepted'))
            if ent['op'] in ('call', 'test') and ent.get('raw'):
                nn = len(ent['raw'][0])
                chk.count('call-size=%s' % ('0' if nn == 0 else '1-8' if nn <= 8 else '9-300' if nn <= 300 else '>1000' if nn > 1000 else '301-1000'))
            if ent.get('exc'):
                chk.count('raised:%s/%s' % (ent['op'], ent['exc'][0]))
            for v in ent['viol']:
                chk.violation('oracle:' + v['kind'], v['kind'], v['sig'], dict(base, ops=c['ops'][:j + 1]), dict(step=j, op=ent['op'], why=v['why']))
        m = mres.get(i)

        def differ(what, detail, upto=None):
            chk.violation('corr:C19/' + what, 'model-differs', {'observable': what}, dict(base, ops=c['ops'] if upto is None else c['ops'][:upto + 1]),
                          detail, failing_input=False)

        if m is None or sx.is_err(m) or isinstance(m, tuple):
            differ('run', dict(model=str(m)[:400]))
            continue
        chk.traces += 1
        # ---- initialisation
        if r['init']['exc'] is not None:
            chk.count('init-raises')
            if m[0] != [1]:
                differ('init', dict(impl='raises %r' % (r['init']['exc'],), model=str(m[0])[:300]))
            continue
        if m[0] == [1]:
            differ('init', dict(impl='accepted', model='raises'))
            continue
        _, mmin, mmax, mfac, mscaled, momitted = m[0]
        ii = r['init']
        bad = None
        for nm, a, b in (('data_range_min', ii['min'], mmin), ('data_range_max', ii['max'], mmax), ('scale_factor', ii['fac'], mfac)):
            if c18.cmp_obs(a, b)[0] == 2:
                bad = (nm, a, [str(sx.q(v)) for v in b])
        lt = isorted([ii['learn'][0] + ii['test'][0], ii['learn'][1] + ii['test'][1]])
        ms = msorted(mscaled)
        if bad is None and (len(lt) != len(ms) or any(a[1] != b[1] or not all(close_q(u, w) for u, w in zip(a[0], b[0])) for a, b in zip(lt, ms))):
            bad = ('scaled labelled samples (learning + testing data)', str(lt)[:300], str(ms)[:300])
        io, mo = isorted(ii['omitted']), msorted(momitted)
        if bad is None and (len(io) != len(mo) or any(a[1] != b[1] or not all(close_q(u, w) for u, w in zip(a[0], b[0])) for a, b in zip(io, mo))):
            bad = ('omitted samples', str(io)[:300], str(mo)[:300])
        if bad:
            differ('init', dict(observable=bad[0], impl=bad[1], model=bad[2]), upto=-1)
            continue
        # ---- the ordered split into learning and testing data
        chk.count('label-order=' + r.get('label_order', '?'))
        if split_ambiguous(c, r):
            chk.count('ambiguous:split-rounding')
            continue
        if len(m) < 2 or m[1] == [1] or m[1][0] != 0:
            differ('split', dict(impl='learning %d / testing %d samples' % (len(ii['learn'][0]), len(ii['test'][0])), model='raises or rejects the order inputs',
                                 split_in=str(r.get('split_in'))[:400]), upto=-1)
            continue
        _, mlearn, mtest, lo_ok = m[1]
        for nm, a, b in (('learning data', ii['learn'], mlearn), ('testing data', ii['test'], mtest)):
            st2, path = c18.cmp_obs(a, b)
            if st2 == 2:
                bad = (nm, path, str(a)[:400], str(b)[:400])
                break
        if bad:
            differ('split', dict(observable=bad[0], path=bad[1], impl=bad[2], model=bad[3]), upto=-1)
            continue
        if r.get('learn_exc'):
            chk.count('learning-raises:' + r['learn_exc'][0])
            if cfg['learner'] == 'std' and not cfg['one_vs_others'] and len(set(ii['learn'][1])) >= 2:
                chk.violation('oracle:learning-raises', 'learning-raises', {'exc': r['learn_exc'][0], 'learner': cfg['learner']}, dict(base, ops=[]),
                              dict(why='perform_classification raised %r' % (r['learn_exc'],)))
            continue
        if r.get('degenerate'):
            chk.count('fewer-than-2-classes-learned')
            continue
        chk.count('classificator-owner=' + ('by-training-data' if r.get('owner') is not None else 'by-split_labels'))
        if lo_ok != 1:
            differ('label-order', dict(impl='get_labels() of the learning data = %r' % (r['lo_learn'],), model='not an enumeration of the labels of the learning data'), upto=-1)
            continue
        if m[2] != r['calc0']:
            differ('calc0', dict(impl=r['calc0'][:60], model=m[2][:60], label_order=r['lo_learn']), upto=-1)
            continue
        # ---- later calls
        okc = True
        idxs = model_ops_index(c, r)
        for j, mo_ in zip(idxs, m[3:]):
            ent = r['ops'][j]
            if sx.is_err(mo_):
                differ('op', dict(step=j, model=str(mo_)), upto=j); okc = False; break
            obs, mcalc = mo_
            if ent.get('stop_model'):
                chk.count('history-cut:call-crashed')
                okc = False
                break
            if ent.get('ambiguous_model') and not ent.get('ambiguous') and not ent.get('exc'):
                chk.count('ambiguous:model-float-equality-of-factors')
                okc = False
                break
            if ent.get('ambiguous'):
                chk.count('ambiguous:threshold')
                okc = False
                break
            if mcalc != ent['calc']:
                differ('bookkeeping', dict(step=j, op=ent['op'], impl=ent['calc'][:60], model=mcalc[:60]), upto=j); okc = False; break
            if ent['op'] == 'evaluate' or (ent['op'] == 'continue' and ent.get('exc')):
                if ent['exc']:
                    if ent['op'] == 'evaluate' and obs != [1]:
                        differ('evaluate', dict(step=j, impl='raises %r' % (ent['exc'],), model=str(obs)), upto=j); okc = False; break
                else:
                    if obs[0] != 0 or obs[1][:2] != ent['res'][:2] or not close_q(sx.rat(ent['res'][2]), sx.q(obs[1][2])):
                        differ('evaluate', dict(step=j, impl=ent['res'], model=str(obs)), upto=j); okc = False; break
                continue
            if ent['op'] == 'continue':
                continue
            raised_m = obs[0] == 1
            if bool(ent['exc']) != raised_m:
                differ(ent['op'], dict(step=j, impl='raises %r' % (ent['exc'],) if ent['exc'] else 'returns', model='raises' if raised_m else 'returns'), upto=j)
                okc = False; break
            st2, path = c18.cmp_obs(ent['after'], obs[1])
            if st2 == 2:
                differ(ent['op'] + '/input-after', dict(step=j, path=path, impl=str(ent['after'])[:500], model=str(obs[1])[:500]), upto=j); okc = False; break
            if not raised_m:
                if obs[2] != ent['res_classes']:
                    differ(ent['op'] + '/classes', dict(step=j, impl=ent['res_classes'][:60], model=obs[2][:60], dens=str(ent.get('dens'))[:400]), upto=j); okc = False; break
                if ent['op'] == 'test' and (obs[3][:2] != ent['res'][:2] or not close_q(sx.rat(ent['res'][2]), sx.q(obs[3][2]))):
                    differ('test/summary', dict(step=j, impl=ent['res'], model=str(obs[3])), upto=j); okc = False; break
        nclassified = sum(len(e.get('res_classes') or []) for e in r['ops'])
        if nclassified >= 1 and len(c['X']) >= 8:
            keys.append((c['seed'], str(c['X'])[:200], str(c['ops'])[:400]))
        if len(samples) < 3 and nclassified >= 4 and c.get('kind') == 'random':
            samples.append(dict(n=len(c['X']), dim=r['dim'], labels=c['labels'], label_order_of_learning_data=r['lo_learn'], cfg=cfg, data_range=c.get('data_range'),
                                ops=[[o[0]] + ([len(o[1]) if isinstance(o[1], list) else 'same object as op %r' % o[1], o[3]] if o[0] in ('call', 'test') else o[1:]) for o in c['ops']],
                                classes=[(e.get('res_classes') or [])[:12] for e in r['ops']], summaries=[e.get('res') for e in r['ops']]))
    chk.record_cases(len(cases), keys,
                     'real learning runs on random 1/2/3-d lattice data (2..4 classes, 8..60 samples plus a few cases with 250..420 samples and calls with up to 1500 points; '
                     'unlabelled samples; label values contiguous / non-contiguous / with non-ascending CPython set order / large; split 0.25..1.0 (float, int, out of range) '
                     'even/uneven, shuffle on/off, standard/dimension-wise/one-vs-others learners with their options, optional user data range) followed by '
                     'histories of __call__/test_data/evaluate/continue_dimension_wise_refinement calls with data inside/partly/entirely outside/on the edge/unlabelled/empty/pre-scaled, '
                     're-used DataSet objects and a second classifier in the same process; '
                     'non-trivial = at least one sample classified by a later call and >= 8 learning samples; distinct by (seed, data, calls)', samples)


def replay(chk, rep):
    c = rep['case']
    st, r = run_impl(impl_run, [c], limit=600)[0]
    print('impl status:', st)
    if st != 'ok':
        print(r)
        return 1
    bad = 0
    print('init:', {k: (str(v)[:200]) for k, v in r['init'].items()})
    print('label order of the learning data (get_labels()):', r.get('lo_learn'), ' classificators trained on classes:', r.get('label_of_classificator'))
    for v in r['viol']:
        bad += 1
        print('   PROPERTY PREDICATE FAILS (learning):', v['kind'], v['sig'], v['why'])
    for j, ent in enumerate(r['ops']):
        print('call', j, ent['op'], 'raised %r' % (ent['exc'],) if ent.get('exc') else 'ok', 'classes', (ent.get('res_classes') or [])[:40], 'summary', ent.get('res'),
              'calculated classes now', (ent.get('calc') or [])[:40])
        for v in ent['viol']:
            bad += 1
            print('   PROPERTY PREDICATE FAILS:', v['kind'], v['sig'], v['why'])
    m = run_model(19, [(2, model_case(c, r, c18.get_variant()[:2] + get_cvariant()))])[0]
    print('model:', str(m)[:3000])
    print('property predicate:', 'violated' if bad else 'holds')
    return 1 if bad else 0
