"""C19: Classification assigns the arg-max density class under the learning scaling.

Real learning runs (small 2-d data sets, 2..4 classes, standard and dimension-wise learners) followed by sequences of
__call__/test_data/evaluate calls.  The densities are read from the real classificators at the scaled samples and fed to
the extracted Coq model (coq/Model/Classify.v through coq/Entry/C19.v), which recomputes the learning-time scaling, the
positions, the out-of-range filter, the classes (arg-max), the summaries and the bookkeeping.  Independently, the
property's own predicates (oracle) are evaluated on the implementation alone."""
import random
from fractions import Fraction
from .. import sx
from ..impl import run_impl
from ..model import run_model
from . import c18

ASSUMPTIONS = [
    'the learned densities are inputs of the model: read from get_density_estimation_results() at the scaled samples (C16/C17 cover them)',
    'the learning/testing split (shuffle, move_boundaries_to_front, split_labels/split_pieces) is read off the implementation; '
    'the model recomputes the scaling, the scaled labelled/omitted samples (compared as multisets), positions, filter, classes, summaries, bookkeeping',
    'floats as exact rationals; positions compared within 1e-9; calls with a scaled coordinate within 1e-9 of 0.0049/0.9951 are skipped as ambiguous',
    'exact ties of the maximal density are judged "any maximal class" by the oracle (the model takes the first, as numpy.argmax)',
    '2-dimensional data only; one_vs_others only with labels 0..k-1',
]

LO, HI, LO_CUT, HI_CUT = 0.005, 0.995, 0.0049, 0.9951


# --------------------------------------------------------------------------------------------- generation
def lattice(rng, c, spread):
    return c + rng.randrange(-spread, spread + 1) / 16.0


def gen_case(rng, tier, idx):
    k = rng.choice([2, 2, 3, 3, 4])
    r = rng.random()
    labels = list(range(k))
    if r < 0.12:
        labels = sorted(rng.sample(range(0, 6), k))           # not 0..k-1
        if labels == list(range(k)):
            labels = [l + 1 for l in labels]
    centres = []
    while len(centres) < k:
        c = (rng.randrange(-8, 9) / 4.0, rng.randrange(-8, 9) / 4.0)
        if all(abs(c[0] - o[0]) + abs(c[1] - o[1]) >= 1.0 for o in centres):
            centres.append(c)
    n = rng.randrange(3 * k + 2, 61)
    X, y = [], []
    for i in range(n):
        j = i % k if i < 2 * k else rng.randrange(k)
        X.append([lattice(rng, centres[j][0], 7), lattice(rng, centres[j][1], 7)])
        y.append(labels[j])
    if rng.random() < 0.35:
        for i in rng.sample(range(2 * k, n), min(n - 2 * k, rng.randrange(1, 5))):
            y[i] = -1
    contiguous = labels == list(range(k))
    cfg = dict(split_percentage=rng.choice([1.0, 0.5, 0.7, 0.8, 0.8, 0.9]), split_evenly=rng.random() < 0.5, shuffle=rng.random() < 0.5,
               learner=rng.choice(['std', 'std', 'std', 'dw']), masslumping=rng.random() < 0.7, lambd=rng.choice([0.0, 0.0, 0.01]),
               levels=rng.choice([(1, 2), (1, 3), (1, 3), (2, 3), (1, 4)]), one_vs_others=contiguous and rng.random() < 0.2,
               max_evaluations=rng.choice([20, 40, 60]))
    data_range = None
    r = rng.random()
    xs = [p[0] for p in X]; ys = [p[1] for p in X]
    if r < 0.12:
        data_range = [[min(xs) - 0.5, min(ys) - 0.25], [max(xs) + 0.5, max(ys) + 1.0]]          # wider than the data
    elif r < 0.18:
        data_range = [[min(xs) + 0.25, min(ys) - 0.25], [max(xs) + 0.5, max(ys) - 0.25]]         # cuts some learning samples off
    elif r < 0.20:
        data_range = [[min(xs), max(ys)], [max(xs), max(ys)]]                                    # invalid
    lo = data_range[0] if data_range else [min(xs), min(ys)]
    hi = data_range[1] if data_range else [max(xs), max(ys)]
    ops = []
    for _ in range(rng.randrange(1, 7)):
        r = rng.random()
        if r < 0.22:
            ops.append(['evaluate'])
            continue
        kind = 'call' if r < 0.55 else 'test'
        m = rng.randrange(1, 9)
        flavour = rng.choices(['inside', 'partly', 'outside', 'unlabelled', 'empty', 'prescaled', 'edge'], [40, 25, 8, 8, 3, 4, 12])[0]
        P, L = [], []
        for _i in range(m):
            if flavour in ('inside', 'unlabelled', 'prescaled') or (flavour == 'partly' and rng.random() < 0.55):
                a, b = rng.choice(X), rng.choice(X)
                p = [(a[0] + b[0]) / 2, (a[1] + b[1]) / 2] if rng.random() < 0.5 else list(a)
            elif flavour == 'edge':
                a = rng.choice(X)
                p = [rng.choice([lo[0], hi[0], a[0]]), rng.choice([lo[1], hi[1], a[1]])]
            else:
                p = [rng.choice([lo[0] - rng.randrange(1, 9) / 4.0, hi[0] + rng.randrange(1, 9) / 4.0, rng.choice(X)[0]]),
                     rng.choice([lo[1] - rng.randrange(1, 9) / 4.0, hi[1] + rng.randrange(1, 9) / 4.0])]
            P.append(p)
            j = min(range(k), key=lambda jj: (p[0] - centres[jj][0]) ** 2 + (p[1] - centres[jj][1]) ** 2)
            l = labels[j]
            if rng.random() < 0.15:
                l = rng.choice(labels)
            if flavour == 'unlabelled' or rng.random() < 0.12:
                l = -1
            L.append(l)
        if flavour == 'empty':
            P, L = [], []
        ops.append([kind, P, L, flavour])
    return dict(seed=rng.randrange(1 << 30), X=X, y=y, labels=labels, cfg=cfg, data_range=data_range, ops=ops, kind='random')


# --------------------------------------------------------------------------------------------- implementation side
def _mk(X, y):
    import numpy as np
    from sparseSpACE.DEMachineLearning import DataSet
    if not X:
        return DataSet((np.array([]), np.array([], dtype=np.int64)))
    return DataSet((np.array(X, dtype=np.float64).reshape(len(X), len(X[0])), np.array(y, dtype=np.int64)))


def _dens(classificators, pts):
    """densities at the given points: one row per point, one column per classificator"""
    import numpy as np
    if not pts:
        return []
    cols = [[float(v) for v in np.asarray(c(np.array(pts, dtype=np.float64))).reshape(-1)] for c in classificators]
    return [[col[i] for col in cols] for i in range(len(pts))]


def _close(a, b, tol=1e-9):
    return abs(a - b) <= tol * (1.0 + abs(b))


def impl_run(case):
    import numpy as np
    from sparseSpACE.DEMachineLearning import Classification
    from sparseSpACE.Utils import log_levels, print_levels
    np.random.seed(case['seed'] % (2 ** 32))
    cfg = case['cfg']
    out = dict(viol=[], ops=[])
    data = _mk(case['X'], case['y'])
    rg = case.get('data_range')
    try:
        clf = Classification(data, data_range=(np.array(rg[0]), np.array(rg[1])) if rg else None,
                             split_percentage=cfg['split_percentage'], split_evenly=cfg['split_evenly'], shuffle_data=cfg['shuffle'],
                             print_output=False, log_level=log_levels.WARNING, print_level=print_levels.NONE)
    except ValueError as e:
        out['init'] = dict(exc=(type(e).__name__, str(e)[:100]))
        return out
    mn0 = [float(v) for v in clf.get_dataset_range()[0]]
    mx0 = [float(v) for v in clf.get_dataset_range()[1]]
    fac0 = [float(v) for v in clf.get_scale_factor()]
    learn, test, omitted = clf.get_learning_data(), clf.get_testing_data(), clf.get_omitted_data()
    out['init'] = dict(exc=None, min=mn0, max=mx0, fac=fac0, learn=c18.snap(learn), test=c18.snap(test), omitted=c18.snap(omitted))
    # oracle: scaling fixed at learning time is the min-max scaling of the labelled samples onto (0.005, 0.995) (or the user range)
    lab = [(x, l) for x, l in zip(case['X'], case['y']) if l >= 0]
    if not rg:
        for j in range(2):
            col = [x[j] for x, _ in lab]
            want_f = 0.99 / (max(col) - min(col)) if max(col) > min(col) else 0.99
            if not _close(mn0[j], min(col)) or not _close(fac0[j], want_f):
                out['viol'].append(dict(kind='learning-scaling-wrong', sig={}, why='dimension %d: data_range min %r / factor %r, expected %r / %r' % (j, mn0[j], fac0[j], min(col), want_f)))
    exp_pos = sorted((tuple((x[j] - mn0[j]) * fac0[j] + LO for j in range(2)), l) for x, l in lab)
    exp_pos = [p for p in exp_pos if all(LO_CUT <= v <= HI_CUT for v in p[0])] if rg else exp_pos
    got_pos = sorted([(tuple(r), l) for r, l in zip(out['init']['learn'][0], out['init']['learn'][1])] +
                     [(tuple(r), l) for r, l in zip(out['init']['test'][0], out['init']['test'][1])])
    if len(exp_pos) != len(got_pos) or any(a[1] != b[1] or not all(_close(u, w) for u, w in zip(a[0], b[0])) for a, b in zip(exp_pos, got_pos)):
        out['viol'].append(dict(kind='learning-data-not-scaled-labelled-samples', sig={}, why='learning + testing data are not the labelled samples in the learning scaling'))
    # learning
    try:
        lv = cfg['levels']
        if cfg['learner'] == 'dw':
            clf.perform_classification_dimension_wise(masslumping=cfg['masslumping'], lambd=cfg['lambd'], minimum_level=1, maximum_level=2,
                                                      max_evaluations=cfg['max_evaluations'], one_vs_others=cfg['one_vs_others'], print_metrics=False)
        else:
            clf.perform_classification(masslumping=cfg['masslumping'], lambd=cfg['lambd'], minimum_level=lv[0], maximum_level=lv[1],
                                       one_vs_others=cfg['one_vs_others'], print_metrics=False)
    except Exception as e:
        out['learn_exc'] = (type(e).__name__, str(e)[:200])
        return out
    out['learn_exc'] = None
    cls, _ = clf.get_density_estimation_results()
    cls = list(cls)
    out['nclass'] = len(cls)
    if len(cls) < 2:
        # fewer than two classes left in the learning data (user data range cut them off): outside the property's quantifier
        out['degenerate'] = True
        out['calc0'] = [int(c) for c in clf.get_calculated_classes_testset()] if len(cls) == 1 else []
        out['dens_test'] = []
        out['label_of_classificator'] = []
        return out
    # label of the j-th classificator = label of the j-th piece of learning_data.split_labels() (the call the implementation makes)
    pieces = clf.get_learning_data().split_labels()
    lab_of = [int(p.get_data()[1][0]) for p in pieces]
    out['label_of_classificator'] = lab_of
    contiguous = int(lab_of == list(range(len(lab_of))))
    calc = [int(c) for c in clf.get_calculated_classes_testset()]
    out['calc0'] = calc
    out['dens_test'] = _dens(cls, out['init']['test'][0])

    def judge_classes(ent, pts, classes, what):
        d = _dens(cls, pts)
        for i, (row, c) in enumerate(zip(d, classes)):
            best = max(row)
            ok_labels = [lab_of[j] for j in range(len(row)) if row[j] == best]
            if c not in ok_labels:
                amax = [j for j in range(len(row)) if row[j] == best]
                kind = 'class-is-index-not-label' if (c in amax and not contiguous) else 'class-not-argmax'
                ent['viol'].append(dict(kind=kind, sig=dict(contiguous_labels=contiguous, where=what),
                                        why='%s: sample %d at %r got class %r; densities %r, classificator labels %r' % (what, i, pts[i], c, row, lab_of)))
                break
        return d

    ent0 = dict(viol=[])
    if out['init']['test'][0]:
        judge_classes(ent0, out['init']['test'][0], calc, 'testing data at learning time')
    out['viol'] += ent0['viol']
    prev_calc = list(calc)
    ntest = len(out['init']['test'][0])
    for op in case['ops']:
        ent = dict(op=op[0], viol=[], exc=None)
        out['ops'].append(ent)
        if op[0] == 'evaluate':
            try:
                ev = clf.evaluate()
                ent['res'] = [int(ev['Wrong mappings']), int(ev['Total mappings']), float(ev['Percentage correct'])]
                tl = [int(l) for l in clf.get_testing_data().get_data()[1]]
                wrong = sum(1 for a, b in zip(tl, prev_calc[:len(tl)]) if a != b)
                if ent['res'][0] != wrong or ent['res'][1] != len(tl) or not _close(ent['res'][2], 1.0 - wrong / max(len(tl), 1)):
                    ent['viol'].append(dict(kind='summary-inconsistent', sig=dict(call='evaluate'), why='evaluate() = %r, classes/labels give wrong=%d total=%d' % (ent['res'], wrong, len(tl))))
            except Exception as e:
                ent['exc'] = (type(e).__name__, str(e)[:100])
                ntest = int(clf.get_testing_data().get_length())
                if ntest > 0:
                    ent['viol'].append(dict(kind='evaluate-raises-with-testing-data', sig=dict(after_test_data=int(len(prev_calc) != len(out['calc0']))),
                                            why='evaluate() raised %s although the object holds %d testing samples and %d calculated classes' % (ent['exc'], ntest, len(prev_calc))))
            ent['calc'] = [int(c) for c in clf.get_calculated_classes_testset()]
            continue
        P, L, flavour = op[1], op[2], op[3]
        d = _mk(P, L)
        if flavour == 'prescaled' and P:
            d.scale_range((LO, HI))
        raw = c18.snap(d)
        ent['raw'] = raw
        # expected positions / filter in the scaling fixed at learning time (oracle's own computation)
        pos = [[(x[j] - mn0[j]) * fac0[j] + LO for j in range(2)] for x in P] if not raw[c18.SC] else [list(x) for x in raw[0]]
        ent['ambiguous'] = int(any(abs(v - LO_CUT) < 1e-9 or abs(v - HI_CUT) < 1e-9 for p in pos for v in p))
        if raw[c18.SC] and raw[c18.SC + 2] and raw[c18.SC + 2][0] == 1 and len(raw[c18.SC + 2][1]) == len(fac0) and \
                all(_close(a, b) for a, b in zip(raw[c18.SC + 2][1], fac0)):
            ent['ambiguous'] = 1      # pre-scaled input whose factor equals the learning factor up to rounding: float equality, not decidable exactly
        keep = [i for i, p in enumerate(pos) if all(LO_CUT <= v <= HI_CUT for v in p)]
        res = None
        try:
            if op[0] == 'call':
                res = clf(d, print_removed=False)
            else:
                res = clf.test_data(d, print_output=False, print_removed=False)
        except Exception as e:
            ent['exc'] = (type(e).__name__, str(e)[:100])
        after = c18.snap(d)
        ent['after'] = after
        ent['calc'] = [int(c) for c in clf.get_calculated_classes_testset()]
        ent['ntest'] = int(clf.get_testing_data().get_length())
        rg_now = clf.get_dataset_range(); fc_now = clf.get_scale_factor()
        if [float(v) for v in rg_now[0]] != mn0 or [float(v) for v in rg_now[1]] != mx0 or [float(v) for v in fc_now] != fac0:
            ent['viol'].append(dict(kind='learning-scaling-changed', sig=dict(call=op[0]), why='data range / scale factor changed by a later call'))
        if ent['calc'][:len(prev_calc)] != prev_calc:
            ent['viol'].append(dict(kind='earlier-classes-changed', sig=dict(call=op[0]), why='calculated classes were %r, now %r' % (prev_calc, ent['calc'])))
        if ent['ambiguous']:
            prev_calc = ent['calc']
            continue
        prescaled_mismatch = bool(raw[c18.SC])
        if ent['exc'] is None:
            # retained samples: exactly those in range, at the expected positions, labels attached
            kept_pos = after[0]
            if prescaled_mismatch:
                pass
            elif len(kept_pos) != len(keep) or any(not _close(a, b) for i, r in zip(keep, kept_pos) for a, b in zip(r, pos[i])):
                ent['viol'].append(dict(kind='scaling-or-filter-wrong', sig=dict(call=op[0]),
                                        why='retained samples %r, expected the in-range samples %r of the input at %r' % (kept_pos, keep, [pos[i] for i in keep])))
            elif after[1] != [L[i] for i in keep]:
                ent['viol'].append(dict(kind='labels-detached', sig=dict(call=op[0]), why='labels of the retained samples %r, expected %r' % (after[1], [L[i] for i in keep])))
            if op[0] == 'call':
                rs = c18.snap(res)
                ent['res_classes'] = [int(c) for c in rs[1]]
                ent['dens'] = judge_classes(ent, rs[0], ent['res_classes'], '__call__')
                if rs[0] != kept_pos:
                    ent['viol'].append(dict(kind='returned-samples-differ', sig={}, why='__call__ returns samples %r, retained %r' % (rs[0], kept_pos)))
                if ent['calc'] != prev_calc:
                    ent['viol'].append(dict(kind='call-changes-bookkeeping', sig={}, why='__call__ changed the calculated classes of the testing data'))
            else:
                used = [(r, l) for r, l in zip(after[0], after[1]) if l >= 0]
                newc = ent['calc'][len(prev_calc):]
                ent['res_classes'] = newc
                ent['res'] = [int(res['Wrong mappings']), int(res['Total mappings']), float(res['Percentage correct'])]
                ent['dens'] = judge_classes(ent, [r for r, _ in used], newc, 'test_data')
                wrong = sum(1 for (r, l), c in zip(used, newc) if l != c)
                if len(newc) != len(used) or ent['res'][0] != wrong or ent['res'][1] != len(used) or not _close(ent['res'][2], 1.0 - wrong / max(len(used), 1)):
                    ent['viol'].append(dict(kind='summary-inconsistent', sig=dict(call='test_data'),
                                            why='test_data() = %r; %d labelled retained samples, classes %r, labels %r' % (ent['res'], len(used), newc, [l for _, l in used])))
                if ent['ntest'] != len(ent['calc']):
                    ent['viol'].append(dict(kind='testing-data-not-extended', sig={},
                                            why='after test_data the object holds %d calculated classes but %d testing samples (evaluate() will raise)' % (len(ent['calc']), ent['ntest'])))
        else:
            # a raising call: legitimate when nothing (labelled) is left to classify / input empty / scaling mismatch
            legit = (not P) or (not keep) or prescaled_mismatch or (op[0] == 'test' and all(L[i] < 0 for i in keep))
            if not legit:
                ent['viol'].append(dict(kind='call-raises', sig=dict(call=op[0], exc=ent['exc'][0]), why='%s raised %r on %d in-range samples' % (op[0], ent['exc'], len(keep))))
            if ent['calc'] != prev_calc:
                ent['viol'].append(dict(kind='failed-call-changes-bookkeeping', sig=dict(call=op[0]), why='a raising %s changed the calculated classes' % op[0]))
        prev_calc = ent['calc']
    return out


def probe_variant(_case):
    """Which of the two proposed repairs (fixes/C19-test-data-store-results, fixes/C19-classificate-returns-labels) are present?"""
    import numpy as np
    from sparseSpACE.DEMachineLearning import Classification
    from sparseSpACE.Utils import log_levels, print_levels
    c = CORPUS[1]
    try:
        clf = Classification(_mk(c['X'], c['y']), split_percentage=0.8, split_evenly=True, shuffle_data=False, print_output=False,
                             log_level=log_levels.WARNING, print_level=print_levels.NONE)
        clf.perform_classification(masslumping=True, minimum_level=1, maximum_level=2, print_metrics=False)
        res = clf(_mk([[0.25, 0.25], [2.0, 1.75]], [1, 3]), print_removed=False)
        labelmap = int(sorted(int(v) for v in res.get_data()[1]) == [1, 3])
        n0 = clf.get_testing_data().get_length()
        clf.test_data(_mk([[0.25, 0.25], [2.0, 1.75]], [1, 3]), print_output=False, print_removed=False)
        store = int(clf.get_testing_data().get_length() == n0 + 2)
        return [store, labelmap]
    except Exception:
        return [0, 0]


def get_cvariant(chk=None):
    st, v = run_impl(probe_variant, [None])[0]
    v = v if st == 'ok' else [0, 0]
    if chk is not None:
        chk.extra['classification_model_variant'] = dict(test_data_stores_results=v[0], classificate_returns_labels=v[1],
                                                         note='selected by probing the implementation; [0,0] = code as found')
    return v


# --------------------------------------------------------------------------------------------- model side
def model_case(case, r, variant):
    rg = case.get('data_range')
    ops = []
    for op, ent in zip(case['ops'], r['ops']):
        if op[0] == 'evaluate':
            ops.append([3])
        else:
            ops.append([1 if op[0] == 'call' else 2, ent['raw'], ent.get('dens') or []])
    init_ok = r['init']['exc'] is None
    tl = r['init']['test'][1] if init_ok else []
    return [variant, [case['X'], case['y']], [[float(v) for v in rg[0]], [float(v) for v in rg[1]]] if rg else [],
            r.get('label_of_classificator') or [], tl, r.get('dens_test') or [], ops if (init_ok and not r.get('learn_exc')) else []]


def msorted(s):
    """rows of a model data-set snapshot as a sorted multiset of (row, label)"""
    return sorted(([sx.q(v) for v in row], l) for row, l in zip(s[0], s[1]))


def isorted(s):
    return sorted(([sx.rat(v) for v in row], l) for row, l in zip(s[0], s[1]))


def close_q(a, b):
    return abs(a - b) <= c18.TOL * (1 + abs(b))


CORPUS = [
    # exemplars of the known findings first
    dict(seed=1, kind='corpus', name='evaluate-after-test-data', labels=[0, 1],
         X=[[0.0, 0.0], [0.25, 0.5], [0.5, 0.25], [0.125, 0.125], [0.375, 0.25], [2.0, 2.0], [2.25, 1.5], [1.75, 2.5], [2.5, 2.25], [1.5, 1.75]],
         y=[0, 0, 0, 0, 0, 1, 1, 1, 1, 1], data_range=None,
         cfg=dict(split_percentage=0.8, split_evenly=True, shuffle=False, learner='std', masslumping=True, lambd=0.0, levels=(1, 3), one_vs_others=False, max_evaluations=20),
         ops=[['evaluate'], ['test', [[0.25, 0.25], [2.0, 1.75]], [0, 1], 'inside'], ['evaluate']]),
    dict(seed=2, kind='corpus', name='labels-not-contiguous', labels=[1, 3],
         X=[[0.0, 0.0], [0.25, 0.5], [0.5, 0.25], [0.125, 0.125], [0.375, 0.25], [2.0, 2.0], [2.25, 1.5], [1.75, 2.5], [2.5, 2.25], [1.5, 1.75]],
         y=[1, 1, 1, 1, 1, 3, 3, 3, 3, 3], data_range=None,
         cfg=dict(split_percentage=0.8, split_evenly=True, shuffle=False, learner='std', masslumping=True, lambd=0.0, levels=(1, 3), one_vs_others=False, max_evaluations=20),
         ops=[['call', [[0.25, 0.25], [2.0, 1.75]], [1, 3], 'inside'], ['evaluate']]),
    # the flow of test/test_DEMachineLearning.py::test_classification in small
    dict(seed=3, kind='corpus', name='suite-flow', labels=[0, 1],
         X=[[0.0, 0.0], [0.25, 0.5], [0.5, 0.25], [0.125, 0.125], [0.375, 0.25], [2.0, 2.0], [2.25, 1.5], [1.75, 2.5], [2.5, 2.25], [1.5, 1.75]],
         y=[0, 0, 0, 0, -1, 1, 1, 1, 1, 1], data_range=None,
         cfg=dict(split_percentage=0.8, split_evenly=True, shuffle=False, learner='std', masslumping=True, lambd=0.0, levels=(1, 3), one_vs_others=False, max_evaluations=20),
         ops=[['evaluate'], ['call', [[0.25, 0.25], [2.0, 1.75], [9.0, 0.0], [0.0, 2.5]], [0, 1, 1, -1], 'partly'],
              ['test', [[0.25, 0.25], [2.0, 1.75], [-4.0, 0.0], [2.5, 0.0]], [1, 1, 0, -1], 'partly'],
              ['test', [[9.0, 9.0]], [0], 'outside'], ['test', [[0.25, 0.25]], [-1], 'unlabelled'], ['call', [], [], 'empty']]),
]


def run(chk):
    chk.coq_obligations()
    n = chk.n(120, 2500)
    cases = [dict(c) for c in CORPUS] + [gen_case(chk.rng, chk.tier, i) for i in range(n)]
    impl = run_impl(impl_run, cases, limit=300)
    judge(chk, cases, impl, c18.get_variant(chk) + get_cvariant(chk))


def judge(chk, cases, impl, variant):
    batch, where = [], []
    for i, (c, (st, r)) in enumerate(zip(cases, impl)):
        if st == 'ok':
            batch.append((0, model_case(c, r, variant)))
            where.append(i)
    mres = dict(zip(where, run_model(19, batch)))
    keys, samples = [], []
    for i, (c, (st, r)) in enumerate(zip(cases, impl)):
        chk.count('kind=' + c.get('kind', 'random'))
        base = {k: c[k] for k in ('seed', 'kind', 'X', 'y', 'labels', 'cfg', 'data_range')}
        if st != 'ok':
            chk.violation('corr:C19/run', 'harness-or-impl-failure', {'status': st}, dict(base, ops=c['ops']), dict(impl=str(r)[:600]), failing_input=False)
            continue
        chk.count('learner=%s' % c['cfg']['learner']); chk.count('classes=%d' % len(c['labels']))
        chk.count('split=%s/%s' % (c['cfg']['split_percentage'], 'even' if c['cfg']['split_evenly'] else 'uneven'))
        chk.count('data_range=' + ('given' if c.get('data_range') else 'none'))
        for v in r['viol']:
            chk.violation('oracle:' + v['kind'], v['kind'], v['sig'], dict(base, ops=[]), dict(step='learning', why=v['why']))
        for j, ent in enumerate(r['ops']):
            chk.count('op=%s' % ent['op'] + ('' if ent['op'] == 'evaluate' else '/' + c['ops'][j][3]))
            if ent.get('exc'):
                chk.count('raised:%s/%s' % (ent['op'], ent['exc'][0]))
            for v in ent['viol']:
                chk.violation('oracle:' + v['kind'], v['kind'], v['sig'], dict(base, ops=c['ops'][:j + 1]), dict(step=j, op=ent['op'], why=v['why']))
        m = mres.get(i)

        def differ(what, detail, upto=None):
            chk.violation('corr:C19/' + what, 'model-differs', {'observable': what}, dict(base, ops=c['ops'] if upto is None else c['ops'][:upto + 1]),
                          detail, failing_input=False)

        if m is None or sx.is_err(m) or isinstance(m, tuple):
            differ('run', dict(model=str(m)[:400]))
            continue
        chk.traces += 1
        # ---- initialisation
        if r['init']['exc'] is not None:
            chk.count('init-raises')
            if m[0] != [1]:
                differ('init', dict(impl='raises %r' % (r['init']['exc'],), model=str(m[0])[:300]))
            continue
        if m[0] == [1]:
            differ('init', dict(impl='accepted', model='raises'))
            continue
        _, mmin, mmax, mfac, mscaled, momitted = m[0]
        ii = r['init']
        bad = None
        for nm, a, b in (('data_range_min', ii['min'], mmin), ('data_range_max', ii['max'], mmax), ('scale_factor', ii['fac'], mfac)):
            if c18.cmp_obs(a, b)[0] == 2:
                bad = (nm, a, [str(sx.q(v)) for v in b])
        lt = isorted([ii['learn'][0] + ii['test'][0], ii['learn'][1] + ii['test'][1]])
        ms = msorted(mscaled)
        if bad is None and (len(lt) != len(ms) or any(a[1] != b[1] or not all(close_q(u, w) for u, w in zip(a[0], b[0])) for a, b in zip(lt, ms))):
            bad = ('scaled labelled samples (learning + testing data)', str(lt)[:300], str(ms)[:300])
        io, mo = isorted(ii['omitted']), msorted(momitted)
        if bad is None and (len(io) != len(mo) or any(a[1] != b[1] or not all(close_q(u, w) for u, w in zip(a[0], b[0])) for a, b in zip(io, mo))):
            bad = ('omitted samples', str(io)[:300], str(mo)[:300])
        if bad:
            differ('init', dict(observable=bad[0], impl=bad[1], model=bad[2]), upto=-1)
            continue
        if r.get('degenerate'):
            chk.count('fewer-than-2-classes-learned')
            continue
        if r.get('learn_exc'):
            chk.count('learning-raises:' + r['learn_exc'][0])
            if c['cfg']['learner'] == 'std' and not c['cfg']['one_vs_others']:
                chk.violation('oracle:learning-raises', 'learning-raises', {'exc': r['learn_exc'][0], 'learner': c['cfg']['learner']}, dict(base, ops=[]),
                              dict(why='perform_classification raised %r' % (r['learn_exc'],)))
            continue
        if m[1] != r['calc0']:
            differ('calc0', dict(impl=r['calc0'], model=m[1]), upto=-1)
            continue
        # ---- later calls
        okc = True
        for j, (ent, mo_) in enumerate(zip(r['ops'], m[2:])):
            if sx.is_err(mo_):
                differ('op', dict(step=j, model=str(mo_)), upto=j); okc = False; break
            obs, mcalc = mo_
            if ent.get('ambiguous'):
                chk.count('ambiguous:threshold')
                okc = False
                break
            if mcalc != ent['calc']:
                differ('bookkeeping', dict(step=j, op=ent['op'], impl=ent['calc'], model=mcalc), upto=j); okc = False; break
            if ent['op'] == 'evaluate':
                if ent['exc']:
                    if obs != [1]:
                        differ('evaluate', dict(step=j, impl='raises %r' % (ent['exc'],), model=str(obs)), upto=j); okc = False; break
                else:
                    if obs[0] != 0 or obs[1][:2] != ent['res'][:2] or not close_q(sx.rat(ent['res'][2]), sx.q(obs[1][2])):
                        differ('evaluate', dict(step=j, impl=ent['res'], model=str(obs)), upto=j); okc = False; break
                continue
            raised_m = obs[0] == 1
            if bool(ent['exc']) != raised_m:
                differ(ent['op'], dict(step=j, impl='raises %r' % (ent['exc'],) if ent['exc'] else 'returns', model='raises' if raised_m else 'returns'), upto=j)
                okc = False; break
            st2, path = c18.cmp_obs(ent['after'], obs[1])
            if st2 == 2:
                differ(ent['op'] + '/input-after', dict(step=j, path=path, impl=str(ent['after'])[:500], model=str(obs[1])[:500]), upto=j); okc = False; break
            if not raised_m:
                if obs[2] != ent['res_classes']:
                    differ(ent['op'] + '/classes', dict(step=j, impl=ent['res_classes'], model=obs[2], dens=str(ent.get('dens'))[:400]), upto=j); okc = False; break
                if ent['op'] == 'test' and (obs[3][:2] != ent['res'][:2] or not close_q(sx.rat(ent['res'][2]), sx.q(obs[3][2]))):
                    differ('test/summary', dict(step=j, impl=ent['res'], model=str(obs[3])), upto=j); okc = False; break
        nclassified = sum(len(e.get('res_classes') or []) for e in r['ops'])
        if nclassified >= 1 and len(c['X']) >= 8:
            keys.append((c['seed'], str(c['X'])[:200], str(c['ops'])[:400]))
        if len(samples) < 3 and nclassified >= 4 and c.get('kind') == 'random':
            samples.append(dict(n=len(c['X']), labels=c['labels'], cfg=c['cfg'], data_range=c.get('data_range'),
                                ops=[[o[0]] + ([len(o[1]), o[3]] if len(o) > 1 else []) for o in c['ops']],
                                classes=[e.get('res_classes') for e in r['ops']], summaries=[e.get('res') for e in r['ops']]))
    chk.record_cases(len(cases), keys,
                     'real learning runs on random 2-d lattice data (2..4 classes, 8..60 samples, unlabelled samples, labels 0..k-1 or not, '
                     'split 0.5..1.0 even/uneven, shuffle on/off, standard/dimension-wise/one-vs-others learners, optional user data range) followed by '
                     '1..6 __call__/test_data/evaluate calls with data inside/partly/entirely outside/on the edge/unlabelled/empty/pre-scaled; '
                     'non-trivial = at least one sample classified by a later call and >= 8 learning samples; distinct by (seed, data, calls)', samples)


def replay(chk, rep):
    c = rep['case']
    st, r = run_impl(impl_run, [c], limit=300)[0]
    print('impl status:', st)
    if st != 'ok':
        print(r)
        return 1
    bad = 0
    print('init:', {k: (str(v)[:200]) for k, v in r['init'].items()})
    for v in r['viol']:
        bad += 1
        print('   PROPERTY PREDICATE FAILS (learning):', v['kind'], v['sig'], v['why'])
    for j, ent in enumerate(r['ops']):
        print('call', j, ent['op'], 'raised %r' % (ent['exc'],) if ent.get('exc') else 'ok', 'classes', ent.get('res_classes'), 'summary', ent.get('res'),
              'calculated classes now', ent.get('calc'))
        for v in ent['viol']:
            bad += 1
            print('   PROPERTY PREDICATE FAILS:', v['kind'], v['sig'], v['why'])
    m = run_model(19, [(0, model_case(c, r, c18.get_variant() + get_cvariant()))])[0]
    print('model:', str(m)[:3000])
    print('property predicate:', 'violated' if bad else 'holds')
    return 1 if bad else 0
