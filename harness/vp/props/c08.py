"""C08: local tensor quadrature grids honour their exactness and point contracts.

Correspondence  Model/LocalGrids.v + Model/LocalRules.v  <->  sparseSpACE/Grid.py (+ Integrator.py, Hierarchization.py,
BasisFunctions.py):
  * trapezoidal (plain / modified basis) and Simpson grids: exact model of levelToNumPoints, 1D coordinates,
    1D weights, tensor points, tensor weights and integrate() of monomials (entry sub 0; sub 5 when the dimensions carry
    their own flag/family: Grid.set_boundaries, MixedGrid);
  * Clenshaw-Curtis, Leja, Gauss-Legendre: model of the announced counts / border slice (sub 2), of the AFFINE MAP that
    carries the family's reference rule to the sub-box (sub 4; theorems C08_*_map_exact: exactness is transported for
    every sub-box), of the Clenshaw-Curtis closed-form weights (sub 8) and of the interpolatory weights of the returned
    nodes (sub 6, small n); verified checkers moments_ok (sub 1: per dimension on the sub-box AND on the reference rule
    of the level) and nd_moments_ok (sub 3, tensor rule);
  * Lagrange, B-spline: counts (sub 2) and the checkers on the *effective nodal weights* read off integrate() with
    Kronecker functions;
  * every family: tensor points / weights / integrals = tensor product of the 1D arrays (sub 7).
Oracle: the property's own predicate evaluated with Fractions on the implementation outputs alone."""
import json
import os
from fractions import Fraction as F

from .. import sx
from ..impl import run_impl
from ..model import run_model
from . import _c08_gen

ASSUMPTIONS = [
    'isclose(start, a) / end == b are modelled as equality; generated boxes live on a dyadic lattice where they agree',
    'exact-arithmetic model (Qc); trapezoidal observables are bit-exact on dyadic boxes, Simpson (h/3) and integrals '
    'are compared with |impl-model| <= 256*eps*sum|terms|',
    'Clenshaw-Curtis / Leja / Gauss-Legendre: the reference rule of a level (numpy leggauss table, Leja points of the fmin '
    'search, cosines) is opaque and certified per explored level by moments_ok; the map to the sub-box is modelled and '
    'compared within 16 eps; Lagrange / B-spline rules are opaque and certified per explored case '
    '(relative tolerance 2^-40 resp. 2^-30 for LAPACK-based rules) on the floats returned by the implementation',
    'scope (DESIGN C08 G): weight-sum/degree clauses are evaluated where boundary points are present or the sub-box '
    'does not touch the global boundary (and for the modified bases, degree 1); count/inside/alignment for every flag',
    '"integral" of a monomial is the formal integral (e^(k+1)-s^(k+1))/(k+1)',
    'an empty rule (level 0, boundary off, sub-box = whole domain) is not passed to integrate(): Function.__call__ on an '
    'empty batch is the subject of C12',
    'every case is a history of 1..4 requests on ONE Grid object (plus one boundary=True twin object for the boundary-off '
    'clause, optionally a second object of the same class on another domain interleaved with the first); the model is a '
    'pure function of the request',
    'Lagrange family: the verified checker is evaluated up to the degree the hierarchical construction guarantees, '
    'min(p, level+1); the nominal min(p, n-1) is evaluated by the oracle (known finding for p >= 4)',
    'GaussLegendreGrid(normalize=True) divides the weights by the box length by design (C08_gauss_legendre_map_normalized): '
    'its weight-sum/degree clauses are evaluated against moments / volume',
    'excluded axes (raise or are unsupported on the unchanged tree): negative levels (TypeError in np.linspace), '
    'LagrangeGrid/BSplineGrid with modified_basis on sub-boxes and boundary=False (known findings), '
    'set_boundaries on Leja/Lagrange/B-spline/modified-basis grids, sub-boxes off the dyadic lattice (the boundary tests are tolerant: '
    '|x - bound| <= 1e-8 |b - a| since 1502b9c; the domains [2^34, 2^34+1] and [1, 1+2^-40], where the earlier math.isclose tests misfired on '
    'lattice boxes, are generated)',
    _c08_gen.ASSUMPTION,
]

EPS = F(1, 2 ** 53)
EQFAM = {'trap': 0, 'trapmod': 1, 'simpson': 2}
CNTFAM = {'trap': 0, 'trapmod': 0, 'simpson': 0, 'lagrange': 0, 'bspline': 0, 'bsplinemod': 0, 'cc': 0, 'leja': 2, 'gl': 3}
HIER = ('lagrange', 'bspline', 'bsplinemod')
AFFINE = {'gl': 0, 'leja': 1, 'cc': 2}
RTOL = {'cc': F(1, 2 ** 40), 'gl': F(1, 2 ** 40), 'leja': F(1, 2 ** 30), 'lagrange': F(1, 2 ** 30),
        'bspline': F(1, 2 ** 30), 'bsplinemod': F(1, 2 ** 30), 'trap': F(1, 2 ** 44), 'trapmod': F(1, 2 ** 44),
        'simpson': F(1, 2 ** 44), 'mixed': F(1, 2 ** 40)}
NPROC = int(os.environ.get('VERIF_NPROC', '0') or 0) or 16


def fr(x):
    return F(x) if isinstance(x, (str, int)) else sx.rat(x)


def fs(x):
    x = F(x)
    return str(x.numerator) if x.denominator == 1 else '%d/%d' % (x.numerator, x.denominator)


# ----------------------------------------------------------------------------------------------- per-dimension view
def dimfams(case):
    return list(case['mixed']) if case['fam'] == 'mixed' else [case['fam']] * len(case['lv'])


def dimbnds(case):
    """effective boundary flag per dimension at this step (constructor flag, MixedGrid 1D flags, set_boundaries)"""
    if case.get('bnds') is not None:
        return [bool(x) for x in case['bnds']]
    if case['fam'] == 'mixed':
        return [bool(x) for x in case['mbnd']]
    return [bool(case['bnd'])] * len(case['lv'])


def uniform(case):
    return case['fam'] != 'mixed' and len(set(dimbnds(case))) == 1 and dimbnds(case)[0] == bool(case['bnd'])


# ----------------------------------------------------------------------------------------------- implementation
def _cont(xs, ct):
    import numpy as np
    if ct == 'np':
        return np.array(xs)
    if ct == 'tuple':
        return tuple(xs)
    return list(xs)


def make_grid(case, bnd=None, dom=None, ab=None):
    """ab: prebuilt (a, b) argument objects (the SAME objects are then handed to several constructors)"""
    import sparseSpACE.Grid as G
    fam = case['fam']
    ct = case.get('ct', 'list')
    a0, b0 = (case['a'], case['b']) if dom is None else dom
    a = [float(F(x)) for x in a0]
    b = [float(F(x)) for x in b0]
    if ct == 'np':
        a, b = _cont(a, 'np'), _cont(b, 'np')
    if ab is not None:
        a, b = ab
    bnd = case['bnd'] if bnd is None else bnd
    kw = {}
    if case.get('integ'):
        kw['integrator'] = case['integ']
    if fam == 'trap':
        return G.TrapezoidalGrid(a, b, boundary=bnd, **kw)
    if fam == 'trapmod':
        return G.TrapezoidalGrid(a, b, boundary=bnd, modified_basis=True, **kw)
    if fam == 'simpson':
        return G.SimpsonGrid(a, b, boundary=bnd, **kw)
    if fam == 'cc':
        return G.ClenshawCurtisGrid(a, b, boundary=bnd, **kw)
    if fam == 'leja':
        return G.LejaGrid(a, b, boundary=bnd, **kw)
    if fam == 'gl':
        return G.GaussLegendreGrid(a, b, normalize=True) if case.get('norm') else G.GaussLegendreGrid(a, b)
    if fam == 'lagrange':
        return G.LagrangeGrid(a, b, boundary=bnd, p=case['p'])
    if fam == 'bspline':
        return G.BSplineGrid(a, b, boundary=bnd, p=case['p'])
    if fam == 'bsplinemod':
        return G.BSplineGrid(a, b, boundary=bnd, p=case['p'], modified_basis=True)
    if fam == 'mixed':
        grids = []
        flags = [True] * len(a) if bnd is True and case['bnd'] is not True else case['mbnd']
        for d, (f1, fl) in enumerate(zip(case['mixed'], flags)):
            if f1 == 'trap':
                grids.append(G.TrapezoidalGrid1D(a=a[d], b=b[d], boundary=bool(fl)))
            elif f1 == 'trapmod':
                grids.append(G.TrapezoidalGrid1D(a=a[d], b=b[d], boundary=False, modified_basis=True))
            elif f1 == 'simpson':
                grids.append(G.SimpsonGrid1D(a=a[d], b=b[d], boundary=bool(fl)))
            elif f1 == 'cc':
                grids.append(G.ClenshawCurtisGrid1D(a=a[d], b=b[d], boundary=bool(fl)))
            elif f1 == 'gl':
                grids.append(G.GaussLegendreGrid1D(a=a[d], b=b[d]))
            else:
                raise ValueError(f1)
        return G.MixedGrid(a, b, grids, **kw)
    raise ValueError(fam)


def _functions():
    import numpy as np
    from sparseSpACE.Function import Function

    class Mono(Function):
        def __init__(self, exps, m=1, scale=1.0):
            super().__init__()
            self.exps = exps
            self.m = m
            self.scale = scale

        def output_length(self):
            return self.m

        def eval(self, c):
            r = self.scale
            for x, k in zip(c, self.exps):
                r *= float(x) ** k
            if self.m == 1:
                return r
            return np.array([r * (j + 1) for j in range(self.m)])

    class Delta(Function):
        def __init__(self, pt):
            super().__init__()
            self.pt = tuple(float(x) for x in pt)

        def output_length(self):
            return 1

        def eval(self, c):
            return 1.0 if tuple(float(x) for x in c) == self.pt else 0.0

    return Mono, Delta


def _exc(e):
    import traceback
    from ..impl import REPO
    where = ''
    for frm in reversed(traceback.extract_tb(e.__traceback__)):
        if REPO in frm.filename:
            where = '%s:%s' % (os.path.relpath(frm.filename, REPO), frm.name)
            break
    return [type(e).__name__, where, str(e)[:160]]


_REF = {}


def ref_rule(fam, level):
    """reference rule of a level as the implementation produces it: Gauss-Legendre = numpy's leggauss table on [-1,1]
    (what GaussLegendreGrid1D calls), Leja = a fresh LejaGrid on [0,1], Clenshaw-Curtis = a fresh grid on [-1,1]"""
    key = (fam, level)
    if key in _REF:
        return _REF[key]
    import sparseSpACE.Grid as G
    if fam == 'gl':
        import numpy.polynomial.legendre as legendre
        c, w = legendre.leggauss(2 ** level + 1)
    elif fam == 'leja':
        g = G.LejaGrid([0.0], [1.0], boundary=True)
        g.setCurrentArea([0.0], [1.0], [level])
        c, w = g.get_coordinates_dim(0), g.weights[0]
    else:
        g = G.ClenshawCurtisGrid([-1.0], [1.0], boundary=True)
        g.setCurrentArea([-1.0], [1.0], [level])
        c, w = g.get_coordinates_dim(0), g.weights[0]
    _REF[key] = ([sx.rat(x) for x in c], [sx.rat(x) for x in w])
    return _REF[key]


SENTINEL = 12345.678


def _snap(objs):
    import copy
    return [copy.deepcopy(o) for o in objs]


def _same(x, y):
    import numpy as np
    if isinstance(x, np.ndarray) or isinstance(y, np.ndarray):
        return isinstance(x, np.ndarray) and isinstance(y, np.ndarray) and x.dtype == y.dtype and x.shape == y.shape \
            and np.array_equal(x, y)
    return type(x) == type(y) and x == y


def _state(g, lv):
    """what the grid currently answers (for the observer / aliasing axes); an exception is an answer as well"""
    try:
        pts, wts = g.get_points_and_weights()
        return ([tuple(float(x) for x in p) for p in pts], [float(w) for w in wts], [int(n) for n in g.levelToNumPoints(lv)],
                [[float(x) for x in g.get_coordinates_dim(d)] for d in range(len(lv))])
    except Exception as ex:
        return ('raises', type(ex).__name__)


def observe(case, bnd=None, want_integrals=True, grid=None, argbuf=None):
    """All observables of one grid on one sub-box; every stage records its own exception.
    grid: an existing Grid object that is REUSED for every call of this step (setCurrentArea, get_points_and_weights,
    integrate); None = a fresh object.
    argbuf: argument objects of the history that are REUSED (written in place) for every step: start / end are two views of
    one parent array, the level vector one int array (case['args'] == 'shared')."""
    import numpy as np
    Mono, Delta = _functions()
    out = {}
    ct = case.get('ct', 'list')
    s = [float(F(x)) for x in case['s']]
    e = [float(F(x)) for x in case['e']]
    lv0 = [int(l) for l in case['lv']]
    lv = _cont(lv0, ct)
    if ct == 'np':
        s, e = _cont(s, 'np'), _cont(e, 'np')
    if argbuf is not None:
        argbuf['box'][0, :] = s
        argbuf['box'][1, :] = e
        argbuf['lv'][:] = lv0
        s, e, lv = argbuf['s'], argbuf['e'], argbuf['lv']      # the SAME three objects in every call of the history
    pv = None
    if case.get('probe') is not None:
        pv = _cont([int(l) for l in case['probe']], ct)
    bl = [bool(x) for x in case['bnds']] if case.get('bnds') is not None else None
    names = ['start', 'end', 'levelvec', 'levelvec(announcement)', 'boundaries']
    args = [s, e, lv, pv, bl]
    snaps = _snap(args)
    mutated = []

    def check_args(stage):
        for nm, o, sn in zip(names, args, snaps):
            if o is not None and not _same(o, sn) and not any(m[1] == nm for m in mutated):
                mutated.append([stage, nm, str(sn)[:80], str(o)[:80]])
        if mutated:
            out['mutated'] = mutated
    g = grid
    if g is None:
        try:
            g = make_grid(case, bnd)
        except Exception as ex:
            out['exc'] = ['construct'] + _exc(ex)
            return out
    try:
        if case.get('setb') and bnd is None:
            g.set_boundaries(bl)
            check_args('set_boundaries')
        if case.get('none'):
            g.setCurrentArea(None, None, lv)
        else:
            g.setCurrentArea(s, e, lv)
        check_args('setCurrentArea')
    except Exception as ex:
        out['exc'] = ['setCurrentArea'] + _exc(ex)
        return out
    try:
        out['num'] = [int(n) for n in g.levelToNumPoints(lv)]
        out['numwb'] = [int(n) for n in g.levelToNumPointsWithBoundary(lv)]
        out['num_attr'] = [int(n) for n in g.numPoints]
        if pv is not None:
            out['num_probe'] = [int(n) for n in g.levelToNumPoints(pv)]
            out['numwb_probe'] = [int(n) for n in g.levelToNumPointsWithBoundary(pv)]
            # the announcement must not disturb the current area
            out['num_after_probe'] = [int(n) for n in g.levelToNumPoints(lv)]
        check_args('levelToNumPoints')
    except Exception as ex:
        out['exc'] = ['levelToNumPoints'] + _exc(ex)
        return out
    try:
        out['coords'] = [[sx.rat(x) for x in g.get_coordinates_dim(d)] for d in range(len(lv0))]
        out['w1'] = [[sx.rat(x) for x in g.weights[d]] for d in range(len(lv0))]
        pts, wts = g.get_points_and_weights()
        out['points'] = [[sx.rat(x) for x in p] for p in pts]
        out['weights'] = [sx.rat(w) for w in wts]
        out['get_num_points'] = int(g.get_num_points())
        try:      # internal state written by Grid1d.set_current_area (transcribed by hand in the model: eq_np, eq_borders)
            out['attrs'] = [[int(g1.num_points), int(g1.num_points_with_boundary), int(g1.lowerBorder), int(g1.upperBorder)]
                            for g1 in g.grids]
        except AttributeError:
            pass
        check_args('get_points_and_weights')
    except Exception as ex:
        out['exc'] = ['get_points_and_weights'] + _exc(ex)
        return out
    if not want_integrals or len(out['points']) == 0:
        # an empty rule is not integrated (Function.__call__ on an empty batch is the subject of C12)
        return out
    ints = []
    m = int(case.get('m', 1))
    fsc = int(case.get('fs', 0))       # the integrand is scaled by 2^fs; the result is scaled back exactly
    for exps in case.get('exps', []):
        try:
            v = np.ravel(g.integrate(Mono(exps, m, 2.0 ** fsc), lv, s, e))
            if len(v) != m:
                out['exc'] = ['integrate', 'ShapeError', 'Integrator', 'integrate returns %d components for an integrand with %d' % (len(v), m)]
                return out
            ints.append([sx.rat(float(x)) / F(2) ** fsc for x in v])
        except Exception as ex:
            out['exc'] = ['integrate'] + _exc(ex)
            return out
    out['integrals'] = ints
    check_args('integrate')
    if case['fam'] in HIER and case.get('effw', True) and len(out['points']) <= 90:
        # effective nodal weights of the hierarchical-basis integrator: integrate() is linear in the nodal values
        try:
            eff = []
            for p in pts:
                v = g.integrate(Delta(p), lv, s, e)
                eff.append(sx.rat(float(np.ravel(v)[0])))
            out['effw'] = eff
        except Exception as ex:
            out['exc'] = ['integrate'] + _exc(ex)
            return out
    if len(out['points']) > 3000 or not (case.get('observers') or case.get('alias')):
        return out
    # ---- public observer calls on the live object: the state must not change (axis e)
    try:
        before = _state(g, lv)
        if case.get('observers'):
            zero = [0] * len(lv0)
            obs = [('isNested', lambda: g.isNested()), ('is_high_order_grid', lambda: g.is_high_order_grid()),
                   ('is_global', lambda: g.is_global()), ('get_boundaries', lambda: g.get_boundaries()),
                   ('get_mid_point', lambda: g.get_mid_point(float(s[0]), float(e[0]), 0)),
                   ('levelToNumPointsWithBoundary', lambda: g.levelToNumPointsWithBoundary(lv)),
                   ('get_num_points', lambda: g.get_num_points()), ('getCoordinate', lambda: g.getCoordinate(zero)),
                   ('getWeight', lambda: g.getWeight(zero)), ('point_not_zero', lambda: g.point_not_zero(pts[0])),
                   ('points_not_zero', lambda: g.points_not_zero(np.array(pts, dtype=float))),
                   ('get_indexlist', lambda: g.get_indexlist()), ('getPoints', lambda: g.getPoints()),
                   ('get_weights', lambda: g.get_weights())]
            changed = []
            for nm, fn in obs:
                try:
                    fn()
                except Exception:
                    continue
                if _state(g, lv) != before:
                    changed.append(nm)
                    break
            if changed:
                out['observer_changed'] = changed
            check_args('observers')
        # ---- overwrite what getters returned with a sentinel: nothing the grid answers later may change (axis c)
        if case.get('alias') and 'observer_changed' not in out:
            getters = [('get_coordinates_dim', lambda: g.get_coordinates_dim(0)), ('get_coordinates', lambda: g.get_coordinates()),
                       ('get_weights', lambda: g.get_weights()), ('get_points_and_weights', lambda: g.get_points_and_weights()),
                       ('getPoints', lambda: g.getPoints()), ('levelToNumPoints', lambda: g.levelToNumPoints(lv)),
                       ('levelToNumPointsWithBoundary', lambda: g.levelToNumPointsWithBoundary(lv)),
                       ('get_boundaries', lambda: g.get_boundaries()), ('getCoordinate', lambda: g.getCoordinate([0] * len(lv0)))]

            def smash(r):
                if isinstance(r, np.ndarray):
                    try:
                        if r.dtype == object:
                            for x in r:
                                smash(x)
                        else:
                            r[...] = SENTINEL
                    except ValueError:
                        pass          # read-only: the caller cannot write
                elif isinstance(r, list):
                    for x in r:
                        smash(x)
                    r.clear()
                elif isinstance(r, tuple):
                    for x in r:
                        smash(x)
            aliased = []
            for nm, fn in getters:
                try:
                    smash(fn())
                except Exception:
                    continue
                if _state(g, lv) != before:
                    aliased.append(nm)
                    g.setCurrentArea(None, None, lv) if case.get('none') else g.setCurrentArea(s, e, lv)   # restore
            if aliased:
                out['alias'] = aliased
            check_args('getters')
    except Exception as ex:
        out['exc'] = ['observers'] + _exc(ex)
    return out


def caller_mutation(g, c, argbuf, ab):
    """lesson (j): after the step the CALLER writes into the objects it passed earlier (start / end views, level vector, the
    constructor's a / b arrays) WITHOUT passing them again; the grid must behave as if it had received values.  Returns the list of
    leaks; the caller's objects and the grid's area are restored afterwards."""
    import numpy as np
    lvc = [int(l) for l in c['lv']]
    s0 = [float(F(x)) for x in c['s']]
    e0 = [float(F(x)) for x in c['e']]
    a0 = [float(F(x)) for x in c['a']]
    b0 = [float(F(x)) for x in c['b']]
    leaks = []

    def answers():
        try:
            return (_state(g, lvc), [tuple(int(i) for i in ix) for ix in g.get_indexlist()] if int(g.get_num_points()) <= 3000 else None,
                    [bool(x) for x in g.get_boundaries()])
        except Exception as ex:
            return ('raises', type(ex).__name__)
    before = answers()
    argbuf['box'][...] += 7.0
    argbuf['lv'][:] += 1
    if answers() != before:
        leaks.append('area-arguments')
    argbuf['box'][0, :] = s0
    argbuf['box'][1, :] = e0
    argbuf['lv'][:] = lvc
    if isinstance(ab[0], np.ndarray):
        ab[0][...] -= 5.0
        ab[1][...] += 5.0
        try:
            g.setCurrentArea(None, None, lvc)      # the whole DOMAIN the grid was constructed with
            pts = g.getPoints()
            lo = [min(p[d] for p in pts) for d in range(len(lvc))] if pts else a0
            hi = [max(p[d] for p in pts) for d in range(len(lvc))] if pts else b0
            if any(l < x - 1e-9 * (y - x) for l, x, y in zip(lo, a0, b0)) or any(h > y + 1e-9 * (y - x) for h, x, y in zip(hi, a0, b0)):
                leaks.append('domain')
        except Exception as ex:
            leaks.append('domain:raises %s' % type(ex).__name__)
        ab[0][...] = a0
        ab[1][...] = b0
    try:
        g.setCurrentArea(argbuf['s'], argbuf['e'], argbuf['lv'])     # back to the area of this step
    except Exception:
        pass
    return leaks


def steps_of(hist):
    """flat per-step cases of a history (one Grid object, consecutive sub-boxes / level vectors); steps with obj=1
    run on the second object (same class and flags, domain a2/b2)"""
    base = {k: v for k, v in hist.items() if k != 'steps'}
    out = []
    for st in hist['steps']:
        c = dict(base, **st)
        if st.get('obj') == 1:
            c['a'], c['b'] = hist['a2'], hist['b2']
        out.append(c)
    return out


def impl_run(hist):
    """Runs the whole history on ONE grid object (and one boundary=True twin for the restriction clause; a second
    object on another domain when the history interleaves two objects)."""
    steps = steps_of(hist)
    res = []
    # prelude: requests on FRESH objects of sibling classes (classes sharing code / class-level state with the family under
    # test) in the same process, before the object under test exists; results are ignored
    for pre in hist.get('pre', []):
        try:
            pc = dict(fam=pre['fam'], bnd=pre['bnd'], a=hist['a'], b=hist['b'], s=pre['s'], e=pre['e'], lv=pre['lv'])
            if 'p' in pre:
                pc['p'] = pre['p']
            pg = make_grid(pc)
            pg.setCurrentArea([float(F(x)) for x in pc['s']], [float(F(x)) for x in pc['e']], [int(l) for l in pc['lv']])
            pg.get_points_and_weights()
        except Exception:
            pass
    import numpy as np
    g = [None, None]
    g_on = [None, None]
    cerr = None
    shared = hist.get('args') == 'shared'
    dim = len(hist['a'])
    argbuf = None
    if shared:
        box = np.zeros((2, dim))
        argbuf = dict(box=box, s=box[0], e=box[1], lv=np.zeros(dim, dtype=int))
    # constructor arguments: in shared mode the SAME a / b objects go to the object under test and to its boundary=True twin
    doms = [(hist['a'], hist['b'])] + ([(hist['a2'], hist['b2'])] if 'a2' in hist else [])
    abs_ = []
    for a0, b0 in doms:
        a = [float(F(x)) for x in a0]
        b = [float(F(x)) for x in b0]
        if steps[0].get('ct', 'list') == 'np':
            a, b = np.array(a), np.array(b)
        abs_.append((a, b))
    ab_snap = _snap(abs_)
    try:
        for k, dm in enumerate(doms):
            g[k] = make_grid(steps[0], dom=dm, ab=abs_[k])
    except Exception as ex:
        cerr = ['construct'] + _exc(ex)
    twin = ((not hist['bnd']) or any(st.get('bnds') is not None for st in hist['steps'])) \
        and hist['fam'] in ('trap', 'simpson', 'cc', 'mixed')
    if twin:
        try:
            for k, dm in enumerate(doms):
                g_on[k] = make_grid(steps[0], True, dom=dm, ab=abs_[k] if shared else None)
        except Exception:
            g_on = [None, None]
    for c in steps:
        if cerr is not None:
            res.append({'exc': cerr})
            continue
        k = c.get('obj', 0)
        out = observe(c, grid=g[k], argbuf=argbuf)
        if twin and g_on[k] is not None:
            out['on'] = observe(dict(c, observers=False, alias=False), bnd=True, want_integrals=False, grid=g_on[k], argbuf=argbuf)
        if shared and c.get('jmut') and 'coords' in out and 'exc' not in out and c['fam'] not in HIER:
            out['jleak'] = caller_mutation(g[k], c, argbuf, abs_[k])
        for (a, b), (sa, sb) in zip(abs_, ab_snap):      # the constructor's arguments belong to the caller as well
            if not _same(a, sa) or not _same(b, sb):
                out.setdefault('mutated', []).append(['history', 'a/b of the constructor', str((sa, sb))[:80], str((a, b))[:80]])
        if c.get('probe') is not None and 'exc' not in out:
            # oracle for the announcement at another level vector: what a FRESH object returns there
            try:
                fresh = make_grid(c, dom=(c['a'], c['b']))
                if c.get('bnds') is not None:
                    fresh.set_boundaries([bool(x) for x in c['bnds']])
                fresh.setCurrentArea([float(F(x)) for x in c['s']], [float(F(x)) for x in c['e']], [int(l) for l in c['probe']])
                out['probe_fresh'] = [len(fresh.get_coordinates_dim(d)) for d in range(len(c['lv']))]
            except Exception as ex:
                out['probe_fresh_exc'] = _exc(ex)
        if 'coords' in out:
            refs = []
            for f1, l in zip(dimfams(c), c['lv']):
                if f1 in AFFINE:
                    try:
                        refs.append(ref_rule(f1, int(l)))
                    except Exception as ex:
                        refs.append(None)
                else:
                    refs.append(None)
            out['refs'] = refs
        res.append(out)
    return res


# ----------------------------------------------------------------------------------------------- generator
DOMAINS = [('0', '1'), ('0', '1'), ('0', '1'), ('-1', '2'), ('-3', '6'), ('1/2', '5/2'), ('-2', '-1'), ('0', '4'), ('-1', '1'),
           ('1048576', '1048577'),                 # far from the origin, still outside the reach of math.isclose's relative tolerance
           ('0', '1/1073741824'),                  # tiny: [0, 2^-30]
           ('1073741824', '1073742848')]           # large and far: [2^30, 2^30 + 2^10]
# domains on which math.isclose(start, a) (relative to the coordinate) is true for lattice sub-boxes that do NOT touch (finding
# C08-isclose-relative-far-domain, repaired in /repo by 1502b9c: one domain-relative test): far [2^34, 2^34+1], tiny next to 1: [1, 1 + 2^-40]
MISFIRE_DOMAINS = [('17179869184', '17179869185'), ('1', '1099511627777/1099511627776')]
FAR_DOMAIN = MISFIRE_DOMAINS[0]


def misfire(case):
    """math.isclose(start, a) / isclose(end, b) (relative tolerance 1e-9 * |coordinate|) is true although the sub-box does not
    touch that side of the domain: the border logic then treats an interior sub-box as touching"""
    import math
    for a, b, s, e in zip(case['a'], case['b'], case['s'], case['e']):
        if (F(s) != F(a) and math.isclose(float(F(s)), float(F(a)))) or (F(e) != F(b) and math.isclose(float(F(e)), float(F(b)))):
            return True
    return False


def gen_box(rng, a, b, maxlevel, allow0):
    k = rng.choice([0, 1, 1, 2, 2, 3])
    n = 2 ** k
    r = rng.random()
    if r < 0.22:
        i, j = 0, n                      # whole domain
    elif r < 0.42:
        i, j = 0, rng.randrange(1, n + 1)    # touches the lower boundary
    elif r < 0.62:
        i, j = rng.randrange(0, n), n        # touches the upper boundary
    else:
        i = rng.randrange(0, n)
        j = rng.randrange(i + 1, n + 1)
    s = a + (b - a) * F(i, n)
    e = a + (b - a) * F(j, n)
    lo = 0 if (allow0 and rng.random() < 0.12) else 1
    l = rng.randrange(lo, maxlevel + 1)
    return s, e, l


def touch_class(case):
    t = []
    for a, b, s, e in zip(case['a'], case['b'], case['s'], case['e']):
        t.append(int(F(s) == F(a)) + int(F(e) == F(b)))
    return t


MAXLEVEL = {'trap': {1: 6, 2: 4, 3: 3}, 'trapmod': {1: 6, 2: 4, 3: 3}, 'simpson': {1: 6, 2: 4, 3: 3},
            'cc': {1: 4, 2: 3, 3: 2}, 'gl': {1: 4, 2: 3, 3: 2}, 'leja': {1: 4, 2: 3, 3: 2}}


def gen_case(rng, tier):
    """A history: one grid object (family, flag, domain, constructor options) and 1..4 consecutive
    (sub-box, level vector) requests, optionally with per-dimension flag changes, announcements at other level vectors,
    the None area, a second object of the same class on another domain."""
    fam = rng.choice(['trap', 'trap', 'trap', 'trapmod', 'trapmod', 'simpson', 'simpson', 'simpson', 'cc', 'cc',
                      'leja', 'gl', 'gl', 'lagrange', 'lagrange', 'bspline', 'bspline', 'bsplinemod', 'mixed', 'mixed'])
    thorough = tier != 'quick'
    dim = rng.choice([1, 1, 2, 2, 2, 3])
    p = None
    hist = {}
    if fam == 'mixed':
        dim = rng.choice([2, 2, 3])
        fams = [rng.choice(['trap', 'trap', 'trapmod', 'simpson', 'cc', 'gl']) for _ in range(dim)]
        mbnd = [False if f1 in ('trapmod', 'gl') else rng.random() < 0.5 for f1 in fams]
        hist.update(mixed=fams, mbnd=mbnd)
        bnd = all(mbnd)
        maxlevels = [min(MAXLEVEL[f1][dim], 3) for f1 in fams]
    elif fam in ('trap', 'trapmod', 'simpson'):
        ml = MAXLEVEL[fam][dim] + (1 if thorough and dim < 3 else 0)
        maxlevels = [ml] * dim
        bnd = False if fam == 'trapmod' else rng.random() < 0.45
    elif fam in ('cc', 'gl'):
        ml = MAXLEVEL[fam][dim]
        if fam == 'gl' and dim == 1 and not thorough:
            ml = 3          # 17 Gauss points = degree 33: exact moments of 53-bit floats get expensive
        maxlevels = [ml] * dim
        bnd = rng.random() < 0.7 if fam == 'cc' else False
        if fam == 'gl' and rng.random() < 0.2:
            hist['norm'] = True
    elif fam == 'leja':
        maxlevels = [MAXLEVEL[fam][dim]] * dim
        bnd = rng.random() < 0.75
    else:
        maxlevels = [{1: 4, 2: 3, 3: 1}[dim]] * dim
        if fam == 'lagrange':
            p = rng.choice([1, 2, 2, 3, 3, 3, 4, 5])
            bnd = rng.random() < 0.85
        elif fam == 'bspline':
            p = rng.choice([1, 3, 3, 5])
            bnd = rng.random() < 0.8
        else:
            p = rng.choice([1, 3])
            bnd = False
    doms = [tuple(F(x) for x in rng.choice(DOMAINS)) for _ in range(dim)]
    if fam in ('trap', 'trapmod', 'simpson', 'cc') and rng.random() < 0.04:
        doms[rng.randrange(dim)] = tuple(F(x) for x in rng.choice(MISFIRE_DOMAINS))
    hist.update(fam=fam, bnd=bool(bnd), a=[fs(d[0]) for d in doms], b=[fs(d[1]) for d in doms])
    if p is not None:
        hist['p'] = p
    # ---- constructor options / call conventions
    if fam in ('trap', 'trapmod', 'simpson', 'cc', 'leja', 'mixed') and rng.random() < 0.3:
        hist['integ'] = 'old'
    r = rng.random()
    if r < 0.2:
        hist['ct'] = 'np'
    elif r < 0.35:
        hist['ct'] = 'tuple'
    if rng.random() < 0.3:
        hist['m'] = rng.choice([2, 3])
    if rng.random() < 0.3:
        hist['args'] = 'shared'      # the same argument objects (views of one parent array) for every call of the history
        hist['ct'] = 'np'
    if rng.random() < 0.45:
        hist['observers'] = True
    if rng.random() < 0.35:
        hist['alias'] = True
    two = fam not in HIER and fam != 'leja' and rng.random() < 0.25
    doms2 = doms
    if two:
        doms2 = [tuple(F(x) for x in rng.choice([d for d in DOMAINS if tuple(F(y) for y in d) != dm])) for dm in doms]
        hist.update(a2=[fs(d[0]) for d in doms2], b2=[fs(d[1]) for d in doms2])
    nsteps = rng.choice([1, 1, 2, 2, 3, 3, 4]) if fam != 'leja' else rng.choice([1, 2, 2, 3])
    if two:
        nsteps = max(nsteps, 3)
    steps = []
    toggles = fam in ('trap', 'simpson', 'cc') and dim >= 1 and rng.random() < 0.35
    flags = [None, None]     # running per-dimension flags of the two objects (None = never changed)
    for k in range(nsteps):
        obj = rng.randrange(2) if two else 0
        dd = doms2 if obj == 1 else doms
        allow0 = [f1 in ('trap', 'trapmod', 'simpson', 'cc', 'gl') for f1 in (hist.get('mixed') or [fam] * dim)]
        bx = [gen_box(rng, a, b, ml, a0) for (a, b), ml, a0 in zip(dd, maxlevels, allow0)]
        st = dict(s=[fs(x[0]) for x in bx], e=[fs(x[1]) for x in bx], lv=[x[2] for x in bx])
        if two:
            st['obj'] = obj
        if toggles and (rng.random() < 0.6 or flags[obj] is not None):
            if rng.random() < 0.6 or flags[obj] is None:
                flags[obj] = [rng.random() < 0.5 for _ in range(dim)]
                st['setb'] = True
            st['bnds'] = list(flags[obj])
        if rng.random() < 0.12 and fam not in HIER:
            st['none'] = True
            st['s'], st['e'] = [fs(d[0]) for d in dd], [fs(d[1]) for d in dd]
        if hist.get('args') == 'shared' and rng.random() < 0.6:
            st['jmut'] = True      # afterwards the caller writes into the objects it passed (lesson (j))
        if rng.random() < 0.3:
            st['fs'] = rng.choice([-60, -20, 30])     # magnitude of the integrand
        if rng.random() < 0.25:
            st['m'] = rng.choice([1, 2, 3])           # every call draws its own integrand shape
        if rng.random() < 0.45 and fam not in HIER and fam != 'leja':
            st['probe'] = [rng.randrange(0 if a0 else 1, ml + 2) for ml, a0 in zip(maxlevels, allow0)]
        st['exps'] = gen_exps(rng, dict(hist, **st))
        steps.append(st)
    hist['steps'] = steps
    sib = SIBLINGS.get(fam)
    if sib and rng.random() < 0.3:
        # the same first request (and one more) on fresh objects of sibling classes first
        pre = []
        for k in range(rng.choice([1, 2])):
            f2 = rng.choice(sib)
            st = steps[min(k, len(steps) - 1)]
            if st.get('obj') == 1:
                continue
            pe = dict(fam=f2, bnd=False if f2 in ('trapmod', 'bsplinemod') else bool(bnd), s=st['s'], e=st['e'], lv=st['lv'])
            if f2 in ('lagrange', 'bspline', 'bsplinemod'):
                pe['p'] = 3 if f2 != 'lagrange' else rng.choice([2, 3])
            pre.append(pe)
        if pre:
            hist['pre'] = pre
    return hist


SIBLINGS = {'trap': ['simpson', 'trapmod'], 'simpson': ['trap', 'trapmod'], 'trapmod': ['trap', 'simpson'],
            'lagrange': ['bspline'], 'bspline': ['lagrange', 'bsplinemod'], 'cc': ['trap', 'gl'], 'gl': ['cc'], 'leja': ['gl']}


def big_cases(rng):
    """sizes beyond typical internal thresholds (64, 200, 1024 points per dimension): fixed families / level vectors; every
    history visits a sub-box touching neither side, one touching the lower and one touching the upper side of the domain
    in every dimension (random order, random position), the trapezoidal / Simpson ones at full size in every step"""
    out = []

    def box(a, b, kind):
        a, b = F(a), F(b)
        n = 8
        if kind == 0:
            i = rng.randrange(1, n - 1)
            j = rng.randrange(i + 1, n)
        elif kind == 1:
            i, j = 0, rng.randrange(1, n)
        else:
            i, j = rng.randrange(1, n), n
        return fs(a + (b - a) * F(i, n)), fs(a + (b - a) * F(j, n))
    for fam, bnd, lvs in (('trap', True, [11]), ('trap', False, [10]), ('trap', False, [11]), ('trapmod', False, [11]),
                          ('simpson', True, [10]), ('simpson', False, [11]), ('trap', False, [7, 5]), ('simpson', True, [6, 6]),
                          ('trapmod', False, [8, 3]), ('trap', True, [5, 4, 4]), ('cc', True, [6]), ('cc', False, [7]),
                          ('gl', False, [6]), ('cc', True, [5, 4]), ('gl', False, [5, 3]), ('leja', True, [6]),
                          ('mixed', False, [8, 6])):
        dim = len(lvs)
        dom = [rng.choice(DOMAINS) for _ in range(dim)]
        h = dict(fam=fam, bnd=bnd, a=[d[0] for d in dom], b=[d[1] for d in dom])
        if fam == 'mixed':
            h.update(mixed=['trap', 'cc'], mbnd=[False, True])
        if rng.random() < 0.3 and fam != 'gl':
            h['integ'] = 'old'
        steps = []
        kinds = [0, 1, 2]
        rng.shuffle(kinds)
        for k, kind in enumerate(kinds):
            bx = [box(d[0], d[1], (kind + i) % 3) for i, d in enumerate(dom)]
            full = fam in EQFAM or k == 0
            lv = list(lvs) if full else [max(1, l - rng.randrange(1, 3)) for l in lvs]
            st = dict(s=[x[0] for x in bx], e=[x[1] for x in bx], lv=lv)
            degs = nominal_degrees(dict(h, **st), npwb_of(dict(h, **st)))
            st['exps'] = [[0] * dim, [min(k2, 3) for k2 in degs]]
            if fam not in ('leja',):
                st['probe'] = [max(1, l - 1) for l in lv]
            steps.append(st)
        h['steps'] = steps
        out.append(h)
    return out


GATE_SCOPE = {'sparseSpACE/Grid.py': ['Grid', 'Grid1d', 'MixedGrid', 'BasisGrid', 'TrapezoidalGrid', 'TrapezoidalGrid1D', 'SimpsonGrid',
                                        'SimpsonGrid1D', 'ClenshawCurtisGrid', 'ClenshawCurtisGrid1D', 'LejaGrid', 'LejaGrid1D', 'GaussGrid',
                                        'GaussGrid1D', 'GaussLegendreGrid', 'GaussLegendreGrid1D', 'LagrangeGrid', 'LagrangeGrid1D',
                                        'BSplineGrid', 'BSplineGrid1D'],
              'sparseSpACE/Integrator.py': ['IntegratorBase', 'IntegratorArbitraryGrid', 'IntegratorArbitraryGridScalarProduct',
                                              'IntegratorHierarchicalBasisFunctions'],
              'sparseSpACE/Utils.py': None}


def gate_cases(rng):
    """lesson (k): numeric size gates are read at run time from the source UNDER TEST (scan_gates of props/c02.py with the C08 code
    path); one oracle-only history just beyond every gate 64 < g <= 2^17 (1D trapezoidal boundary-off and Simpson rules with 2^l + 1 > g
    points, interior / touching sub-boxes), plus one fixed case larger than anything run before (2^17 + 1 points)."""
    from . import c02 as _c02
    old = _c02.GATE_SCOPE
    try:
        _c02.GATE_SCOPE = GATE_SCOPE
        gates = _c02.scan_gates()
    finally:
        _c02.GATE_SCOPE = old
    levels = {}
    for g_, where in sorted(gates.items()):
        l = max(7, (g_ - 1).bit_length())          # 2^l + 1 > g
        if l <= 17:
            levels.setdefault(l, []).append('%d (%s)' % (g_, where))
    levels.setdefault(17, []).append('fixed: larger than any earlier case')
    out = []
    for l in sorted(levels):
        for fam, bnd in (('trap', False), ('simpson', True)) if l < 17 else (('trap', False),):
            dom = rng.choice(DOMAINS[:9])
            a, b = F(dom[0]), F(dom[1])
            steps = []
            for (i, j) in ((1, 3), (0, 2)) if l < 15 else ((1, 3),):
                st = dict(s=[fs(a + (b - a) * F(i, 4))], e=[fs(a + (b - a) * F(j, 4))], lv=[l], exps=[[0], [1]])
                steps.append(st)
            out.append(dict(fam=fam, bnd=bnd, a=[dom[0]], b=[dom[1]], oo=True, gates=levels[l], steps=steps))
    return out, gates


def nominal_degrees(case, npwb, guaranteed=False):
    """nominal exactness degree per dimension, n = number of points per dimension incl. boundary points.
    guaranteed=True: for the Lagrange family the degree the hierarchical construction can deliver, min(p, level+1)
    (level-l basis functions interpolate on at most l+2 knots) - below the nominal min(p, n-1) for p >= 4."""
    out = []
    for fam, n, l in zip(dimfams(case), npwb, case['lv']):
        if fam in ('trap', 'trapmod'):
            out.append(1)
        elif fam == 'simpson':
            out.append(3 if n >= 3 else 1)
        elif fam in ('cc', 'leja'):
            out.append(n - 1)
        elif fam == 'gl':
            out.append(2 * n - 1)
        elif fam == 'bsplinemod':
            out.append(1)
        elif fam == 'lagrange' and guaranteed:
            out.append(min(case['p'], l + 1))
        else:
            out.append(min(case['p'], n - 1))
    return out


def npwb_of(case):
    return [(2 if l == 0 else 2 * (l + 1) - 1) if f1 == 'leja' else 2 ** l + 1 for f1, l in zip(dimfams(case), case['lv'])]


def meaningful(case):
    """per dimension: is the weight-sum/degree clause evaluated (scope decision G)?"""
    out = []
    for f1, bd, t, l in zip(dimfams(case), dimbnds(case), touch_class(case), case['lv']):
        if f1 in ('trapmod', 'bsplinemod'):
            # a modified basis needs at least one point to extrapolate from
            out.append(not (t == 2 and l == 0) if not bd else True)
        elif bd or f1 == 'gl':
            out.append(True)
        else:
            out.append(t == 0)
    return out


def gen_exps(rng, case):
    degs = nominal_degrees(case, npwb_of(case))
    d = len(degs)
    out = [[0] * d, list(degs)]
    for _ in range(3):
        out.append([rng.randrange(0, k + 1) for k in degs])
    res = []
    cap = 12 if d == 1 else 6     # the per-dimension checker moments_ok covers every degree; these probe the tensor rule
    for x in out:
        x = [min(k, cap) for k in x]
        if x not in res:
            res.append(x)
    return res


def H(fam, bnd, a, b, steps, p=None, **kw):
    h = dict(fam=fam, bnd=bnd, a=a, b=b, steps=[dict(s=s, e=e, lv=lv, exps=exps) for s, e, lv, exps in steps])
    if p is not None:
        h['p'] = p
    extra = kw.pop('steps_extra', None)
    h.update(kw)
    if extra:
        for st, x in zip(h['steps'], extra):
            st.update(x)
    return h


CORPUS = [
    # exemplars of the known findings (kept first)
    H('simpson', False, ['0'], ['1'], [(['0'], ['1/2'], [2], [[0], [3]])]),
    H('simpson', False, ['0', '0'], ['1', '1'], [(['1/4', '0'], ['1/2', '1'], [2, 1], [[0, 0], [3, 3]])]),
    H('cc', False, ['0'], ['1'], [(['0'], ['1'], [2], [[0]])]),
    H('cc', False, ['-1'], ['2'], [(['0'], ['1'], [2], [[0], [2]])]),
    H('leja', False, ['0'], ['1'], [(['1/2'], ['1'], [2], [[0]])]),
    H('leja', False, ['0'], ['1'], [(['0'], ['1/2'], [1], [[0]])]),
    H('lagrange', False, ['0'], ['1'], [(['0'], ['1'], [2], [[0]])], p=2),
    H('lagrange', False, ['0'], ['1'], [(['1/4'], ['1/2'], [2], [[0]])], p=2),
    H('bspline', False, ['0'], ['1'], [(['1/4'], ['1/2'], [2], [[0]])], p=3),
    H('bsplinemod', False, ['-3'], ['6'], [(['3/2'], ['21/8'], [2], [[0]])], p=3),
    H('bsplinemod', False, ['0'], ['4'], [(['1'], ['4'], [4], [[0]])], p=1),
    H('trap', False, ['0'], ['1'], [(['0'], ['1/2'], [0], [[0], [1]])]),
    H('simpson', False, ['0'], ['1'], [(['1/2'], ['1'], [0], [[0], [1]])]),
    H('lagrange', True, ['0'], ['4'], [(['1'], ['4'], [2], [[0], [4]])], p=5),
    H('trap', False, [FAR_DOMAIN[0]], [FAR_DOMAIN[1]], [(['34359738369/2'], ['68719476739/4'], [2], [[0], [1]])]),
    H('trap', True, ['0'], ['1'], [(['1/4'], ['1/2'], [2], [[0], [1]])], alias=True),
    H('trap', False, ['0', '0'], ['1', '1'], [(['1/4', '0'], ['1/2', '1'], [2, 1], [[0, 0], [1, 1]])], args='shared', ct='np',
      steps_extra=[dict(jmut=True)]),
    # regression histories that must agree: one object swept over several sub-boxes / level vectors
    H('trap', False, ['0'], ['1'], [(['0'], ['1/2'], [2], [[0], [1]]), (['1/4'], ['1/2'], [2], [[0], [1]]),
                                    (['1/2'], ['1'], [3], [[0], [1]]), (['0'], ['1'], [1], [[0], [1]])]),
    H('trapmod', False, ['0', '-1'], ['1', '2'], [(['0', '1/2'], ['1', '2'], [2, 3], [[0, 0], [1, 1]]),
                                                  (['1/4', '-1'], ['1/2', '1/2'], [3, 1], [[0, 0], [1, 1]]),
                                                  (['0', '-1'], ['1', '2'], [1, 2], [[0, 0], [1, 1]])]),
    H('trap', True, ['-3', '0'], ['6', '1'], [(['-3/4', '1/2'], ['3/2', '1'], [3, 1], [[0, 0], [1, 1]]),
                                              (['-3', '0'], ['6', '1'], [1, 2], [[0, 0], [1, 1]])]),
    H('trap', False, ['0', '0', '0'], ['1', '1', '1'], [(['0', '1/2', '1/4'], ['1', '1', '1/2'], [2, 1, 2], [[0, 0, 0], [1, 1, 1]]),
                                                        (['1/2', '0', '0'], ['1', '1/2', '1'], [1, 2, 1], [[0, 0, 0], [1, 1, 1]])]),
    H('simpson', True, ['0', '0'], ['1', '1'], [(['1/4', '0'], ['1/2', '1'], [2, 1], [[0, 0], [3, 3], [2, 3]]),
                                                (['0', '1/2'], ['1', '1'], [1, 3], [[0, 0], [3, 3]])]),
    H('cc', True, ['0'], ['4'], [(['0'], ['1'], [3], [[0], [8]]), (['1'], ['3'], [2], [[0], [4]])]),
    H('gl', False, ['0'], ['4'], [(['1'], ['3'], [2], [[0], [9]]), (['0'], ['4'], [1], [[0], [5]])]),
    H('lagrange', True, ['0', '0'], ['1', '1'], [(['0', '1/2'], ['1/2', '1'], [2, 1], [[0, 0], [3, 2]]),
                                                 (['1/2', '0'], ['1', '1'], [1, 2], [[0, 0], [2, 3]])], p=3),
    H('bspline', True, ['-1'], ['1'], [(['-1/2'], ['0'], [3], [[0], [3]]), (['-1'], ['1'], [2], [[0], [3]])], p=3),
    # round 2: constructor options, call conventions, per-dimension flags, announcements at other level vectors,
    # two objects of one class, mixed 1D families
    H('trap', False, ['0', '0'], ['1', '1'], [(['1/4', '0'], ['1/2', '1'], [2, 1], [[0, 0], [1, 1]]),
                                              (['0', '0'], ['1/2', '1'], [2, 2], [[0, 0], [1, 1]])],
      integ='old', m=3, steps_extra=[dict(probe=[3, 4]), dict(probe=[1, 0])]),
    H('simpson', False, ['0', '0'], ['1', '1'], [(['0', '0'], ['1/2', '1'], [2, 1], [[0, 0], [1, 1]]),
                                                 (['0', '0'], ['1/2', '1'], [2, 1], [[0, 0], [3, 1]]),
                                                 (['1/2', '0'], ['1', '1/2'], [2, 2], [[0, 0], [1, 1]])],
      steps_extra=[dict(), dict(setb=True, bnds=[True, False]), dict(bnds=[True, False], probe=[3, 1])]),
    H('trap', False, ['0'], ['1'], [(['0'], ['1/2'], [2], [[0], [1]]), (['0'], ['1'], [2], [[0], [1]]),
                                    (['1/4'], ['1/2'], [2], [[0], [1]]), (['1/2'], ['2'], [2], [[0], [1]])],
      a2=['0'], b2=['2'], ct='np', steps_extra=[dict(obj=0), dict(obj=1), dict(obj=0), dict(obj=1)]),
    H('gl', False, ['0', '-1'], ['4', '1'], [(['1', '-1'], ['3', '0'], [1, 2], [[0, 0], [5, 9]]),
                                             (['0', '-1'], ['4', '1'], [2, 0], [[0, 0], [3, 3]])], norm=True,
      steps_extra=[dict(), dict(none=True)]),
    H('mixed', False, ['0', '0', '-1'], ['1', '1', '2'], [(['0', '1/2', '1/2'], ['1/2', '1', '2'], [2, 1, 2], [[0, 0, 0], [1, 3, 2]]),
                                                          (['1/4', '0', '-1'], ['1/2', '1', '2'], [1, 2, 1], [[0, 0, 0], [1, 5, 2]])],
      mixed=['trap', 'gl', 'cc'], mbnd=[False, False, True]),
    H('cc', True, ['-1'], ['2'], [(['-1'], ['1/2'], [1], [[0], [2]]), (['1/2'], ['2'], [2], [[0], [4]])], integ='old', ct='tuple'),
    H('leja', True, ['0'], ['4'], [(['1'], ['3'], [2], [[0], [4]]), (['0'], ['4'], [1], [[0], [2]])], integ='old'),
    # lessons sweep: the same argument objects for every call, observer calls between, magnitudes
    H('simpson', False, ['0', '-1'], ['1', '2'], [(['0', '1/2'], ['1/2', '2'], [2, 3], [[0, 0], [3, 3]]),
                                                  (['1/4', '-1'], ['1/2', '1/2'], [3, 1], [[0, 0], [3, 1]]),
                                                  (['0', '-1'], ['1', '2'], [1, 2], [[0, 0], [1, 1]])],
      args='shared', ct='np', observers=True, steps_extra=[dict(fs=-60), dict(fs=30, m=2, probe=[4, 2]), dict()]),
    H('cc', True, ['0'], ['1/1073741824'], [(['1/4294967296'], ['1/2147483648'], [3], [[0], [8]]),
                                            (['0'], ['1/1073741824'], [2], [[0], [4]])], observers=True, steps_extra=[dict(fs=30), dict()]),
    H('gl', False, ['1073741824', '0'], ['1073742848', '1'], [(['1073741952', '1/2'], ['1073742336', '1'], [1, 2], [[0, 0], [3, 5]])],
      args='shared', ct='np'),
    H('simpson', True, ['0', '-1'], ['1', '2'], [(['1/4', '-1'], ['1/2', '1/2'], [3, 2], [[0, 0], [3, 3]])],
      pre=[dict(fam='trap', bnd=True, s=['1/4', '-1'], e=['1/2', '1/2'], lv=[3, 2])]),
]


# ----------------------------------------------------------------------------------------------- oracle
def exact_moment(exps, case):
    r = F(1)
    for k, s, e in zip(exps, case['s'], case['e']):
        s, e = F(s), F(e)
        r *= (e ** (k + 1) - s ** (k + 1)) / (k + 1)
    return r


def norm_factor(case):
    """GaussLegendreGrid(normalize=True): every 1D rule is divided by the length of its interval"""
    if not case.get('norm'):
        return F(1)
    r = F(1)
    for s, e in zip(case['s'], case['e']):
        r *= F(e) - F(s)
    return r


def rule_moment(exps, pts, wts):
    tot = F(0)
    atot = F(0)
    for p, w in zip(pts, wts):
        t = w
        for x, k in zip(p, exps):
            t *= x ** k
        tot += t
        atot += abs(t)
    return tot, atot


def first_component(case, v, scale=None, npts=0):
    """integral of the vector-valued integrand (r, 2r, .., m r): component 0 after checking the others
    (scale = sum of |weight * value| of the rule: the components are rounded sums)"""
    m = int(case.get('m', 1))
    if len(v) != m:
        return None
    for j in range(1, m):
        sc = max(abs(v[j]), abs(v[0]) * (j + 1)) if scale is None else scale * (j + 1)
        if abs(v[j] - (j + 1) * v[0]) > (256 + 2 * npts) * EPS * sc:
            return None
    return v[0]


def oracle(case, r):
    """The property's own predicate on the implementation outputs. Returns list of (kind, sig_extra, text);
    only the first (root) failure of a case is reported."""
    fam = case['fam']
    if 'exc' in r and r['exc'][0] != 'integrate':
        return [('exception', dict(stage=r['exc'][0], exc=r['exc'][1]), 'raises %s' % r['exc'])]
    num = r['num']
    coords, w1, pts, wts = r['coords'], r['w1'], r['points'], r['weights']
    ann = 1
    for n in num:
        ann *= n
    for d, n in enumerate(num):
        if len(coords[d]) != n:
            return [('count-mismatch', {}, 'dimension %d: levelToNumPoints announces %d points, coordinate array has %d'
                     % (d, n, len(coords[d])))]
    if len(pts) != ann:
        return [('count-mismatch', {}, 'levelToNumPoints announces %d points, getPoints returns %d' % (ann, len(pts)))]
    if r.get('num_attr') is not None and (list(r['num_attr']) != list(num) or r.get('get_num_points') != ann):
        return [('count-mismatch', dict(observable='numPoints'), 'grid.numPoints = %s, get_num_points() = %s, levelToNumPoints = %s'
                 % (r['num_attr'], r.get('get_num_points'), num))]
    if 'num_after_probe' in r and list(r['num_after_probe']) != list(num):
        return [('count-mismatch', dict(observable='announcement-after-probe'),
                 'levelToNumPoints(levelvec) = %s before and %s after announcing another level vector' % (num, r['num_after_probe']))]
    if 'probe_fresh' in r and 'num_probe' in r and list(r['probe_fresh']) != list(r['num_probe']):
        return [('count-mismatch', dict(observable='announcement-other-levelvec'),
                 'levelToNumPoints(%s) announces %s on the current area; a grid set to that level vector returns %s points per dimension'
                 % (case['probe'], r['num_probe'], r['probe_fresh']))]
    for d in range(len(num)):
        if len(w1[d]) != len(coords[d]):
            return [('points-weights-length-mismatch', {}, 'dimension %d: %d coordinates but %d weights'
                     % (d, len(coords[d]), len(w1[d])))]
    if len(wts) != len(pts):
        return [('points-weights-length-mismatch', {}, '%d points but %d weights' % (len(pts), len(wts)))]
    for p in pts:
        for d, x in enumerate(p):
            if not (F(case['s'][d]) <= x <= F(case['e'][d])):
                return [('outside-box', {}, 'point %s lies outside the sub-box in dimension %d' % ([float(v) for v in p], d))]
    if 'exc' in r:
        return [('exception', dict(stage=r['exc'][0], exc=r['exc'][1]), 'raises %s' % r['exc'])]
    # boundary-off clause (trapezoidal; alignment clause for Simpson / Clenshaw-Curtis): off = on restricted
    if 'on' in r and 'exc' not in r['on']:
        on = r['on']
        a = [F(x) for x in case['a']]
        b = [F(x) for x in case['b']]
        for d, (f1, bd) in enumerate(zip(dimfams(case), dimbnds(case))):
            if f1 not in ('trap', 'simpson', 'cc'):
                continue
            if bd:
                keep = list(zip(on['coords'][d], on['w1'][d]))
            else:
                keep = [(x, w) for x, w in zip(on['coords'][d], on['w1'][d]) if x != a[d] and x != b[d]]
            got = list(zip(coords[d], w1[d]))
            if keep != got:
                lvl0 = case['lv'][d] == 0 and touch_class(case)[d] == 1 and not bd
                return [('boundary-off-not-restriction', dict(level0_onesided=lvl0, family=f1, boundary=bool(bd)),
                         'dimension %d (flag %s): grid returns %s, boundary=True %s is %s'
                         % (d, bd, [(float(x), float(w)) for x, w in got][:6],
                            'itself' if bd else 'without the global boundary points', [(float(x), float(w)) for x, w in keep][:6]))]
    # weight sum / nominal degree where meaningful
    mean = meaningful(case)
    degs = nominal_degrees(case, npwb_of(case))
    gdegs = nominal_degrees(case, npwb_of(case), guaranteed=True)
    rtol = RTOL[fam]
    use_w = r.get('effw') if fam in HIER else wts
    nf = norm_factor(case)

    def kind_for(exps):
        if all(k <= g for k, g in zip(exps, gdegs)):
            return 'moment-residual'
        return 'moment-residual-above-hierarchical-degree'

    res = []
    if all(mean) and use_w is not None:
        for exps in [[0] * len(num)] + [x for x in case.get('exps', []) if all(k <= dg for k, dg in zip(x, degs))]:
            tot, atot = rule_moment(exps, pts, use_w)
            ex = exact_moment(exps, case) / nf
            if abs(tot - ex) > rtol * atot:
                what = 'weights sum to %s, box volume is %s' % (float(tot), float(ex)) if not any(exps) else \
                    'monomial with exponents %s: rule gives %.17g, exact %.17g' % (exps, float(tot), float(ex))
                res.append((kind_for(exps), dict(degree0=not any(exps)), what))
    if 'integrals' in r:
        for exps, vv in zip(case.get('exps', []), r['integrals']):
            # integrate() is the scalar product of the rule with the function values (whatever the rule's quality)
            tot, atot = rule_moment(exps, pts, use_w or wts)
            v = first_component(case, vv, atot, len(pts))
            if v is None:
                res.append(('integrate-components', {}, 'integrate() of (r, 2r, ..) with exponents %s returns %s' % (exps, [float(x) for x in vv])))
                continue
            if fam not in HIER and abs(v - tot) > (256 + 2 * len(pts)) * EPS * atot:
                res.append(('integrate-not-rule', {}, 'integrate() of the monomial with exponents %s returns %.17g, the rule applied to it gives %.17g'
                            % (exps, float(v), float(tot))))
            if all(mean) and all(k <= dg for k, dg in zip(exps, degs)):
                ex = exact_moment(exps, case) / nf
                _, atot = rule_moment(exps, pts, [abs(w) for w in (use_w or wts)])
                if abs(v - ex) > max(rtol, F(1, 2 ** 36)) * max(atot, abs(ex)):
                    res.append((kind_for(exps), dict(degree0=not any(exps)),
                                'integrate() of the monomial with exponents %s returns %.17g, exact %.17g' % (exps, float(v), float(ex))))
    # a failure within the guaranteed degree is the root failure
    res.sort(key=lambda x: x[0] != 'moment-residual')
    if not res:
        res = hygiene(r)
    return res[:1]


def hygiene(r):
    """lessons (a), (c), (e): the library must not modify the caller's argument objects, must not hand out its internal state,
    and public observer calls must not change what the grid answers"""
    if r.get('mutated'):
        st, nm, before, after = r['mutated'][0]
        return [('argument-mutated', dict(argument=nm, stage=st), 'argument object %s was modified by the library during %s: %s -> %s'
                 % (nm, st, before, after))]
    if r.get('on') and r['on'].get('mutated'):
        st, nm, before, after = r['on']['mutated'][0]
        return [('argument-mutated', dict(argument=nm, stage=st), 'argument object %s was modified by the library during %s: %s -> %s'
                 % (nm, st, before, after))]
    if r.get('jleak'):
        return [('caller-mutation-visible', dict(what='+'.join(sorted(r['jleak']))),
                 'after the caller wrote into objects it had passed EARLIER (without passing them again) the grid answers differently: %s'
                 % ', '.join(r['jleak']))]
    if r.get('observer_changed'):
        return [('observer-changes-state', dict(observer=r['observer_changed'][0]),
                 'points / weights / counts answered by the grid differ after the public call %s()' % r['observer_changed'][0])]
    if r.get('alias'):
        return [('result-aliases-internal-state', dict(getters='+'.join(sorted(r['alias']))),
                 'after overwriting what %s returned, the grid answers other points / weights / counts (without a new setCurrentArea)'
                 % ', '.join(r['alias']))]
    return []


# ----------------------------------------------------------------------------------------------- comparison
def sum_factor(npts):
    """rounding of a float sum of npts terms (sequential summation in the 'old' integrator): 256 + 2 * npts ulps of sum|terms|"""
    return 256 + 2 * npts


def close(x, y, scale=None, factor=256):
    if x == y:
        return True
    sc = abs(y) if scale is None else scale
    return abs(x - y) <= factor * EPS * sc


def degree_cap(n):
    """highest degree evaluated by the exact-arithmetic checker for a 1D rule with n points (cost grows with n * degree^2
    bits of the 53-bit floats; rules with more points are probed at low degrees - their low levels are probed fully)"""
    return 40 if n <= 17 else 16 if n <= 33 else 6


def cnt_lo_np(case, d):
    """(lowerBorder, number of points) of dimension d as the border logic of the model computes them (Python mirror used
    only to slice the reference rule of Clenshaw-Curtis; the counts themselves are compared with the model)"""
    t_l = F(case['s'][d]) == F(case['a'][d])
    t_r = F(case['e'][d]) == F(case['b'][d])
    npwb = 2 ** case['lv'][d] + 1
    if dimbnds(case)[d]:
        return 0, npwb
    return (1 if t_l else 0), npwb - int(t_l) - int(t_r)


def model_cases_for(case, r):
    """model invocations for one case: list of (tag, (sub, value))"""
    fam = case['fam']
    fams, bnds = dimfams(case), dimbnds(case)
    nd = len(case['lv'])
    out = []
    if case.get('oo'):      # oracle-only (sizes just beyond a gate read from the source, lesson (k))
        return out
    dims = [[F(a), F(b), F(s), F(e), l] for a, b, s, e, l in zip(case['a'], case['b'], case['s'], case['e'], case['lv'])]
    big = max(case['lv']) >= 8 or (nd >= 2 and sum(case['lv']) >= 10)
    if fam in EQFAM and uniform(case):
        out.append(('eq', (0, [EQFAM[fam], 1 if case['bnd'] else 0, dims, case.get('exps', [])])))
    elif all(f1 in EQFAM for f1 in fams):
        out.append(('eq', (5, [[[EQFAM[f1], 1 if bd else 0, dm] for f1, bd, dm in zip(fams, bnds, dims)], case.get('exps', [])])))
    else:
        for d, (f1, bd) in enumerate(zip(fams, bnds)):
            if f1 in EQFAM:      # 1D model of the equidistant dimensions of a mixed grid
                out.append(('eq1_%d' % d, (5, [[[EQFAM[f1], 1 if bd else 0, dims[d]]], []])))
    tc = touch_class(case)
    for d in range(nd):
        out.append(('cnt%d' % d, (2, [CNTFAM[fams[d]], 1 if bnds[d] else 0] + dims[d])))
        if fams[d] in ('trap', 'simpson') and not bnds[d] and case['lv'][d] == 0 and tc[d] == 1:
            # the proposed repair of the level-0 one-sided rule (C08_fix_*): accepted as well
            out.append(('fx%d' % d, (9, [EQFAM[fams[d]], 0, dims[d]])))
        if fams[d] == 'leja' and not bnds[d]:
            out.append(('lejafx%d' % d, (10, [0] + dims[d])))
        if case.get('probe') is not None:
            out.append(('pcnt%d' % d, (2, [CNTFAM[fams[d]], 1 if bnds[d] else 0] + dims[d][:4] + [case['probe'][d]])))
    if 'num' in r and 'points' in r:
        mean = meaningful(case)
        degs = nominal_degrees(case, npwb_of(case), guaranteed=True)
        if fam not in HIER:
            for d in range(nd):
                f1 = fams[d]
                ok_len = len(r['coords'][d]) == len(r['w1'][d]) and len(r['coords'][d]) > 0
                if mean[d] and ok_len and not (f1 in EQFAM and big):
                    nf = (F(case['e'][d]) - F(case['s'][d])) if case.get('norm') else F(1)
                    out.append(('mom%d' % d, (1, [r['coords'][d], [w * nf for w in r['w1'][d]], F(case['s'][d]), F(case['e'][d]),
                                                  min(degs[d], degree_cap(len(r['coords'][d]))), RTOL[f1]])))
                ref = (r.get('refs') or [None] * nd)[d]
                if f1 in AFFINE and ref is not None and ok_len and not (f1 == 'leja' and not bnds[d]):
                    rc, rw = ref
                    if f1 == 'cc':
                        lo, npt = cnt_lo_np(case, d)
                        rc, rw = rc[lo:lo + npt], rw[lo:lo + npt]
                    out.append(('aff%d' % d, (4, [AFFINE[f1], 1 if case.get('norm') else 0, F(case['s'][d]), F(case['e'][d]), rc, rw])))
                    # certificate of the reference rule of this level on its reference interval (deduplicated per run)
                    rs, re_ = (F(0), F(1)) if f1 == 'leja' else (F(-1), F(1))
                    out.append(('ref%d' % d, (1, [ref[0], ref[1], rs, re_, min(degs[d], degree_cap(len(ref[0]))), RTOL[f1]])))
                    if f1 == 'leja' and len(ref[0]) <= 13:
                        # the linear system LejaGrid1D.compute_1D_quad_weights solves (shifted Legendre basis, right-hand side e_0) on
                        # the reference rule: C08_leja_solution_is_interpolatory_bounded makes its solution the interpolatory rule
                        out.append(('reflejasys%d' % d, (11, [ref[0], ref[1], RTOL[f1]])))
                    near = max(abs(F(case['s'][d])), abs(F(case['e'][d]))) <= 64 * (F(case['e'][d]) - F(case['s'][d]))
                    if f1 in ('cc', 'leja') and bnds[d] and 2 <= len(r['coords'][d]) <= 5 and near:
                        out.append(('interp%d' % d, (6, [r['coords'][d], r['w1'][d], F(case['s'][d]), F(case['e'][d]), RTOL[f1]])))
                    if f1 == 'cc' and case['lv'][d] <= 5 and case['lv'][d] >= 1:
                        import math
                        N = 2 ** case['lv'][d]
                        lo, npt = cnt_lo_np(case, d)
                        kt = [F(math.cos(math.pi * i / N)) for i in range(N + 1)]
                        ct = [F(math.cos(2 * math.pi * m / N)) for m in range(N * (N // 2) + 1)]
                        out.append(('ccf%d' % d, (8, [N + 1, lo, npt, kt, ct, F(case['s'][d]), F(case['e'][d])])))
        wts = r.get('effw') if fam in HIER else r['weights']
        box = [[F(s), F(e)] for s, e in zip(case['s'], case['e'])]
        nfall = norm_factor(case)
        if all(mean) and wts is not None and len(wts) == len(r['points']) and 0 < len(wts) <= 130:
            expss = [[0] * nd]
            if fam in HIER:      # every degree along every axis (no 1D rule is observable for these families)
                for d in range(nd):
                    for k in range(1, degs[d] + 1):
                        expss.append([k if i == d else 0 for i in range(nd)])
            for x in case.get('exps', []):
                if all(k <= dg for k, dg in zip(x, degs)) and x not in expss:
                    expss.append(x)
            out.append(('nd', (3, [r['points'], [w * nfall for w in wts], box, expss, RTOL[fam]])))
        elif len(r['points']) == len(r['weights']) and 0 < len(r['points']) <= 400:
            out.append(('inside', (3, [r['points'], r['weights'], box, [], F(1)])))
        # tensor points / weights / integrals = tensor product of the 1D arrays (every family)
        if fam not in EQFAM and all(len(c) == len(w) for c, w in zip(r['coords'], r['w1'])) and 0 < len(r['points']) <= 1500:
            out.append(('tensor', (7, [r['coords'], r['w1'], case.get('exps', []) if fam not in HIER else []])))
    return out


def key_of(case):
    return json.dumps([case['fam'], case.get('p'), case.get('mixed'), dimbnds(case), case.get('integ'), case['a'], case['b'],
                       case['s'], case['e'], case['lv']])


def sig_of(case):
    return dict(family=case['fam'], boundary=case['bnd'], whole_domain=all(t == 2 for t in touch_class(case)))


def qq(l):
    return [sx.q(x) for x in l]


def judge(chk, case, st, r, mres, report_case=None):
    """Compare one case against the model results `mres` (dict tag -> decoded model value). Returns #violations."""
    sig = sig_of(case)
    nv = 0
    rc = report_case if report_case is not None else case
    if st != 'ok':
        chk.violation('oracle:grid_contract', 'exception', dict(sig, stage='worker', exc=(r[0] if r else st)), rc,
                      dict(impl=str(r)))
        return 1
    orc = oracle(case, r)
    diffs = []
    fam = case['fam']
    fams, bnds = dimfams(case), dimbnds(case)
    # ---- counts (all families)
    for d in range(len(case['lv']) if not case.get('oo') else 0):
        m = mres.get('cnt%d' % d)
        if m is None or sx.is_err(m):
            diffs.append(('model-count', 'model error %s' % (m,)))
            continue
        np_, npwb, lo, up, ln = m
        f1 = fams[d]
        fxm = mres.get('lejafx%d' % d)
        if fxm is not None and not sx.is_err(fxm) and 'num' in r and r['num'][d] == fxm[0] != np_:
            np_, npwb, lo, up, ln = fxm       # Leja count with the proposed repair (sub-box dependent)
        if 'num' in r:
            if r['num'][d] != np_:
                diffs.append(('levelToNumPoints', 'dimension %d: model announces %d, implementation %d' % (d, np_, r['num'][d])))
            if r.get('attrs') is not None and f1 not in HIER and f1 != 'leja' and list(r['attrs'][d]) != [np_, npwb, lo, up]:
                diffs.append(('set_current_area-attributes', 'dimension %d: (num_points, num_points_with_boundary, lowerBorder, upperBorder) '
                              'model %s implementation %s' % (d, [np_, npwb, lo, up], r['attrs'][d])))
            if r.get('numwb') is not None and r['numwb'][d] != npwb:
                diffs.append(('levelToNumPointsWithBoundary', 'dimension %d: model %d, implementation %d' % (d, npwb, r['numwb'][d])))
            if 'coords' in r:
                want = ln if not (f1 in ('trap', 'trapmod', 'simpson') and not bnds[d] and np_ == 1) else 1
                if f1 in ('gl', 'cc'):
                    want = np_       # Gauss / Clenshaw-Curtis build exactly num_points coordinates (no slice)
                if len(r['coords'][d]) != want:
                    diffs.append(('coords-length', 'dimension %d: model slice has %d indices, implementation returns %d coordinates'
                                  % (d, want, len(r['coords'][d]))))
        pm = mres.get('pcnt%d' % d)
        if pm is not None and 'num_probe' in r:
            if sx.is_err(pm):
                diffs.append(('model-count', 'model error %s' % (pm,)))
            elif r['num_probe'][d] != pm[0] or r['numwb_probe'][d] != pm[1]:
                diffs.append(('levelToNumPoints-other-levelvec', 'dimension %d, level %d on the current area: model announces %d (%d with boundary), '
                              'implementation %d (%d)' % (d, case['probe'][d], pm[0], pm[1], r['num_probe'][d], r['numwb_probe'][d])))
    # ---- exact model (trapezoidal / Simpson)
    m = mres.get('eq')
    if m is not None and 'coords' in r:
        if sx.is_err(m):
            diffs.append(('model', 'model error %s' % (m,)))
        else:
            mnum, mcoords, mw1, mpts, mwts, mints, mexact = m
            mcoords = [qq(c) for c in mcoords]
            mw1 = [qq(c) for c in mw1]
            mpts = [qq(p) for p in mpts]
            mwts = qq(mwts)
            mints = qq(mints)
            subst = False
            for d in range(len(case['lv'])):
                fx = mres.get('fx%d' % d)
                if fx is not None and not sx.is_err(fx) and qq(fx[0]) == r['coords'][d] and qq(fx[1]) == r['w1'][d] \
                        and (mcoords[d] != r['coords'][d] or mw1[d] != r['w1'][d]):
                    mcoords[d], mw1[d] = qq(fx[0]), qq(fx[1])     # the repaired level-0 rule
                    subst = True
            if subst:
                import itertools
                mpts = [list(p) for p in itertools.product(*mcoords)]
                mwts = []
                for ws in itertools.product(*mw1):
                    t = F(1)
                    for w in ws:
                        t *= w
                    mwts.append(t)
                mints = [rule_moment(exps, mpts, mwts)[0] for exps in case.get('exps', [])]
            exactw = 'simpson' not in fams
            if mnum != r['num']:
                diffs.append(('levelToNumPoints', 'model %s implementation %s' % (mnum, r['num'])))
            if mcoords != r['coords']:
                diffs.append(('coordinates', 'model %s implementation %s' % (
                    [[float(x) for x in c][:8] for c in mcoords], [[float(x) for x in c][:8] for c in r['coords']])))
            okw = [len(a) == len(b) and all((x == y) if exactw else close(y, x, factor=4) for x, y in zip(a, b))
                   for a, b in zip(mw1, r['w1'])]
            if not all(okw) or len(mw1) != len(r['w1']):
                diffs.append(('weights1d', 'model %s implementation %s' % (
                    [[float(x) for x in c][:8] for c in mw1], [[float(x) for x in c][:8] for c in r['w1']])))
            if mpts != r['points']:
                diffs.append(('points', 'tensor points differ (model %d, implementation %d points)' % (len(mpts), len(r['points']))))
            if len(mwts) != len(r['weights']) or not all((x == y) if exactw else close(y, x, factor=16)
                                                         for x, y in zip(mwts, r['weights'])):
                diffs.append(('weights', 'tensor weights differ (model %d, implementation %d weights)' % (len(mwts), len(r['weights']))))
            if 'integrals' in r and not diffs:
                for exps, mv, vv in zip(case.get('exps', []), mints, r['integrals']):
                    _, atot = rule_moment(exps, mpts, [abs(w) for w in mwts])
                    iv = first_component(case, vv, atot, len(mpts))
                    if iv is None or not close(iv, mv, scale=atot, factor=sum_factor(len(mpts))):
                        diffs.append(('integrate', 'exponents %s: model %.17g implementation %s' % (exps, float(mv), [float(x) for x in vv])))
                        break
    for tag, m in mres.items():
        if tag.startswith('eq1_') and 'coords' in r:
            d = int(tag[4:])
            if sx.is_err(m):
                diffs.append(('model', 'model error %s' % (m,)))
                continue
            exactw = fams[d] != 'simpson'
            fx = mres.get('fx%d' % d)
            if fx is not None and not sx.is_err(fx) and qq(fx[0]) == r['coords'][d] and qq(fx[1]) == r['w1'][d]:
                continue      # the repaired level-0 rule
            if qq(m[1][0]) != r['coords'][d]:
                diffs.append(('coordinates', 'dimension %d of the mixed grid: model %s implementation %s'
                              % (d, [float(x) for x in qq(m[1][0])][:8], [float(x) for x in r['coords'][d]][:8])))
            mw = qq(m[2][0])
            if len(mw) != len(r['w1'][d]) or not all((x == y) if exactw else close(y, x, factor=4) for x, y in zip(mw, r['w1'][d])):
                diffs.append(('weights1d', 'dimension %d of the mixed grid: model %s implementation %s'
                              % (d, [float(x) for x in mw][:8], [float(x) for x in r['w1'][d]][:8])))
    # ---- affine map of the reference rule, closed form, interpolatory weights, tensorisation
    for tag, m in mres.items():
        if tag.startswith('aff'):
            d = int(tag[3:])
            if sx.is_err(m):
                diffs.append(('model', 'model error %s' % (m,)))
                continue
            mp, mw = qq(m[0]), qq(m[1])
            sc = max(abs(F(case['s'][d])), abs(F(case['e'][d])), F(case['e'][d]) - F(case['s'][d]))
            if len(mp) != len(r['coords'][d]) or not all(abs(x - y) <= 16 * EPS * sc for x, y in zip(mp, r['coords'][d])):
                diffs.append(('affine-map-points', 'dimension %d (%s): the reference rule of level %d mapped to the sub-box is %s, '
                              'implementation %s' % (d, fams[d], case['lv'][d], [float(x) for x in mp][:8], [float(x) for x in r['coords'][d]][:8])))
            elif len(mw) != len(r['w1'][d]) or not all(abs(x - y) <= 64 * EPS * max(abs(x), abs(y), 1e-300) + 16 * EPS * EPS
                                                       for x, y in zip(mw, r['w1'][d])):
                diffs.append(('affine-map-weights', 'dimension %d (%s): the reference weights of level %d mapped to the sub-box are %s, '
                              'implementation %s' % (d, fams[d], case['lv'][d], [float(x) for x in mw][:8], [float(x) for x in r['w1'][d]][:8])))
        elif tag.startswith('ccf'):
            d = int(tag[3:])
            if sx.is_err(m):
                diffs.append(('model', 'model error %s' % (m,)))
                continue
            mp, mw = qq(m[0]), qq(m[1])
            ln = F(case['e'][d]) - F(case['s'][d])
            sc = max(abs(F(case['s'][d])), abs(F(case['e'][d])), ln)
            if len(mp) != len(r['coords'][d]) or not all(abs(x - y) <= 16 * EPS * sc for x, y in zip(mp, r['coords'][d])):
                diffs.append(('clenshaw-curtis-points', 'dimension %d: closed form %s implementation %s'
                              % (d, [float(x) for x in mp][:8], [float(x) for x in r['coords'][d]][:8])))
            elif len(mw) != len(r['w1'][d]) or not all(abs(x - y) <= F(1, 2 ** 40) * ln for x, y in zip(mw, r['w1'][d])):
                diffs.append(('clenshaw-curtis-weights', 'dimension %d: closed form %s implementation %s'
                              % (d, [float(x) for x in mw][:8], [float(x) for x in r['w1'][d]][:8])))
        elif tag.startswith('interp'):
            d = int(tag[6:])
            if sx.is_err(m) or m[0] != 1:
                diffs.append(('checker:interp_ok', 'dimension %d: the weights are not the interpolatory weights of the nodes: %s vs %s'
                              % (d, [float(x) for x in r['w1'][d]], [float(x) for x in qq(m[1])] if not sx.is_err(m) else m)))
        elif tag == 'tensor':
            if sx.is_err(m):
                diffs.append(('model', 'model error %s' % (m,)))
                continue
            tp, tw, ti = [qq(p) for p in m[0]], qq(m[1]), qq(m[2])
            if tp != r['points']:
                diffs.append(('tensor-points', 'getPoints is not the cross product of the 1D coordinates (%d vs %d points)' % (len(tp), len(r['points']))))
            elif len(tw) != len(r['weights']) or not all(close(y, x, factor=16) for x, y in zip(tw, r['weights'])):
                diffs.append(('tensor-weights', 'get_weights is not the product of the 1D weights'))
            elif 'integrals' in r and fam not in HIER:
                for exps, mv, vv in zip(case.get('exps', []), ti, r['integrals']):
                    _, atot = rule_moment(exps, tp, [abs(w) for w in tw])
                    iv = first_component(case, vv, atot, len(tp))
                    if iv is None or not close(iv, mv, scale=atot, factor=sum_factor(len(tp))):
                        diffs.append(('integrate', 'exponents %s: tensor rule %.17g implementation %s' % (exps, float(mv), [float(x) for x in vv])))
                        break
    # ---- verified checkers on implementation outputs
    for tag, m in mres.items():
        if tag.startswith('reflejasys'):
            if sx.is_err(m) or m[0] != 1:
                diffs.append(('checker:leja_system_ok', 'the reference Leja rule of level %d does not solve the system sum_i w_i P_j(x_i) = [j = 0] '
                              '(residuals %s)' % (case['lv'][int(tag[10:])], [float(x) for x in qq(m[1])][:8] if not sx.is_err(m) else m)))
        elif tag.startswith('mom') or tag.startswith('ref'):
            d = int(tag[3:])
            if sx.is_err(m) or m[0] != 1:
                what = 'the 1D rule returned by the implementation' if tag.startswith('mom') else \
                    'the reference rule of level %d (%s)' % (case['lv'][d], fams[d])
                diffs.append(('checker:moments_ok', 'dimension %d: moments_ok rejects %s (first failing degree %s)'
                              % (d, what, m[1] if not sx.is_err(m) else m)))
        elif tag == 'nd':
            if sx.is_err(m) or m[0] != 1 or m[1] != 1:
                diffs.append(('checker:nd_moments_ok', 'nd_moments_ok/inside_box rejects the tensor rule (moments %s inside %s first bad %s)'
                              % tuple(m if not sx.is_err(m) else (m, '', ''))))
        elif tag == 'inside':
            if sx.is_err(m) or m[1] != 1:
                diffs.append(('checker:inside_box', 'inside_box rejects a point returned by the implementation'))
    # ---- verdict
    if orc:
        kind, extra, text = orc[0]
        chk.violation('oracle:grid_contract', kind, dict(sig, **extra), rc,
                      dict(property_predicate=text, correspondence=[d[0] for d in diffs], detail=[d[1][:400] for d in diffs][:4]))
        nv += 1
    elif diffs:
        obs = diffs[0][0]
        check = obs if obs.startswith('checker:') else 'corr:C08/' + obs
        chk.violation(check, 'model-differs' if not obs.startswith('checker:') else 'checker-rejects',
                      dict(sig, observable=obs), rc,
                      dict(differs=[d[0] for d in diffs], detail=[d[1][:600] for d in diffs][:4],
                           property_predicate='holds on this case'), failing_input=False)
        nv += 1
    return nv


def run_cases(chk, hists):
    """Runs the histories on the implementation (one object per history) and the model (per step).
    Returns per history: (status, [step results]), [per-step dict tag -> model result]."""
    impl = run_impl(impl_run, hists, limit=120)
    mcases, owner = [], []
    seen = {}
    for i, (h, (st, rs)) in enumerate(zip(hists, impl)):
        if st != 'ok':
            continue
        for k, (c, r) in enumerate(zip(steps_of(h), rs)):
            for tag, mc in model_cases_for(c, r):
                if tag.startswith('ref'):      # one certificate per distinct reference rule
                    key = sx.enc(mc[1])
                    if key in seen:
                        owner[seen[key]][1].append((i, k, tag))
                        continue
                    seen[key] = len(mcases)
                mcases.append(mc)
                owner.append(((i, k, tag), []))
    mres = run_model(8, mcases, nproc=NPROC)
    per = [[dict() for _ in h['steps']] for h in hists]
    for ((i, k, tag), more), m in zip(owner, mres):
        per[i][k][tag] = m
        for (i2, k2, tag2) in more:
            per[i2][k2][tag2] = m
    return impl, per


def _known(chk, kind, sig):
    try:
        findings = json.load(open(os.path.join(os.path.dirname(os.path.dirname(os.path.dirname(os.path.dirname(os.path.abspath(__file__))))),
                                               'known_findings.json')))
    except (OSError, ValueError):
        return False
    for f in findings:
        if f.get('property') != chk.pid or f.get('status') != 'known':
            continue
        if f['signature']['kind'] == kind and all((sig.get(k) in val) if isinstance(val, list) else (sig.get(k) == val)
                                                  for k, val in f['signature'].get('where', {}).items()):
            return True
    return False


def failure_kinds(chk, h, rs, only_new=False):
    """per step: kind of the property-predicate failure (None = holds); only_new: failures matching a known finding count as None"""
    out = []
    for c, r in zip(steps_of(h), rs):
        o = oracle(c, r)
        k = o[0][0] if o else None
        if k is not None and only_new and _known(chk, k, dict(sig_of(c), **o[0][1])):
            k = None
        out.append(k)
    return out


def run_solo(hists, limit=120):
    """every history in a process of its own (forked from the harness, which has not imported the library): no state of
    earlier cases can be involved"""
    import multiprocessing as mp
    from ..impl import _call, _init_worker
    if not hists:
        return []
    ctx = mp.get_context('fork')
    with ctx.Pool(min(NPROC, len(hists)), initializer=_init_worker, maxtasksperchild=1) as pool:
        return pool.map(_call, [(impl_run, h, limit) for h in hists], chunksize=1)


def judge_history(chk, h, st, rs, per):
    """Judges every step of a history; the reported case is the history up to (and including) the failing step."""
    if st != 'ok':
        chk.violation('oracle:grid_contract', 'exception',
                      dict(sig_of(steps_of(h)[0]), stage='worker', exc=(rs[0] if rs else st)), h, dict(impl=str(rs)))
        return 1
    nv = 0
    for k, (c, r) in enumerate(zip(steps_of(h), rs)):
        nv += judge(chk, c, 'ok', r, per[k], report_case=dict(h, steps=h['steps'][:k + 1]))
    return nv


def run(chk):
    # source-derived model: regenerate coq/Gen/LocalGrid1DGen.v from the working tree BEFORE the obligations, so that the
    # C08_gen_* theorems are re-checked against the 1D grid classes as they are now
    gen_info = _c08_gen.regenerate(chk)
    chk.coq_obligations(extra_props=_c08_gen.EXTRA_PROPS)
    gen_problem = _c08_gen.diagnose(chk, gen_info)
    n = chk.n(300, 5000)
    gh, gates = gate_cases(chk.rng)
    chk.extra['size_gates_read_from_source'] = {str(k): v for k, v in sorted(gates.items())}
    hists = [dict(c) for c in CORPUS] + big_cases(chk.rng) + gh + [gen_case(chk.rng, chk.tier) for _ in range(n)]
    impl, per = run_cases(chk, hists)
    # lesson (g): a NEW violation found in a pooled worker may depend on state that EARLIER cases left in that process (class-level
    # caches); every such history is re-run alone in a fresh process - only what reproduces there is a replayable failing input
    sus = [i for i, (h, (st, rs)) in enumerate(zip(hists, impl)) if st == 'ok' and any(failure_kinds(chk, h, rs, only_new=True))]
    solo = run_solo([hists[i] for i in sus[:60]])
    process_state = {}
    for i, (st2, rs2) in zip(sus, solo):
        if st2 == 'ok' and failure_kinds(chk, hists[i], rs2, only_new=True) != failure_kinds(chk, hists[i], impl[i][1], only_new=True):
            process_state[i] = failure_kinds(chk, hists[i], rs2, only_new=True)
    chk.extra['rerun_alone_in_fresh_process'] = dict(histories=len(sus), not_reproduced=len(process_state))
    keys, samples = [], []
    nchk = nsteps = 0
    for idx, (h, (st, rs), mres) in enumerate(zip(hists, impl, per)):
        if idx in process_state:
            kinds = failure_kinds(chk, h, rs, only_new=True)
            chk.violation('oracle:grid_contract', 'process-state-dependent',
                          dict(sig_of(steps_of(h)[0]), pooled=str(kinds), alone=str(process_state[idx])), h,
                          dict(property_predicate='in a worker process that had run other cases before, the steps of this history fail with %s; '
                               'alone in a fresh process they give %s: state shared across instances (class-level attribute / cache) is involved; '
                               'the history alone is NOT a failing input' % (kinds, process_state[idx])), failing_input=False)
            chk.count('family=%s' % h['fam'])
            continue
        chk.count('family=%s' % h['fam'])
        chk.count('dim=%d' % len(h['a']))
        chk.count('boundary=%s' % h['bnd'])
        chk.count('history_length=%d' % len(h['steps']))
        chk.count('integrator=%s' % (h.get('integ') or 'default'))
        chk.count('containers=%s' % h.get('ct', 'list'))
        chk.count('integrand_output_length=%d' % h.get('m', 1))
        chk.count('objects_in_history=%d' % (2 if 'a2' in h else 1))
        chk.count('prelude_on_sibling_classes=%s' % ('pre' in h))
        chk.count('oracle_only_beyond_source_gate=%s' % bool(h.get('oo')))
        chk.count('argument_objects=%s' % h.get('args', 'fresh per call'))
        chk.count('observer_calls_between=%s' % bool(h.get('observers')))
        chk.count('returned_objects_overwritten=%s' % bool(h.get('alias')))
        if h['fam'] == 'gl':
            chk.count('gl_normalize=%s' % bool(h.get('norm')))
        if h['fam'] == 'mixed':
            for f1 in h['mixed']:
                chk.count('mixed_1d_family=%s' % f1)
        nv = judge_history(chk, h, st, rs, mres)
        for c, m in zip(steps_of(h), mres):
            nsteps += 1
            chk.count('touch=%s' % ''.join(str(t) for t in sorted(touch_class(c))))
            mp = max(npwb_of(c))
            chk.count('points_per_dim=%s' % ('<=17' if mp <= 17 else '<=65' if mp <= 65 else '<=257' if mp <= 257 else '>=513'))
            chk.count('level0=%s' % (0 in c['lv']))
            chk.count('caller_mutates_passed_objects_after_step=%s' % bool(c.get('jmut')))
            chk.count('integrand_scale=2^%d' % c.get('fs', 0))
            chk.count('integrand_components(step)=%d' % c.get('m', 1))
            chk.count('domain=%s' % ('math.isclose would misfire (2^34 / 1+2^-40)' if misfire(c) else 'far (2^20, 2^30)' if any(F(a) >= 2 ** 20 for a in c['a'])
                                     else 'tiny (2^-30)' if any(F(b) - F(a) < F(1, 2 ** 20) for a, b in zip(c['a'], c['b'])) else 'near origin'))
            chk.count('flags=%s' % ('per-dimension' if (c.get('bnds') is not None and len(set(c['bnds'])) > 1) else
                                    'toggled' if c.get('bnds') is not None else 'constructor'))
            chk.count('area=%s' % ('None' if c.get('none') else 'explicit'))
            chk.count('announcement_other_levelvec=%s' % (c.get('probe') is not None))
            for t in m:
                if t.startswith(('aff', 'ccf', 'interp', 'tensor')):
                    chk.count('model_path=%s' % t.rstrip('0123456789'))
            nchk += sum(1 for t in m if t.startswith(('mom', 'ref', 'interp')) or t == 'nd')
            if any(t.startswith('reflejasys') for t in m):
                chk.count('model_path=leja_system')
            if len(c['lv']) >= 2 or max(c['lv']) >= 2:
                keys.append(key_of(c))
        if st == 'ok' and nv == 0:
            chk.traces += 1
        if len(samples) < 3 and st == 'ok' and nv == 0 and len(h['a']) == 2 and len(h['steps']) >= 2 \
                and h['fam'] in ('trap', 'simpson', 'gl') and 'w1' in rs[-1]:
            samples.append(dict(history=h, num=[r.get('num') for r in rs],
                                last_weights_1d=[[float(w) for w in ws] for ws in rs[-1]['w1']]))
    # a broken translation / equivalence is a broken proof obligation; reported without failing input only when the
    # correspondence and the oracle above found no concrete input on which the implementation violates the property
    _c08_gen.finish(chk, gen_info, gen_problem)
    chk.extra['checker_evaluations'] = nchk
    chk.extra['tolerances'] = dict(exact='trapezoidal points/weights, all coordinates, counts', rounded='256*eps*sum|terms| (Simpson weights 4 eps, tensor weights 16 eps; '
                                   'affine map of a reference rule: points 16 eps*scale, weights 64 eps relative; Clenshaw-Curtis closed form 2^-40*length)',
                                   checker_rtol={k: '2^-%d' % (v.denominator.bit_length() - 1) for k, v in RTOL.items()})
    chk.extra['steps'] = nsteps
    chk.record_cases(nsteps, keys,
                     'histories of 1..4 consecutive (sub-box, level vector) requests on ONE grid object (optionally a second object of '
                     'the class on another domain, per-dimension flag changes, announcements at other level vectors, None area); local grids '
                     '(trapezoidal/modified/Simpson/Clenshaw-Curtis/Leja/Gauss-Legendre/Lagrange/B-spline/MixedGrid), d 1..3, '
                     'anisotropic level vectors up to 2049 points per dimension, dyadic sub-boxes touching none/one/both global boundaries, '
                     'boundary flag, integrator option, container types, vector-valued integrands; '
                     'evaluations = steps; non-trivial = d >= 2 or some level >= 2; distinct by '
                     '(family,p,flags,integrator,domain,sub-box,levels)', samples)


def replay(chk, rep):
    h = rep['case']
    if 'steps' not in h:       # flat single-step case
        h = dict({k: v for k, v in h.items() if k not in ('s', 'e', 'lv', 'exps')},
                 steps=[dict(s=h['s'], e=h['e'], lv=h['lv'], exps=h.get('exps', []))])
    impl, per = run_cases(chk, [h])
    st, rs = impl[0]
    if st != 'ok':
        print('impl:', st, rs)
        return 1
    bad = 0
    for k, (c, r) in enumerate(zip(steps_of(h), rs)):
        print('step %d: sub-box %s..%s levels %s' % (k, c['s'], c['e'], c['lv']))
        print('  impl:', json.dumps({x: y for x, y in r.items() if x != 'refs'}, default=lambda x: float(x))[:1500])
        print('  model:', json.dumps(per[0][k], default=str)[:1500])
        orc = oracle(c, r)
        print('  property predicate:', orc[0][2] if orc else 'holds')
        bad += bool(orc)
    return 1 if bad else 0
