"""C08: local tensor quadrature grids honour their exactness and point contracts.

Correspondence  Model/LocalGrids.v  <->  sparseSpACE/Grid.py (+ Integrator.py, Hierarchization.py, BasisFunctions.py):
  * trapezoidal (plain / modified basis) and Simpson grids: exact model of levelToNumPoints, 1D coordinates,
    1D weights, tensor points, tensor weights and integrate() of monomials (entry sub 0);
  * Clenshaw-Curtis, Leja, Gauss-Legendre, Lagrange, B-spline: model of the announced counts / border slice
    (sub 2) and the verified checkers moments_ok (sub 1, per dimension) and nd_moments_ok (sub 3, tensor rule;
    for the hierarchical families on the *effective nodal weights* read off integrate() with Kronecker functions).
Oracle: the property's own predicate evaluated with Fractions on the implementation outputs alone."""
import itertools
import json
from fractions import Fraction as F

from .. import sx
from ..impl import run_impl
from ..model import run_model

ASSUMPTIONS = [
    'isclose(start, a) / end == b are modelled as equality; generated boxes live on a dyadic lattice where they agree',
    'exact-arithmetic model (Qc); trapezoidal observables are bit-exact on dyadic boxes, Simpson (h/3) and integrals '
    'are compared with |impl-model| <= 256*eps*sum|terms|',
    'Clenshaw-Curtis / Leja / Gauss-Legendre / Lagrange / B-spline rules are opaque: certified per explored case by '
    'the verified checkers moments_ok / nd_moments_ok (relative tolerance 2^-40 resp. 2^-30 for LAPACK-based rules) '
    'on the floats returned by the implementation',
    'scope (DESIGN C08 G): weight-sum/degree clauses are evaluated where boundary points are present or the sub-box '
    'does not touch the global boundary (and for the modified bases, degree 1); count/inside/alignment for every flag',
    '"integral" of a monomial is the formal integral (e^(k+1)-s^(k+1))/(k+1)',
    'an empty rule (level 0, boundary off, sub-box = whole domain) is not passed to integrate(): Function.__call__ on an '
    'empty batch is the subject of C12',
    'every case is a history of 1..4 requests on ONE Grid object (plus one boundary=True twin object for the boundary-off '
    'clause); the model is a pure function of the request',
    'Lagrange family: the verified checker is evaluated up to the degree the hierarchical construction guarantees, '
    'min(p, level+1); the nominal min(p, n-1) is evaluated by the oracle (known finding for p >= 4)',
]

EPS = F(1, 2 ** 53)
EQFAM = {'trap': 0, 'trapmod': 1, 'simpson': 2}
CNTFAM = {'trap': 0, 'trapmod': 0, 'simpson': 0, 'lagrange': 0, 'bspline': 0, 'bsplinemod': 0, 'cc': 0, 'leja': 2, 'gl': 3}   # cc: the intended (a,b)-based count; the code compares with 0 and 1
HIER = ('lagrange', 'bspline', 'bsplinemod')
RTOL = {'cc': F(1, 2 ** 40), 'gl': F(1, 2 ** 40), 'leja': F(1, 2 ** 30), 'lagrange': F(1, 2 ** 30),
        'bspline': F(1, 2 ** 30), 'bsplinemod': F(1, 2 ** 30), 'trap': F(1, 2 ** 44), 'trapmod': F(1, 2 ** 44),
        'simpson': F(1, 2 ** 44)}


def fr(x):
    return F(x) if isinstance(x, (str, int)) else sx.rat(x)


def fs(x):
    x = F(x)
    return str(x.numerator) if x.denominator == 1 else '%d/%d' % (x.numerator, x.denominator)


# ----------------------------------------------------------------------------------------------- implementation
def make_grid(case, bnd=None):
    import sparseSpACE.Grid as G
    fam = case['fam']
    a = [float(F(x)) for x in case['a']]
    b = [float(F(x)) for x in case['b']]
    bnd = case['bnd'] if bnd is None else bnd
    if fam == 'trap':
        return G.TrapezoidalGrid(a, b, boundary=bnd)
    if fam == 'trapmod':
        return G.TrapezoidalGrid(a, b, boundary=bnd, modified_basis=True)
    if fam == 'simpson':
        return G.SimpsonGrid(a, b, boundary=bnd)
    if fam == 'cc':
        return G.ClenshawCurtisGrid(a, b, boundary=bnd)
    if fam == 'leja':
        return G.LejaGrid(a, b, boundary=bnd)
    if fam == 'gl':
        return G.GaussLegendreGrid(a, b)
    if fam == 'lagrange':
        return G.LagrangeGrid(a, b, boundary=bnd, p=case['p'])
    if fam == 'bspline':
        return G.BSplineGrid(a, b, boundary=bnd, p=case['p'])
    if fam == 'bsplinemod':
        return G.BSplineGrid(a, b, boundary=bnd, p=case['p'], modified_basis=True)
    raise ValueError(fam)


def _functions():
    from sparseSpACE.Function import Function

    class Mono(Function):
        def __init__(self, exps):
            super().__init__()
            self.exps = exps

        def output_length(self):
            return 1

        def eval(self, c):
            r = 1.0
            for x, k in zip(c, self.exps):
                r *= float(x) ** k
            return r

    class Delta(Function):
        def __init__(self, pt):
            super().__init__()
            self.pt = tuple(float(x) for x in pt)

        def output_length(self):
            return 1

        def eval(self, c):
            return 1.0 if tuple(float(x) for x in c) == self.pt else 0.0

    return Mono, Delta


def _exc(e):
    import traceback
    import os
    from ..impl import REPO
    where = ''
    for frm in reversed(traceback.extract_tb(e.__traceback__)):
        if REPO in frm.filename:
            where = '%s:%s' % (os.path.relpath(frm.filename, REPO), frm.name)
            break
    return [type(e).__name__, where, str(e)[:160]]


def observe(case, bnd=None, want_integrals=True, grid=None):
    """All observables of one grid on one sub-box; every stage records its own exception.
    grid: an existing Grid object that is REUSED for every call of this step (setCurrentArea, get_points_and_weights,
    integrate); None = a fresh object."""
    import numpy as np
    Mono, Delta = _functions()
    out = {}
    s = [float(F(x)) for x in case['s']]
    e = [float(F(x)) for x in case['e']]
    lv = [int(l) for l in case['lv']]
    g = grid
    if g is None:
        try:
            g = make_grid(case, bnd)
        except Exception as ex:
            out['exc'] = ['construct'] + _exc(ex)
            return out
    try:
        g.setCurrentArea(s, e, lv)
    except Exception as ex:
        out['exc'] = ['setCurrentArea'] + _exc(ex)
        return out
    try:
        out['num'] = [int(n) for n in g.levelToNumPoints(lv)]
    except Exception as ex:
        out['exc'] = ['levelToNumPoints'] + _exc(ex)
        return out
    try:
        out['coords'] = [[sx.rat(x) for x in g.get_coordinates_dim(d)] for d in range(len(lv))]
        out['w1'] = [[sx.rat(x) for x in g.weights[d]] for d in range(len(lv))]
        pts, wts = g.get_points_and_weights()
        out['points'] = [[sx.rat(x) for x in p] for p in pts]
        out['weights'] = [sx.rat(w) for w in wts]
    except Exception as ex:
        out['exc'] = ['get_points_and_weights'] + _exc(ex)
        return out
    if not want_integrals or len(out['points']) == 0:
        # an empty rule is not integrated (Function.__call__ on an empty batch is the subject of C12)
        return out
    ints = []
    for exps in case.get('exps', []):
        try:
            v = g.integrate(Mono(exps), lv, s, e)
            ints.append(sx.rat(float(np.ravel(v)[0])))
        except Exception as ex:
            out['exc'] = ['integrate'] + _exc(ex)
            return out
    out['integrals'] = ints
    if case['fam'] in HIER and case.get('effw', True) and len(out['points']) <= 90:
        # effective nodal weights of the hierarchical-basis integrator: integrate() is linear in the nodal values
        try:
            eff = []
            for p in pts:
                v = g.integrate(Delta(p), lv, s, e)
                eff.append(sx.rat(float(np.ravel(v)[0])))
            out['effw'] = eff
        except Exception as ex:
            out['exc'] = ['integrate'] + _exc(ex)
    return out


def steps_of(hist):
    """flat per-step cases of a history (one Grid object, consecutive sub-boxes / level vectors)"""
    base = {k: v for k, v in hist.items() if k != 'steps'}
    return [dict(base, **st) for st in hist['steps']]


def impl_run(hist):
    """Runs the whole history on ONE grid object (and one boundary=True twin for the restriction clause)."""
    steps = steps_of(hist)
    res = []
    g = g_on = None
    cerr = None
    try:
        g = make_grid(steps[0])
    except Exception as ex:
        cerr = ['construct'] + _exc(ex)
    twin = (not hist['bnd']) and hist['fam'] in ('trap', 'simpson', 'cc')
    if twin:
        try:
            g_on = make_grid(steps[0], True)
        except Exception:
            g_on = None
    for c in steps:
        if cerr is not None:
            res.append({'exc': cerr})
            continue
        out = observe(c, grid=g)
        if twin and g_on is not None:
            out['on'] = observe(c, bnd=True, want_integrals=False, grid=g_on)
        res.append(out)
    return res


# ----------------------------------------------------------------------------------------------- generator
DOMAINS = [('0', '1'), ('0', '1'), ('0', '1'), ('-1', '2'), ('-3', '6'), ('1/2', '5/2'), ('-2', '-1'), ('0', '4'), ('-1', '1')]


def gen_box(rng, a, b, maxlevel, allow0):
    k = rng.choice([0, 1, 1, 2, 2, 3])
    n = 2 ** k
    r = rng.random()
    if r < 0.22:
        i, j = 0, n                      # whole domain
    elif r < 0.42:
        i, j = 0, rng.randrange(1, n + 1)    # touches the lower boundary
    elif r < 0.62:
        i, j = rng.randrange(0, n), n        # touches the upper boundary
    else:
        i = rng.randrange(0, n)
        j = rng.randrange(i + 1, n + 1)
    s = a + (b - a) * F(i, n)
    e = a + (b - a) * F(j, n)
    lo = 0 if (allow0 and rng.random() < 0.12) else 1
    l = rng.randrange(lo, maxlevel + 1)
    return s, e, l


def touch_class(case):
    t = []
    for a, b, s, e in zip(case['a'], case['b'], case['s'], case['e']):
        t.append(int(F(s) == F(a)) + int(F(e) == F(b)))
    return t


def gen_case(rng, tier):
    """A history: one grid object (family, flag, domain) and 1..4 consecutive (sub-box, level vector) requests."""
    fam = rng.choice(['trap', 'trap', 'trap', 'trapmod', 'trapmod', 'simpson', 'simpson', 'simpson', 'cc', 'cc',
                      'leja', 'gl', 'gl', 'lagrange', 'lagrange', 'bspline', 'bspline', 'bsplinemod'])
    thorough = tier != 'quick'
    dim = rng.choice([1, 1, 2, 2, 2, 3])
    p = None
    if fam in ('trap', 'trapmod', 'simpson'):
        maxlevel = {1: 6, 2: 4, 3: 3}[dim] + (1 if thorough and dim < 3 else 0)
        bnd = False if fam == 'trapmod' else rng.random() < 0.45
    elif fam in ('cc', 'gl'):
        maxlevel = {1: 4, 2: 3, 3: 2}[dim]
        if fam == 'gl' and dim == 1 and not thorough:
            maxlevel = 3          # 17 Gauss points = degree 33: exact moments of 53-bit floats get expensive
        bnd = rng.random() < 0.7 if fam == 'cc' else False
    elif fam == 'leja':
        maxlevel = {1: 4, 2: 3, 3: 2}[dim]
        bnd = rng.random() < 0.75
    else:
        maxlevel = {1: 4, 2: 3, 3: 1}[dim]
        if fam == 'lagrange':
            p = rng.choice([1, 2, 2, 3, 3, 3, 4, 5])
            bnd = rng.random() < 0.85
        elif fam == 'bspline':
            p = rng.choice([1, 3, 3, 5])
            bnd = rng.random() < 0.8
        else:
            p = rng.choice([1, 3])
            bnd = False
    doms = [tuple(F(x) for x in rng.choice(DOMAINS)) for _ in range(dim)]
    hist = dict(fam=fam, bnd=bool(bnd), a=[fs(d[0]) for d in doms], b=[fs(d[1]) for d in doms])
    if p is not None:
        hist['p'] = p
    nsteps = rng.choice([1, 1, 2, 2, 3, 3, 4]) if fam != 'leja' else rng.choice([1, 2, 2, 3])
    steps = []
    allow0 = fam in ('trap', 'trapmod', 'simpson', 'cc', 'gl')
    for _ in range(nsteps):
        bx = [gen_box(rng, a, b, maxlevel, allow0) for a, b in doms]
        st = dict(s=[fs(x[0]) for x in bx], e=[fs(x[1]) for x in bx], lv=[x[2] for x in bx])
        st['exps'] = gen_exps(rng, dict(hist, **st))
        steps.append(st)
    hist['steps'] = steps
    return hist


def nominal_degrees(case, npwb, guaranteed=False):
    """nominal exactness degree per dimension, n = number of points per dimension incl. boundary points.
    guaranteed=True: for the Lagrange family the degree the hierarchical construction can deliver, min(p, level+1)
    (level-l basis functions interpolate on at most l+2 knots) - below the nominal min(p, n-1) for p >= 4."""
    fam = case['fam']
    out = []
    for n, l in zip(npwb, case['lv']):
        if fam in ('trap', 'trapmod'):
            out.append(1)
        elif fam == 'simpson':
            out.append(3 if n >= 3 else 1)
        elif fam in ('cc', 'leja'):
            out.append(n - 1)
        elif fam == 'gl':
            out.append(2 * n - 1)
        elif fam == 'bsplinemod':
            out.append(1)
        elif fam == 'lagrange' and guaranteed:
            out.append(min(case['p'], l + 1))
        else:
            out.append(min(case['p'], n - 1))
    return out


def npwb_of(case):
    if case['fam'] == 'leja':
        return [2 if l == 0 else 2 * (l + 1) - 1 for l in case['lv']]
    return [2 ** l + 1 for l in case['lv']]


def meaningful(case):
    """per dimension: is the weight-sum/degree clause evaluated (scope decision G)?"""
    if case['bnd'] or case['fam'] in ('trapmod', 'bsplinemod', 'gl'):
        if case['fam'] in ('trapmod', 'bsplinemod'):
            # a modified basis needs at least one point to extrapolate from
            return [not (t == 2 and l == 0) for t, l in zip(touch_class(case), case['lv'])]
        return [True] * len(case['lv'])
    return [t == 0 for t in touch_class(case)]


def gen_exps(rng, case):
    degs = nominal_degrees(case, npwb_of(case))
    d = len(degs)
    out = [[0] * d, list(degs)]
    for _ in range(3):
        out.append([rng.randrange(0, k + 1) for k in degs])
    # one beyond the nominal degree in one dimension (recorded, not asserted)
    res = []
    cap = 12 if d == 1 else 6     # the per-dimension checker moments_ok covers every degree; these probe the tensor rule
    for x in out:
        x = [min(k, cap) for k in x]
        if x not in res:
            res.append(x)
    return res


def H(fam, bnd, a, b, steps, p=None):
    h = dict(fam=fam, bnd=bnd, a=a, b=b, steps=[dict(s=s, e=e, lv=lv, exps=exps) for s, e, lv, exps in steps])
    if p is not None:
        h['p'] = p
    return h


CORPUS = [
    # exemplars of the known findings (kept first)
    H('simpson', False, ['0'], ['1'], [(['0'], ['1/2'], [2], [[0], [3]])]),
    H('simpson', False, ['0', '0'], ['1', '1'], [(['1/4', '0'], ['1/2', '1'], [2, 1], [[0, 0], [3, 3]])]),
    H('cc', False, ['0'], ['1'], [(['0'], ['1'], [2], [[0]])]),
    H('cc', False, ['-1'], ['2'], [(['0'], ['1'], [2], [[0], [2]])]),
    H('leja', False, ['0'], ['1'], [(['1/2'], ['1'], [2], [[0]])]),
    H('leja', False, ['0'], ['1'], [(['0'], ['1/2'], [1], [[0]])]),
    H('lagrange', False, ['0'], ['1'], [(['0'], ['1'], [2], [[0]])], p=2),
    H('lagrange', False, ['0'], ['1'], [(['1/4'], ['1/2'], [2], [[0]])], p=2),
    H('bspline', False, ['0'], ['1'], [(['1/4'], ['1/2'], [2], [[0]])], p=3),
    H('bsplinemod', False, ['-3'], ['6'], [(['3/2'], ['21/8'], [2], [[0]])], p=3),
    H('bsplinemod', False, ['0'], ['4'], [(['1'], ['4'], [4], [[0]])], p=1),
    H('trap', False, ['0'], ['1'], [(['0'], ['1/2'], [0], [[0], [1]])]),
    H('simpson', False, ['0'], ['1'], [(['1/2'], ['1'], [0], [[0], [1]])]),
    H('lagrange', True, ['0'], ['4'], [(['1'], ['4'], [2], [[0], [4]])], p=5),
    # regression histories that must agree: one object swept over several sub-boxes / level vectors
    H('trap', False, ['0'], ['1'], [(['0'], ['1/2'], [2], [[0], [1]]), (['1/4'], ['1/2'], [2], [[0], [1]]),
                                    (['1/2'], ['1'], [3], [[0], [1]]), (['0'], ['1'], [1], [[0], [1]])]),
    H('trapmod', False, ['0', '-1'], ['1', '2'], [(['0', '1/2'], ['1', '2'], [2, 3], [[0, 0], [1, 1]]),
                                                  (['1/4', '-1'], ['1/2', '1/2'], [3, 1], [[0, 0], [1, 1]]),
                                                  (['0', '-1'], ['1', '2'], [1, 2], [[0, 0], [1, 1]])]),
    H('trap', True, ['-3', '0'], ['6', '1'], [(['-3/4', '1/2'], ['3/2', '1'], [3, 1], [[0, 0], [1, 1]]),
                                              (['-3', '0'], ['6', '1'], [1, 2], [[0, 0], [1, 1]])]),
    H('trap', False, ['0', '0', '0'], ['1', '1', '1'], [(['0', '1/2', '1/4'], ['1', '1', '1/2'], [2, 1, 2], [[0, 0, 0], [1, 1, 1]]),
                                                        (['1/2', '0', '0'], ['1', '1/2', '1'], [1, 2, 1], [[0, 0, 0], [1, 1, 1]])]),
    H('simpson', True, ['0', '0'], ['1', '1'], [(['1/4', '0'], ['1/2', '1'], [2, 1], [[0, 0], [3, 3], [2, 3]]),
                                                (['0', '1/2'], ['1', '1'], [1, 3], [[0, 0], [3, 3]])]),
    H('cc', True, ['0'], ['4'], [(['0'], ['1'], [3], [[0], [8]]), (['1'], ['3'], [2], [[0], [4]])]),
    H('gl', False, ['0'], ['4'], [(['1'], ['3'], [2], [[0], [9]]), (['0'], ['4'], [1], [[0], [5]])]),
    H('lagrange', True, ['0', '0'], ['1', '1'], [(['0', '1/2'], ['1/2', '1'], [2, 1], [[0, 0], [3, 2]]),
                                                 (['1/2', '0'], ['1', '1'], [1, 2], [[0, 0], [2, 3]])], p=3),
    H('bspline', True, ['-1'], ['1'], [(['-1/2'], ['0'], [3], [[0], [3]]), (['-1'], ['1'], [2], [[0], [3]])], p=3),
]


# ----------------------------------------------------------------------------------------------- oracle
def exact_moment(exps, case):
    r = F(1)
    for k, s, e in zip(exps, case['s'], case['e']):
        s, e = F(s), F(e)
        r *= (e ** (k + 1) - s ** (k + 1)) / (k + 1)
    return r


def rule_moment(exps, pts, wts):
    tot = F(0)
    atot = F(0)
    for p, w in zip(pts, wts):
        t = w
        for x, k in zip(p, exps):
            t *= x ** k
        tot += t
        atot += abs(t)
    return tot, atot


def oracle(case, r):
    """The property's own predicate on the implementation outputs. Returns list of (kind, sig_extra, text);
    only the first (root) failure of a case is reported."""
    fam, bnd = case['fam'], case['bnd']
    if 'exc' in r and r['exc'][0] != 'integrate':
        return [('exception', dict(stage=r['exc'][0], exc=r['exc'][1]), 'raises %s' % r['exc'])]
    num = r['num']
    coords, w1, pts, wts = r['coords'], r['w1'], r['points'], r['weights']
    ann = 1
    for n in num:
        ann *= n
    for d, n in enumerate(num):
        if len(coords[d]) != n:
            return [('count-mismatch', {}, 'dimension %d: levelToNumPoints announces %d points, coordinate array has %d'
                     % (d, n, len(coords[d])))]
    if len(pts) != ann:
        return [('count-mismatch', {}, 'levelToNumPoints announces %d points, getPoints returns %d' % (ann, len(pts)))]
    for d in range(len(num)):
        if len(w1[d]) != len(coords[d]):
            return [('points-weights-length-mismatch', {}, 'dimension %d: %d coordinates but %d weights'
                     % (d, len(coords[d]), len(w1[d])))]
    if len(wts) != len(pts):
        return [('points-weights-length-mismatch', {}, '%d points but %d weights' % (len(pts), len(wts)))]
    for p in pts:
        for d, x in enumerate(p):
            if not (F(case['s'][d]) <= x <= F(case['e'][d])):
                return [('outside-box', {}, 'point %s lies outside the sub-box in dimension %d' % ([float(v) for v in p], d))]
    if 'exc' in r:
        return [('exception', dict(stage=r['exc'][0], exc=r['exc'][1]), 'raises %s' % r['exc'])]
    # boundary-off clause (trapezoidal; alignment clause for Simpson / Clenshaw-Curtis): off = on restricted
    if 'on' in r and 'exc' not in r['on']:
        on = r['on']
        a = [F(x) for x in case['a']]
        b = [F(x) for x in case['b']]
        for d in range(len(num)):
            keep = [(x, w) for x, w in zip(on['coords'][d], on['w1'][d]) if x != a[d] and x != b[d]]
            got = list(zip(coords[d], w1[d]))
            if keep != got:
                lvl0 = case['lv'][d] == 0 and touch_class(case)[d] == 1
                return [('boundary-off-not-restriction', dict(level0_onesided=lvl0),
                         'dimension %d: boundary=False returns %s, boundary=True without the global boundary points is %s'
                         % (d, [(float(x), float(w)) for x, w in got][:6], [(float(x), float(w)) for x, w in keep][:6]))]
    # weight sum / nominal degree where meaningful
    mean = meaningful(case)
    degs = nominal_degrees(case, npwb_of(case))
    gdegs = nominal_degrees(case, npwb_of(case), guaranteed=True)
    rtol = RTOL[fam]
    use_w = r.get('effw') if fam in HIER else wts

    def kind_for(exps):
        if all(k <= g for k, g in zip(exps, gdegs)):
            return 'moment-residual'
        return 'moment-residual-above-hierarchical-degree'

    res = []
    if all(mean) and use_w is not None:
        for exps in [[0] * len(num)] + [x for x in case.get('exps', []) if all(k <= dg for k, dg in zip(x, degs))]:
            tot, atot = rule_moment(exps, pts, use_w)
            ex = exact_moment(exps, case)
            if abs(tot - ex) > rtol * atot:
                what = 'weights sum to %s, box volume is %s' % (float(tot), float(ex)) if not any(exps) else \
                    'monomial with exponents %s: rule gives %.17g, exact %.17g' % (exps, float(tot), float(ex))
                res.append((kind_for(exps), dict(degree0=not any(exps)), what))
    if all(mean) and 'integrals' in r:
        for exps, v in zip(case.get('exps', []), r['integrals']):
            if all(k <= dg for k, dg in zip(exps, degs)):
                ex = exact_moment(exps, case)
                tot, atot = rule_moment(exps, pts, [abs(w) for w in (use_w or wts)])
                if abs(v - ex) > max(rtol, F(1, 2 ** 36)) * max(atot, abs(ex)):
                    res.append((kind_for(exps), dict(degree0=not any(exps)),
                                'integrate() of the monomial with exponents %s returns %.17g, exact %.17g' % (exps, float(v), float(ex))))
    # a failure within the guaranteed degree is the root failure
    res.sort(key=lambda x: x[0] != 'moment-residual')
    return res[:1]


# ----------------------------------------------------------------------------------------------- comparison
def close(x, y, scale=None, factor=256):
    if x == y:
        return True
    sc = abs(y) if scale is None else scale
    return abs(x - y) <= factor * EPS * sc


def model_cases_for(case, r):
    """model invocations for one case: list of (tag, (sub, value))"""
    fam = case['fam']
    out = []
    if fam in EQFAM:
        dims = [[F(a), F(b), F(s), F(e), l] for a, b, s, e, l in zip(case['a'], case['b'], case['s'], case['e'], case['lv'])]
        out.append(('eq', (0, [EQFAM[fam], 1 if case['bnd'] else 0, dims, case.get('exps', [])])))
    for d in range(len(case['lv'])):
        out.append(('cnt%d' % d, (2, [CNTFAM[fam], 1 if case['bnd'] else 0, F(case['a'][d]), F(case['b'][d]),
                                     F(case['s'][d]), F(case['e'][d]), case['lv'][d]])))
    if 'num' in r and 'points' in r:
        mean = meaningful(case)
        degs = nominal_degrees(case, npwb_of(case), guaranteed=True)
        nd = len(case['lv'])
        if fam not in HIER:
            for d in range(nd):
                if mean[d] and len(r['coords'][d]) == len(r['w1'][d]) and len(r['coords'][d]) > 0:
                    out.append(('mom%d' % d, (1, [r['coords'][d], r['w1'][d], F(case['s'][d]), F(case['e'][d]),
                                                  min(degs[d], 40), RTOL[fam]])))
        wts = r.get('effw') if fam in HIER else r['weights']
        box = [[F(s), F(e)] for s, e in zip(case['s'], case['e'])]
        if all(mean) and wts is not None and len(wts) == len(r['points']) and 0 < len(wts) <= 130:
            expss = [[0] * nd]
            if fam in HIER:      # every degree along every axis (no 1D rule is observable for these families)
                for d in range(nd):
                    for k in range(1, degs[d] + 1):
                        expss.append([k if i == d else 0 for i in range(nd)])
            for x in case.get('exps', []):
                if all(k <= dg for k, dg in zip(x, degs)) and x not in expss:
                    expss.append(x)
            out.append(('nd', (3, [r['points'], wts, box, expss, RTOL[fam]])))
        elif len(r['points']) == len(r['weights']) and 0 < len(r['points']) <= 400:
            out.append(('inside', (3, [r['points'], r['weights'], box, [], F(1)])))
    return out


def key_of(case):
    return json.dumps([case['fam'], case.get('p'), case['bnd'], case['a'], case['b'], case['s'], case['e'], case['lv']])


def sig_of(case):
    return dict(family=case['fam'], boundary=case['bnd'], whole_domain=all(t == 2 for t in touch_class(case)))


def judge(chk, case, st, r, mres, report_case=None):
    """Compare one case against the model results `mres` (dict tag -> decoded model value). Returns #violations."""
    sig = sig_of(case)
    nv = 0
    rc = report_case if report_case is not None else case
    if st != 'ok':
        chk.violation('oracle:grid_contract', 'exception', dict(sig, stage='worker', exc=(r[0] if r else st)), rc,
                      dict(impl=str(r)))
        return 1
    orc = oracle(case, r)
    diffs = []
    fam = case['fam']
    # ---- counts (all families)
    for d in range(len(case['lv'])):
        m = mres.get('cnt%d' % d)
        if m is None or sx.is_err(m):
            diffs.append(('model-count', 'model error %s' % (m,)))
            continue
        np_, npwb, lo, up, ln = m
        if 'num' in r:
            if r['num'][d] != np_:
                diffs.append(('levelToNumPoints', 'dimension %d: model announces %d, implementation %d' % (d, np_, r['num'][d])))
            if 'coords' in r:
                want = ln if not (fam in ('trap', 'trapmod', 'simpson') and not case['bnd'] and np_ == 1) else 1
                if fam == 'gl':
                    want = np_
                if fam == 'cc':
                    want = np_       # Clenshaw-Curtis builds exactly num_points coordinates (no slice)
                if len(r['coords'][d]) != want:
                    diffs.append(('coords-length', 'dimension %d: model slice has %d indices, implementation returns %d coordinates'
                                  % (d, want, len(r['coords'][d]))))
    # ---- exact model (trapezoidal / Simpson)
    m = mres.get('eq')
    if m is not None and 'coords' in r:
        if sx.is_err(m):
            diffs.append(('model', 'model error %s' % (m,)))
        else:
            mnum, mcoords, mw1, mpts, mwts, mints, mexact = m
            mcoords = [[sx.q(x) for x in c] for c in mcoords]
            mw1 = [[sx.q(x) for x in c] for c in mw1]
            mpts = [[sx.q(x) for x in p] for p in mpts]
            mwts = [sx.q(x) for x in mwts]
            mints = [sx.q(x) for x in mints]
            exactw = fam != 'simpson'
            if mnum != r['num']:
                diffs.append(('levelToNumPoints', 'model %s implementation %s' % (mnum, r['num'])))
            if mcoords != r['coords']:
                diffs.append(('coordinates', 'model %s implementation %s' % (
                    [[float(x) for x in c] for c in mcoords], [[float(x) for x in c] for c in r['coords']])))
            okw = [len(a) == len(b) and all((x == y) if exactw else close(y, x, factor=4) for x, y in zip(a, b))
                   for a, b in zip(mw1, r['w1'])]
            if not all(okw) or len(mw1) != len(r['w1']):
                diffs.append(('weights1d', 'model %s implementation %s' % (
                    [[float(x) for x in c] for c in mw1], [[float(x) for x in c] for c in r['w1']])))
            if mpts != r['points']:
                diffs.append(('points', 'tensor points differ (model %d, implementation %d points)' % (len(mpts), len(r['points']))))
            if len(mwts) != len(r['weights']) or not all((x == y) if exactw else close(y, x, factor=16)
                                                         for x, y in zip(mwts, r['weights'])):
                diffs.append(('weights', 'tensor weights differ (model %d, implementation %d weights)' % (len(mwts), len(r['weights']))))
            if 'integrals' in r and not diffs:
                for exps, mv, iv in zip(case.get('exps', []), mints, r['integrals']):
                    _, atot = rule_moment(exps, mpts, [abs(w) for w in mwts])
                    if not close(iv, mv, scale=atot):
                        diffs.append(('integrate', 'exponents %s: model %.17g implementation %.17g' % (exps, float(mv), float(iv))))
                        break
    # ---- verified checkers on implementation outputs
    for tag, m in mres.items():
        if tag.startswith('mom'):
            d = int(tag[3:])
            if sx.is_err(m) or m[0] != 1:
                diffs.append(('checker:moments_ok', 'dimension %d: moments_ok rejects the 1D rule returned by the implementation '
                              '(first failing degree %s)' % (d, m[1] if not sx.is_err(m) else m)))
        elif tag == 'nd':
            if sx.is_err(m) or m[0] != 1 or m[1] != 1:
                diffs.append(('checker:nd_moments_ok', 'nd_moments_ok/inside_box rejects the tensor rule (moments %s inside %s first bad %s)'
                              % tuple(m if not sx.is_err(m) else (m, '', ''))))
        elif tag == 'inside':
            if sx.is_err(m) or m[1] != 1:
                diffs.append(('checker:inside_box', 'inside_box rejects a point returned by the implementation'))
    # ---- verdict
    if orc:
        kind, extra, text = orc[0]
        chk.violation('oracle:grid_contract', kind, dict(sig, **extra), rc,
                      dict(property_predicate=text, correspondence=[d[0] for d in diffs], detail=[d[1][:400] for d in diffs][:4]))
        nv += 1
    elif diffs:
        obs = diffs[0][0]
        check = obs if obs.startswith('checker:') else 'corr:C08/' + obs
        chk.violation(check, 'model-differs' if not obs.startswith('checker:') else 'checker-rejects',
                      dict(sig, observable=obs), rc,
                      dict(differs=[d[0] for d in diffs], detail=[d[1][:600] for d in diffs][:4],
                           property_predicate='holds on this case'), failing_input=False)
        nv += 1
    return nv


def run_cases(chk, hists):
    """Runs the histories on the implementation (one object per history) and the model (per step).
    Returns per history: (status, [step results]), [per-step dict tag -> model result]."""
    impl = run_impl(impl_run, hists, limit=240)
    mcases, owner = [], []
    for i, (h, (st, rs)) in enumerate(zip(hists, impl)):
        if st != 'ok':
            continue
        for k, (c, r) in enumerate(zip(steps_of(h), rs)):
            for tag, mc in model_cases_for(c, r):
                mcases.append(mc)
                owner.append((i, k, tag))
    mres = run_model(8, mcases, nproc=16)
    per = [[dict() for _ in h['steps']] for h in hists]
    for (i, k, tag), m in zip(owner, mres):
        per[i][k][tag] = m
    return impl, per


def judge_history(chk, h, st, rs, per):
    """Judges every step of a history; the reported case is the history up to (and including) the failing step."""
    if st != 'ok':
        chk.violation('oracle:grid_contract', 'exception',
                      dict(sig_of(steps_of(h)[0]), stage='worker', exc=(rs[0] if rs else st)), h, dict(impl=str(rs)))
        return 1
    nv = 0
    for k, (c, r) in enumerate(zip(steps_of(h), rs)):
        nv += judge(chk, c, 'ok', r, per[k], report_case=dict(h, steps=h['steps'][:k + 1]))
    return nv


def run(chk):
    chk.coq_obligations()
    n = chk.n(300, 5000)
    hists = [dict(c) for c in CORPUS] + [gen_case(chk.rng, chk.tier) for _ in range(n)]
    impl, per = run_cases(chk, hists)
    keys, samples = [], []
    nchk = nsteps = 0
    for h, (st, rs), mres in zip(hists, impl, per):
        chk.count('family=%s' % h['fam'])
        chk.count('dim=%d' % len(h['a']))
        chk.count('boundary=%s' % h['bnd'])
        chk.count('history_length=%d' % len(h['steps']))
        nv = judge_history(chk, h, st, rs, mres)
        for c, m in zip(steps_of(h), mres):
            nsteps += 1
            chk.count('touch=%s' % ''.join(str(t) for t in sorted(touch_class(c))))
            nchk += sum(1 for t in m if t.startswith('mom') or t == 'nd')
            if len(c['lv']) >= 2 or max(c['lv']) >= 2:
                keys.append(key_of(c))
        if st == 'ok' and nv == 0:
            chk.traces += 1
        if len(samples) < 3 and st == 'ok' and nv == 0 and len(h['a']) == 2 and len(h['steps']) >= 2 \
                and h['fam'] in ('trap', 'simpson', 'gl') and 'w1' in rs[-1]:
            samples.append(dict(history=h, num=[r.get('num') for r in rs],
                                last_weights_1d=[[float(w) for w in ws] for ws in rs[-1]['w1']]))
    chk.extra['checker_evaluations'] = nchk
    chk.extra['tolerances'] = dict(exact='trapezoidal points/weights, all coordinates, counts', rounded='256*eps*sum|terms| (Simpson weights 4 eps, tensor weights 16 eps)',
                                   checker_rtol={k: '2^-%d' % (v.denominator.bit_length() - 1) for k, v in RTOL.items()})
    chk.extra['steps'] = nsteps
    chk.record_cases(nsteps, keys,
                     'histories of 1..4 consecutive (sub-box, level vector) requests on ONE grid object; local grids '
                     '(trapezoidal/modified/Simpson/Clenshaw-Curtis/Leja/Gauss-Legendre/Lagrange/B-spline), d 1..3, '
                     'anisotropic level vectors, dyadic sub-boxes touching none/one/both global boundaries, boundary flag; '
                     'evaluations = steps; non-trivial = d >= 2 or some level >= 2; distinct by '
                     '(family,p,flag,domain,sub-box,levels)', samples)


def replay(chk, rep):
    h = rep['case']
    if 'steps' not in h:       # flat single-step case
        h = dict({k: v for k, v in h.items() if k not in ('s', 'e', 'lv', 'exps')},
                 steps=[dict(s=h['s'], e=h['e'], lv=h['lv'], exps=h.get('exps', []))])
    impl, per = run_cases(chk, [h])
    st, rs = impl[0]
    if st != 'ok':
        print('impl:', st, rs)
        return 1
    bad = 0
    for k, (c, r) in enumerate(zip(steps_of(h), rs)):
        print('step %d: sub-box %s..%s levels %s' % (k, c['s'], c['e'], c['lv']))
        print('  impl:', json.dumps(r, default=lambda x: float(x))[:1500])
        print('  model:', json.dumps(per[0][k], default=str)[:1500])
        orc = oracle(c, r)
        print('  property predicate:', orc[0][2] if orc else 'holds')
        bad += bool(orc)
    return 1 if bad else 0
