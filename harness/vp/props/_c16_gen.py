"""C16: source-derived model of the matrix-entry code and the scalar hat functions (DESIGN.md 0.5.1 scheme).
coq/Gen/DensityGen.v is regenerated from the working tree ($VERIF_REPO) by harness/translate/py2gallina_c16.py (a front end of
the shared translator, which is imported, not modified) under the build lock, before the proof obligations are (re)built;
Props/C16gen.v holds the equivalence theorems (generated = Model/Gram.v) and the C16 statements for the generated functions."""
import fcntl
import hashlib
import os
import re
import subprocess
import sys
from ..core import ROOT, COQ
from .. import gen

TRANSLATOR = os.path.join(ROOT, 'harness', 'translate', 'py2gallina_c16.py')
GEN_FILE = 'DensityGen.v'
GEN_CHAIN = ['Base/PyNumSeq.v', 'Gen/DensityGen.v', 'Proofs/GenDensityEq.v', 'Proofs/GenDensityEq2.v', 'Props/C16gen.v']
EXTRA_PROPS = ('C16gen',)
ASSUMPTION = gen.ASSUMPTION + (
    '; C16 front end (py2gallina_c16.py): DensityEstimation.calculate_R_value_analytically, hat_function_non_symmetric, hat_function, '
    'check_adjacency, get_hat_domain (both the debug and the plain branch) and take_closest (inherited from MachineLearning) are translated after '
    'source-level normalisations that are part of the trusted scheme (N1 local lambdas expanded at '
    'their calls, N2 if/else of parallel simple assignments -> conditional expressions, incl. lambdas chosen by the branch, N3 '
    '`if not all(G for d in range(n)): return` -> loop with early return, N4 chained comparison with a pure middle operand -> conjunction; '
    'N5 (take_closest) `if C: v = e else: v = [names]` -> `v = [names]; if C: v = e`; the rewritten bodies are printed in the generated file); additional operations with their semantics in coq/Base/PyNumSeq.v: filtering comprehensions / generators (py_filterM), max/min with default= and of float lists, `not list`, bisect_left as the binary search of the standard library (proved equal to the linear scan on strictly increasing lists); self.dim : int, self.debug : bool and self.grid.modified_basis : bool are parameters; '
    'not translated: build_R_matrix(_dimension_wise) (numpy 2D arrays, mutation), calculate_L2_scalarproduct (scipy nquad), the vectorised '
    'hat variants and interpolate_points_component_grid (numpy broadcasting), calculate_B* (the scalar loops are statements inside methods that '
    'also hold numpy code; their building blocks get_hat_domain, take_closest, hat_function_non_symmetric ARE translated) - tied by the correspondence only')


def regenerate(chk):
    with open(os.path.join(ROOT, '.buildlock'), 'w') as lk:
        fcntl.flock(lk, fcntl.LOCK_EX)
        p = subprocess.run([sys.executable, TRANSLATOR], capture_output=True, text=True)
    msg = '\n'.join(l for l in p.stderr.splitlines() if 'conda' not in l).strip()
    chk.checker_cmds.append('/venv/bin/python harness/translate/py2gallina_c16.py  (regenerates coq/Gen/%s from sparseSpACE/GridOperation.py)' % GEN_FILE)
    info = dict(rc=p.returncode, message=msg, target='density')
    try:
        src = open(os.path.join(COQ, 'Gen', GEN_FILE)).read()
        info['generated_sha256'] = hashlib.sha256(src.encode()).hexdigest()
        info['translated'] = re.findall(r'^\(\* (\S+:\d+-\d+)  (\S+) \*\)$', src, re.M)
    except OSError:
        pass
    chk.extra['source_derived_model'] = info
    return info


def diagnose(chk, info):
    """after coq_obligations: None when the generated model is in place and proved equivalent, else the reason"""
    problem = gen.gen_diagnosis(chk, info, GEN_CHAIN)
    gen.report(chk, info, problem, 'C16_gen_*')
    return problem


def finish(chk, info, problem):
    gen.finish_gen(chk, info, problem)
