"""C16: source-derived model of the matrix-entry code and the scalar hat functions (DESIGN.md 0.5.1 scheme).
coq/Gen/DensityGen.v is regenerated from the working tree ($VERIF_REPO) by harness/translate/py2gallina_c16.py (a front end of
the shared translator, which is imported, not modified) under the build lock, before the proof obligations are (re)built;
Props/C16gen.v holds the equivalence theorems (generated = Model/Gram.v) and the C16 statements for the generated functions."""
import fcntl
import hashlib
import os
import re
import subprocess
import sys
from ..core import ROOT, COQ
from .. import gen

TRANSLATOR = os.path.join(ROOT, 'harness', 'translate', 'py2gallina_c16.py')
GEN_FILE = 'DensityGen.v'
GEN_CHAIN = ['Gen/DensityGen.v', 'Proofs/GenDensityEq.v', 'Props/C16gen.v']
EXTRA_PROPS = ('C16gen',)
ASSUMPTION = gen.ASSUMPTION + (
    '; C16 front end (py2gallina_c16.py): DensityEstimation.calculate_R_value_analytically, hat_function_non_symmetric, hat_function and '
    'check_adjacency are translated after four source-level normalisations that are part of the trusted scheme (N1 local lambdas expanded at '
    'their calls, N2 if/else of parallel simple assignments -> conditional expressions, incl. lambdas chosen by the branch, N3 '
    '`if not all(G for d in range(n)): return` -> loop with early return, N4 chained comparison with a pure middle operand -> conjunction; '
    'the rewritten bodies are printed in the generated file); self.dim : int and self.grid.modified_basis : bool are parameters; '
    'not translated: build_R_matrix(_dimension_wise) (numpy 2D arrays, mutation), calculate_L2_scalarproduct (scipy nquad), the vectorised '
    'hat variants (numpy broadcasting) and calculate_B* - tied by the correspondence only')


def regenerate(chk):
    with open(os.path.join(ROOT, '.buildlock'), 'w') as lk:
        fcntl.flock(lk, fcntl.LOCK_EX)
        p = subprocess.run([sys.executable, TRANSLATOR], capture_output=True, text=True)
    msg = '\n'.join(l for l in p.stderr.splitlines() if 'conda' not in l).strip()
    chk.checker_cmds.append('/venv/bin/python harness/translate/py2gallina_c16.py  (regenerates coq/Gen/%s from sparseSpACE/GridOperation.py)' % GEN_FILE)
    info = dict(rc=p.returncode, message=msg, target='density')
    try:
        src = open(os.path.join(COQ, 'Gen', GEN_FILE)).read()
        info['generated_sha256'] = hashlib.sha256(src.encode()).hexdigest()
        info['translated'] = re.findall(r'^\(\* (\S+:\d+-\d+)  (\S+) \*\)$', src, re.M)
    except OSError:
        pass
    chk.extra['source_derived_model'] = info
    return info


def diagnose(chk, info):
    """after coq_obligations: None when the generated model is in place and proved equivalent, else the reason"""
    problem = gen.gen_diagnosis(chk, info, GEN_CHAIN)
    gen.report(chk, info, problem, 'C16_gen_*')
    return problem


def finish(chk, info, problem):
    gen.finish_gen(chk, info, problem)
