"""C07: source-derived model of the decision arithmetic of SpatiallyAdaptiveExtendScheme.coarsen_grid (DESIGN.md 0.5 scheme).
coq/Gen/CoarsenGridGen.v is regenerated from the working tree ($VERIF_REPO) by harness/translate/py2gallina_c07.py (own small front end)
under the build lock, before the proof obligations are (re)built; Props/C07gen.v holds the equivalence theorems."""
import fcntl
import hashlib
import os
import re
import subprocess
import sys
from ..core import ROOT, COQ
from .. import gen

TRANSLATOR = os.path.join(ROOT, 'harness', 'translate', 'py2gallina_c07.py')
GEN_FILE = 'CoarsenGridGen.v'
GEN_CHAIN = ['Gen/CoarsenGridGen.v', 'Proofs/GenCoarsenGridEq.v', 'Props/C07gen.v']
EXTRA_PROPS = ('C07gen',)
ASSUMPTION = (
    'source-derived model of the decision arithmetic of coarsen_grid (py2gallina_c07.py): Python `ast` and the translation scheme are trusted; '
    'translated expression by expression: the version-0 test, num_sub_diagonal / assert / is_top_diag / no_forward_problem / do_coarsen of versions 1 and 2, '
    'num_sub_diagonal / assert / lowering test / direction update of version 3, the element expression of level_coarse (Python ints = Z, % = Z.modulo, a bool '
    'used as a number = b2z; attribute reads, subscripts and locals are parameters); the statement frame around them (branch and loop tests, max / count, the '
    'list updates, break) is checked structurally and otherwise hand-modelled; anything else is rejected')


def regenerate(chk):
    with open(os.path.join(ROOT, '.buildlock'), 'w') as lk:
        fcntl.flock(lk, fcntl.LOCK_EX)
        p = subprocess.run([sys.executable, TRANSLATOR], capture_output=True, text=True)
    msg = '\n'.join(l for l in p.stderr.splitlines() if 'conda' not in l).strip()
    chk.checker_cmds.append('/venv/bin/python harness/translate/py2gallina_c07.py  (regenerates coq/Gen/%s from sparseSpACE/spatiallyAdaptiveExtendSplit.py)' % GEN_FILE)
    info = dict(rc=p.returncode, message=msg, target='coarsen_grid')
    try:
        src = open(os.path.join(COQ, 'Gen', GEN_FILE)).read()
        info['generated_sha256'] = hashlib.sha256(src.encode()).hexdigest()
        info['translated'] = re.findall(r'^\(\* (\S+:\d+-\d+)  (\S+) \*\)$', src, re.M)
    except OSError:
        pass
    chk.extra['source_derived_model'] = info
    return info


def diagnose(chk, info):
    """after coq_obligations: None when the generated model is in place and proved equivalent, else the reason"""
    problem = gen.gen_diagnosis(chk, info, GEN_CHAIN)
    gen.report(chk, info, problem, 'C07_gen_*')
    return problem


def finish(chk, info, problem):
    gen.finish_gen(chk, info, problem)
