"""C02: standard combination = sparse-grid interpolant. Correspondence model <-> StandardCombi/TrapezoidalGrid/Integration.

A case is a short HISTORY on one or two (StandardCombi, TrapezoidalGrid, Integration) object triples living in one process:
steps = [(object, lmin, lmax, evaluation points, observation order, ...)]. Every step is compared with the model (a pure
function of the request) and with the property predicate (oracle) evaluated on the implementation alone."""
import itertools
import math
import random
import time
from fractions import Fraction as Fr
from .. import sx
from ..impl import run_impl
from ..model import run_model
from . import _c02_gen

ASSUMPTIONS = ['exact-arithmetic model (Qc); inputs on dyadic lattices so that the float results are exact or within 1e-11 relative',
               'scipy.interpolate.interpn(method="linear") modelled as dimension-by-dimension piecewise-linear interpolation',
               'numpy linspace/inner/prod modelled exactly',
               'Function cache (f_dict) size modelled as the number of distinct component-grid points; np.isclose / math.isclose in '
               'Grid.points_not_zero / level_to_num_points_1d modelled as exact equality (they differ only for boxes whose mesh width '
               'is below 1e-8 + 1e-5*|bound|: those cases are generated, flagged rtol_collision and reported - known finding)',
               _c02_gen.ASSUMPTION]

TOL = Fr(1, 10 ** 11)
TOLF = 1e-11
NODAL_CAP = 1500            # at most this many sparse-grid points are interpolated per step (all of them below the cap)


def dy(rng, lo, hi, bits):
    return Fr(rng.randrange(lo * 2 ** bits, hi * 2 ** bits + 1), 2 ** bits)


# ------------------------------------------------------------------------------------------------------------ generator
def est_points(d, lmin, lmax, boundary):
    """rough number of component-grid points of one request (cost estimate)"""
    n = lmax - lmin
    if n < 0:
        return 0
    tot = 0
    for q in range(min(d, n + 1)):
        k = n - q
        # number of level vectors with |l - lmin|_1 = k times the typical grid size 2^(k + d*lmin)
        tot += math.comb(k + d - 1, d - 1) * 2 ** (k + d * lmin) * (1.3 if boundary else 1.0)
    return tot


def gen_fs(rng, d, lmin, lmax, a, b, boundary):
    kind = rng.choice([0, 0, 1, 1, 1, 2])
    if kind == 0:
        return [0, [Fr(rng.randrange(-3, 4)) for _ in range(d)], [Fr(rng.randrange(-2, 3)) for _ in range(d)]]
    if kind == 1:
        # hierarchical hat basis function: odd index on level j >= 1 (or level-lmin nodal hat), level chosen near the index set
        j = [rng.randrange(1, max(lmax, 1) + 2) for _ in range(d)]
        i = []
        for jd in j:
            if boundary and rng.random() < 0.15:
                i.append(rng.choice([0, 2 ** jd]))
            elif jd <= lmin and rng.random() < 0.3:
                i.append(rng.randrange(1, 2 ** jd))            # nodal hat of a level <= lmin: any interior index
            else:
                i.append(rng.randrange(0, 2 ** (jd - 1)) * 2 + 1)
        return [1, j, i]
    # nodal unit function at a point of a random component-like grid
    lv = [rng.randrange(1, max(lmax, 1) + 1) for _ in range(d)]
    p = [a[k] + (b[k] - a[k]) * Fr(rng.randrange(0 if boundary else 1, 2 ** lv[k] + (1 if boundary else 0)), 2 ** lv[k]) for k in range(d)]
    return [2, p]


def gen_box(rng, d, far):
    if far:
        base = rng.choice([Fr(100), Fr(1000), Fr(-1000), Fr(2 ** 20), Fr(1)])
        a, b = [], []
        for _ in range(d):
            if base == 1:
                w = Fr(1, 2 ** rng.choice([10, 12]))            # tiny box next to 1: the mesh width drops below 1e-5 * |a|
                lo = Fr(1)
            else:
                w = rng.choice([Fr(1, 2), Fr(1), Fr(4)])
                lo = base + rng.choice([0, 1, -2])
            a.append(lo); b.append(lo + w)
        return a, b
    a = [dy(rng, -2, 1, 1) for _ in range(d)]
    b = [a[i] + rng.choice([Fr(1, 2), 1, 1, 2, 3]) for i in range(d)]
    return a, b


def gen_levels(rng, d, boundary, budget):
    for _ in range(50):
        r = rng.random()
        if r < 0.04:
            lmin = 0
        elif d <= 3:
            lmin = rng.choice([1, 1, 2, 3])
        else:
            lmin = rng.choice([1, 1, 2])
        span = rng.choice([0, 1, 2, 3] if d <= 2 else [0, 1, 2])
        if rng.random() < 0.03:
            span = -1                                          # lmin > lmax: empty scheme (outside the property; model and code agree)
        if est_points(d, lmin, lmin + span, boundary) <= budget:
            return lmin, lmin + span
    return 1, 1


def gen_pts(rng, d, a, b, n):
    return [[a[k] + (b[k] - a[k]) * Fr(rng.randrange(0, 2 ** 5 + 1), 2 ** 5) for k in range(d)] for _ in range(n)]


def gen_step(rng, d, obj, objs, budget, first=None):
    o = objs[obj]
    if first is None:
        lmin, lmax = gen_levels(rng, d, o['boundary'], budget)
    else:
        # follow-up request: same / shifted lmin with the same or a neighbouring span (stale schemes, caches keyed by too little)
        for _ in range(20):
            sh = rng.choice([-1, 1, 1, 0, 0])
            lmin = max(0 if first[0] == 0 else 1, first[0] + sh)
            sp = first[1] - first[0]
            sp2 = sp if rng.random() < 0.6 else max(0, sp + rng.choice([-1, 1]))
            lmax = lmin + sp2
            if est_points(d, lmin, lmax, o['boundary']) <= budget:
                break
        else:
            lmin, lmax = first
    r = rng.random()
    npts = 0 if r < 0.04 else 6
    st = dict(obj=obj, lmin=lmin, lmax=lmax, pts=gen_pts(rng, d, o['a'], o['b'], npts), grid_eval=rng.random() < 0.5,
              want_pw=rng.random() < 0.35, probe_first=rng.random() < 0.5, np_levels=rng.random() < 0.15,
              pts_form=rng.choice(['tuples'] * 8 + ['ndarray'] * 4 + ['fortran'] * 2 + ['view'] * 3 + ['float32'] * 3))
    st['pts_array'] = st['pts_form'] != 'tuples'
    # public observer calls between the stop and the observations (axis e)
    if rng.random() < 0.6:
        st['observers'] = [rng.randrange(0, 7) for _ in range(rng.choice([1, 2, 3]))]
    # a level vector outside the scheme: anisotropic, large, level 0 (axis i)
    if rng.random() < 0.5:
        for _ in range(10):
            lv = [rng.randrange(0, 8 if d <= 2 else 4) for _ in range(d)]
            n = 1
            for x in lv:
                n *= 2 ** x + 1
            if n <= 3000:
                st['extra_lv'] = lv
                break
    return st


def gen_case(rng, tier):
    d = rng.choice([1, 2, 2, 2, 3, 3, 3, 4, 4, 5] if tier == 'quick' else [1, 2, 2, 3, 3, 4, 4, 5])
    far = rng.random() < 0.1
    if far:
        d = rng.choice([1, 1, 2])
    budget = {1: 3000, 2: 2500, 3: 2500, 4: 2500, 5: 1500}[d] * (1 if tier == 'quick' else 3)
    a, b = gen_box(rng, d, far)
    boundary = rng.random() < (0.3 if far else 0.5)
    ab_form = rng.choice(['array'] * 11 + ['list'] * 3 + ['int'] * 3 + ['view'] * 3)
    objs = [dict(a=a, b=b, boundary=boundary, integrator='old' if rng.random() < 0.15 else None, ab_form=ab_form, ab_lists=ab_form == 'list')]
    if rng.random() < 0.3:
        # a second object triple in the same process: other boundary flag on the same box, or another box with the same flag
        if rng.random() < 0.5:
            # ... built on the SAME bound objects (axis b) half of the time
            objs.append(dict(a=a, b=b, boundary=not boundary, integrator=None, ab_form=ab_form, ab_lists=ab_form == 'list', share_ab=rng.random() < 0.7))
        else:
            a2, b2 = gen_box(rng, d, False)
            objs.append(dict(a=a2, b=b2, boundary=boundary, integrator=None, ab_form='array'))
    steps = [gen_step(rng, d, 0, objs, budget)]
    if far and rng.random() < 0.7:
        # levels at which the mesh width falls below np.isclose's tolerance 1e-8 + 1e-5 * |bound| (known finding when boundary is off)
        need = min(max(0, math.ceil(math.log2(float(b[k] - a[k]) / (1e-8 + 1e-5 * max(abs(float(a[k])), abs(float(b[k]))))))) for k in range(d))
        for sp in (rng.choice([0, 1, 2]), 1, 0):
            lmax = max(need, 1) + rng.choice([0, 0, 1])
            lmin = max(1, lmax - sp)
            if est_points(d, lmin, lmax, boundary) <= 2 * budget:
                steps[0].update(lmin=lmin, lmax=lmax, no_cap=True)
                break
    if rng.random() < 0.65:
        for _ in range(rng.choice([1, 1, 2])):
            obj = rng.randrange(len(objs))
            st = gen_step(rng, d, obj, objs, budget, first=(steps[0]['lmin'], steps[0]['lmax']))
            if steps[-1]['obj'] == obj and rng.random() < 0.3:
                # the very same points object is handed over again (axis b)
                st.update(pts=steps[-1]['pts'], pts_form=steps[-1]['pts_form'], pts_array=steps[-1]['pts_array'], pts_same=True)
            steps.append(st)
    lmin, lmax = steps[0]['lmin'], steps[0]['lmax']
    fss = [gen_fs(rng, d, lmin, lmax, a, b, boundary)]
    if rng.random() < 0.2:
        fss.append(gen_fs(rng, d, lmin, lmax, a, b, boundary))       # vector-valued function (output_length 2)
    # magnitudes (axis d): the function values (and the reference) scaled by a power of two, 2^-60 .. 2^30
    return dict(d=d, objs=objs, fss=fss, ref=rng.random() < 0.25, steps=steps, fscale=rng.choice([0] * 6 + [-60, -20, 10, 30]),
                sibling=rng.random() < 0.12, siblings=gen_siblings(rng, d, boundary))


def gen_siblings(rng, d, boundary):
    """axis (g): further live objects of the SAME class as the grid under test, with every option combination the class accepts
    (boundary x modified_basis), another domain with the same mesh width (shifted box), another dimension; they are evaluated at
    the (mesh width, level) values of the object under test BEFORE it works.  Part of the case, so a violating case replays."""
    if rng.random() >= 0.35:
        return []
    out = []
    for _ in range(rng.choice([1, 1, 2])):
        opt = rng.choice([(False, True), (False, True), (False, False), (True, False)])      # (boundary, modified_basis)
        out.append(dict(boundary=opt[0], modified_basis=opt[1], shift=rng.choice([0, 0, 1, -3]),
                        ddelta=rng.choice([0, 0, 0, -1, 1]) if d > 1 else rng.choice([0, 0, 1])))
    return out


def big_cases(rng):
    """sizes beyond typical internal thresholds (64, 200, 1024, 2048): large 1D/2D component grids, many evaluation points"""
    out = []
    # 1D, 2^11 + 1 = 2049 points per grid
    a, b = [Fr(-1)], [Fr(1)]
    for bd in (True, False):
        objs = [dict(a=a, b=b, boundary=bd, integrator=None)]
        st = [dict(obj=0, lmin=10, lmax=11, pts=gen_pts(rng, 1, a, b, 6), grid_eval=False, want_pw=bd, probe_first=False, pts_array=False)]
        out.append(dict(d=1, objs=objs, fss=[[1, [9], [2 * rng.randrange(0, 2 ** 8) + 1]]], ref=False, steps=st))
    # 1D, 4097 and 8193 points per grid (beyond 4096)
    objs = [dict(a=[Fr(0)], b=[Fr(1)], boundary=True, integrator=None)]
    st = [dict(obj=0, lmin=12, lmax=13, pts=gen_pts(rng, 1, [Fr(0)], [Fr(1)], 6), grid_eval=False, want_pw=False, probe_first=True, pts_array=False)]
    out.append(dict(d=1, objs=objs, fss=[[0, [Fr(1)], [Fr(-1)]]], ref=True, steps=st))
    # 2D anisotropic, 33 x 65 = 2145 points in one component grid
    a, b = [Fr(0), Fr(1, 2)], [Fr(2), Fr(1)]
    objs = [dict(a=a, b=b, boundary=True, integrator=None)]
    st = [dict(obj=0, lmin=5, lmax=6, pts=gen_pts(rng, 2, a, b, 6), grid_eval=True, want_pw=False, probe_first=True, pts_array=False)]
    out.append(dict(d=2, objs=objs, fss=[[0, [Fr(1), Fr(-2)], [Fr(1), Fr(0)]]], ref=False, steps=st))
    # all binomial coefficients of the closed form occur only for lmax - lmin >= d - 1: d = 4 with three coarser diagonals (q = 0..3)
    a, b = gen_box(rng, 4, False)
    objs = [dict(a=a, b=b, boundary=False, integrator=None)]
    st = [dict(obj=0, lmin=1, lmax=4, pts=gen_pts(rng, 4, a, b, 6), grid_eval=False, want_pw=False, probe_first=False, pts_array=False)]
    out.append(dict(d=4, objs=objs, fss=[[1, [2, 1, 2, 1], [1, 1, 3, 1]]], ref=False, steps=st))
    # many evaluation points (not a multiple of any power of two or of 100), two requests on one object
    for d, (l0, l1) in ((2, (1, 3)), (3, (1, 2))):
        a, b = gen_box(rng, d, False)
        bd = rng.random() < 0.5
        objs = [dict(a=a, b=b, boundary=bd, integrator=None)]
        st = [dict(obj=0, lmin=l0, lmax=l1, pts=gen_pts(rng, d, a, b, 1031), grid_eval=False, want_pw=False, probe_first=False, pts_array=True),
              dict(obj=0, lmin=l0 + 1, lmax=l1 + 1, pts=gen_pts(rng, d, a, b, 205), grid_eval=False, want_pw=False, probe_first=True, pts_array=False)]
        out.append(dict(d=d, objs=objs, fss=[gen_fs(rng, d, l0, l1, a, b, bd)], ref=False, steps=st))
    return out


# ------------------------------------------------------------------------------------------------------- implementation
def make_function(fss, a, b, scale=1.0):
    import numpy as np
    from sparseSpACE.Function import Function
    fa = [float(x) for x in a]; fb = [float(x) for x in b]

    def one(fs, x):
        if fs[0] == 0:
            s = 0.0
            p = 1.0
            for k in range(len(x)):
                s += float(fs[1][k]) * x[k] * x[k]
                p *= (float(fs[2][k]) + x[k])
            return s + p
        if fs[0] == 1:
            v = 1.0
            for k in range(len(x)):
                h = (fb[k] - fa[k]) / 2 ** fs[1][k]
                c = fa[k] + fs[2][k] * h
                t = abs(x[k] - c) / h
                v *= (1 - t) if t <= 1 else 0.0
            return v
        return 1.0 if all(float(fs[1][k]) == x[k] for k in range(len(x))) else 0.0

    class F(Function):
        def output_length(self):
            return len(fss)

        def eval(self, x):
            if len(fss) == 1:
                return scale * one(fss[0], x)
            return np.array([scale * one(fs, x) for fs in fss])

        def comps(self, x):
            return [scale * one(fs, x) for fs in fss]
    return F()


def ref_solution(c):
    return [fscale(c) * float(3 + k) / 4 for k in range(len(c['fss']))]


def fscale(c):
    return 2.0 ** c.get('fscale', 0)


class ArgWatch:
    """axis (a): every object handed to the library is snapshotted at hand-over and compared after the calls"""
    def __init__(self):
        self.items = []

    def add(self, name, obj):
        import copy
        import numpy as np
        snap = np.array(obj, copy=True) if isinstance(obj, np.ndarray) else copy.deepcopy(obj)
        self.items.append((name, obj, snap))
        return obj

    def mutated(self):
        import numpy as np
        bad = []
        for name, obj, snap in self.items:
            if isinstance(obj, np.ndarray):
                same = obj.shape == snap.shape and obj.dtype == snap.dtype and np.array_equal(obj, snap)
            else:
                same = obj == snap
            if not same:
                bad.append(name)
        return sorted(set(bad))


def make_bounds(o, np, parents):
    """axis (b): the box as fresh float arrays, Python lists, integer arrays, or views into one parent array"""
    a = [float(x) for x in o['a']]; b = [float(x) for x in o['b']]
    form = o.get('ab_form') or ('list' if o.get('ab_lists') else 'array')
    if form == 'list':
        return a, b
    if form == 'int' and all(x == int(x) for x in a + b):
        return np.array([int(x) for x in a]), np.array([int(x) for x in b])
    if form == 'view':
        parent = np.zeros((2, 2 * len(a) + 1))
        parent[0, 1::2] = a; parent[1, 1::2] = b
        parents.append(parent)
        return parent[0, 1::2], parent[1, 1::2]
    return np.array(a), np.array(b)


def make_points(st, d, np, far):
    """axis (b): evaluation points as list of tuples, C / Fortran ordered arrays, a strided view of a parent, float32"""
    pts = [tuple(float(x) for x in p) for p in st['pts']]
    form = st.get('pts_form') or ('ndarray' if st.get('pts_array') else 'tuples')
    if form == 'tuples' or not pts:
        return pts if form == 'tuples' else np.array(pts).reshape((len(pts), d))
    arr = np.array(pts).reshape((len(pts), d))
    if form == 'fortran':
        return np.asfortranarray(arr)
    if form == 'view':
        parent = np.full((2 * len(pts), d + 2), 7.5)
        parent[::2, 1:d + 1] = arr
        return parent[::2, 1:d + 1]
    if form == 'float32' and not far and np.array_equal(arr.astype(np.float32).astype(np.float64), arr):
        return arr.astype(np.float32)
    return arr


def impl_run(c):
    """runs the whole history; returns one result dict per step (floats, converted to exact rationals by the caller)"""
    import numpy as np
    from sparseSpACE.StandardCombi import StandardCombi
    from sparseSpACE.Grid import TrapezoidalGrid, SimpsonGrid
    from sparseSpACE.GridOperation import Integration
    trip = []
    watch = ArgWatch()
    parents = []
    shared = {}
    for n, o in enumerate(c['objs']):
        key = (str(o['a']), str(o['b']), o.get('ab_form'))
        if o.get('share_ab') and key in shared:
            a, b = shared[key]                      # axis (b): the SAME bound objects handed to a second object triple
        else:
            a, b = make_bounds(o, np, parents)
            shared[key] = (a, b)
            watch.add('a of object %d' % n, a); watch.add('b of object %d' % n, b)
        f = make_function(c['fss'], o['a'], o['b'], fscale(c))
        grid = TrapezoidalGrid(a=a, b=b, boundary=o['boundary'], integrator=o.get('integrator'))
        ref = watch.add('reference_solution of object %d' % n, np.array(ref_solution(c))) if c.get('ref') else None
        op = Integration(f=f, grid=grid, dim=c['d'], reference_solution=ref)
        trip.append((StandardCombi(a, b, operation=op, print_output=False), grid, f, a, b))
    sibling = None
    if c.get('sibling'):
        # axis (g): an object of a SIBLING grid class (same Grid1d base) alive and working in the same process
        try:
            a, b = trip[0][3], trip[0][4]
            gs = SimpsonGrid(a=a, b=b, boundary=True)
            sibling = StandardCombi(a, b, operation=Integration(f=make_function(c['fss'], c['objs'][0]['a'], c['objs'][0]['b'], 1.0), grid=gs, dim=c['d']))
        except BaseException:
            sibling = None
    trap_siblings = []
    o0 = c['objs'][0]
    for sp in c.get('siblings', []):
        try:
            dd = max(1, c['d'] + sp['ddelta'])
            sa = [float(o0['a'][q % c['d']]) + sp['shift'] for q in range(dd)]
            sb = [float(o0['b'][q % c['d']]) + sp['shift'] for q in range(dd)]
            gs_ = TrapezoidalGrid(a=np.array(sa), b=np.array(sb), boundary=sp['boundary'], modified_basis=sp['modified_basis'])
            fs_ = make_function([[0, [Fr(1)] * dd, [Fr(1)] * dd]], [Fr(x) for x in sa], [Fr(x) for x in sb], 1.0)
            trap_siblings.append(StandardCombi(np.array(sa), np.array(sb), operation=Integration(f=fs_, grid=gs_, dim=dd)))
        except BaseException:
            pass
    out = []
    last_req = {}
    for k, st in enumerate(c['steps']):
        sc, grid, f, a, b = trip[st['obj']]
        for ts in trap_siblings:
            # the sibling works first, at the levels (hence mesh widths) the object under test is about to use
            try:
                if st['lmax'] >= st['lmin'] >= 0 and est_points(ts.dim, st['lmin'], st['lmax'], True) <= 6000:
                    ts.perform_operation(st['lmin'], st['lmax'])
                else:
                    ts.perform_operation(1, 2)
            except BaseException:
                pass
        if sibling is not None:
            try:
                sibling.perform_operation(1, 2)
                sibling([tuple(float(x) for x in (c['objs'][0]['a'][q] + c['objs'][0]['b'][q]) / 2 for q in range(c['d']))])
            except BaseException:
                pass
        far = any(abs(float(x)) >= 100 for x in c['objs'][st['obj']]['a'])
        if st.get('pts_same') and st['obj'] in last_req and last_req[st['obj']][0] == st['pts']:
            req = last_req[st['obj']][1]             # axis (b): the same points object as in the previous request
        else:
            req = watch.add('evaluation points of step %d' % k, make_points(st, c['d'], np, far))
        last_req[st['obj']] = (st['pts'], req)
        r = impl_request(c, st, sc, grid, f, req, watch, k)
        r['mutated'] = watch.mutated()
        out.append(r)
    return out


def _f(x):
    return float(x)


SENTINEL = -7.25e300


def impl_request(c, st, sc, grid, f, req, watch, k):
    import numpy as np
    nout = len(c['fss'])
    d = c['d']
    if st.get('np_levels'):
        scheme, err, result = sc.perform_operation(np.int64(st['lmin']), np.int64(st['lmax']))
    else:
        scheme, err, result = sc.perform_operation(st['lmin'], st['lmax'])
    total_points = int(sc.get_total_num_points())
    total_naive = int(sc.get_total_num_points(distinct_function_evals=False))
    sch = [[[int(x) for x in g.levelvector], _f(g.coefficient)] for g in scheme]
    integral = [_f(x) for x in np.atleast_1d(result)]
    pts = [tuple(float(x) for x in p) for p in st['pts']]
    returned = []           # axis (c): every array / list a call returned; overwritten with a sentinel at the end of the step

    def keep(x):
        returned.append(x)
        return x
    keep(result)

    # axis (e): public observer calls on the live object between the stop and the observations (results discarded here)
    observers = 0
    for code in st.get('observers', []):
        try:
            if code == 0:
                sc.get_total_num_points()
            elif code == 1:
                sc.check_combi_scheme()
            elif code == 2 and pts:
                sc(pts[:2])
            elif code == 3 and st.get('extra_lv'):
                sc.get_points_and_weights_component_grid(watch.add('level vector of an observer call in step %d' % k, np.array(st['extra_lv'])))
            elif code == 4 and pts:
                sc.interpolate_grid([[p[q] for p in pts[:2]] for q in range(d)])
            elif code == 5:
                sc.get_points_and_weights()
            elif code == 6 and scheme:
                # (before the first setCurrentArea - e.g. after an empty scheme, lmax < lmin - these two raise AttributeError 'start':
                # level_to_num_points_1d reads the current area; documented as excluded)
                grid.levelToNumPoints([1] * d); sc.get_num_points_component_grid([2] * d, False)
            observers += 1
        except BaseException as e:
            return dict(observer_exception='%s in observer %d: %s' % (type(e).__name__, code, str(e)[:200]))

    attrs = {}

    def probe():
        comps = []
        for g in scheme:
            npnts = [int(x) for x in keep(grid.levelToNumPoints(g.levelvector))]
            num = int(sc.get_num_points_component_grid(g.levelvector, False))
            only_pts = [tuple(_f(x) for x in p) for p in keep(sc.get_points_component_grid(g.levelvector))]
            pts_, w = sc.get_points_and_weights_component_grid(g.levelvector)
            keep(pts_); keep(w)
            comps.append([npnts, num, [tuple(_f(x) for x in p) for p in pts_], [_f(x) for x in w], only_pts])
            # the state Grid1d.set_current_area left in the 1D grid objects (parameters of the source-derived model)
            for q, g1 in enumerate(grid.grids):
                key = '%d:%d' % (q, int(g.levelvector[q]))
                if key not in attrs and len(attrs) < 24:
                    attrs[key] = [int(g1.num_points), int(g1.num_points_with_boundary), int(g1.lowerBorder), int(g1.upperBorder),
                                  None if g1.spacing is None else _f(g1.spacing), [_f(x) for x in g1.coords], [_f(x) for x in g1.weights],
                                  int(g1.level_to_num_points_1d(int(g.levelvector[q])))]
        return comps
    comps = probe() if st['probe_first'] else None
    vals_arr = keep(sc(req))
    vals = [[_f(x) for x in v] for v in vals_arr]
    # axis (b): an equal FRESH copy of the points object must give the identical answer
    fresh = np.array(req, copy=True) if isinstance(req, np.ndarray) else [tuple(p) for p in req]
    vals_fresh = [[_f(x) for x in v] for v in sc(fresh)]
    if comps is None:
        comps = probe()
    # axis (i): a level vector that is NOT in the scheme (anisotropic, large, level 0), given as the caller's own array
    extra = None
    if st.get('extra_lv'):
        lv = watch.add('level vector of the extra probe in step %d' % k, np.array(st['extra_lv']))
        ep, ew = sc.get_points_and_weights_component_grid(lv)
        extra = [[int(x) for x in grid.levelToNumPoints(lv)], int(sc.get_num_points_component_grid(lv, False)),
                 [tuple(_f(x) for x in p) for p in ep], [_f(x) for x in ew]]
    # all sparse grid points: interpolation must reproduce f there (oracle)
    allp = sorted(set(p for comp in comps for p in comp[2]))
    nodal_all = len(allp)
    if len(allp) > NODAL_CAP and not st.get('no_cap'):
        stride = len(allp) // NODAL_CAP + 1
        allp = allp[::stride] + allp[-3:]
    nodal = []
    if allp:
        iv = sc(allp)
        nodal = [[p, [_f(x) for x in i], [float(x) for x in f.comps(p)]] for p, i in zip(allp, iv)]
    # tensor-grid request must agree with point-wise request; coordinates in the order given (unsorted, with duplicates)
    gridvals = None
    if st['grid_eval'] and pts:
        m = 6 if d <= 3 else 3
        coords = watch.add('grid coordinates of step %d' % k, [[p[q] for p in pts[:m]] for q in range(d)])
        gv = keep(sc.interpolate_grid(coords))
        pv = sc(list(itertools.product(*coords)))
        gridvals = [[[_f(y) for y in x] for x in gv], [[_f(y) for y in x] for x in pv], d if d > 3 else 0]
    pw_pts, pw_w = sc.get_points_and_weights()
    keep(pw_pts); keep(pw_w)
    pw_len = [len(pw_pts), len(pw_w)]
    pw_int = [0.0] * nout
    pw_abs = 0.0
    for p, w in zip(pw_pts, pw_w):
        fv = f.comps(tuple(p))
        for q in range(nout):
            pw_int[q] += float(w) * fv[q]
            pw_abs += abs(float(w) * fv[q])
    pw = [[tuple(_f(x) for x in p), _f(w)] for p, w in zip(pw_pts, pw_w)] if st['want_pw'] else None
    try:
        sc.check_combi_scheme()
        selfcheck = None
    except BaseException as e:
        selfcheck = type(e).__name__
    # axis (c): overwrite everything the calls returned, then ask again - nothing the object keeps may have changed
    overwritten = 0
    for x in returned:
        try:
            if isinstance(x, np.ndarray) and x.size and x.flags.writeable:
                x[...] = SENTINEL if x.dtype.kind == 'f' else -7
                overwritten += 1
            elif isinstance(x, list) and x:
                for q in range(len(x)):
                    x[q] = tuple([SENTINEL] * d)
                overwritten += 1
        except (TypeError, ValueError):
            pass
    alias = []
    vals2 = [[_f(x) for x in v] for v in sc(req)]
    if vals2 != vals:
        alias.append('interpolated values after the returned arrays were overwritten')
    for g, comp in list(zip(scheme, comps))[:3]:
        p2, w2 = sc.get_points_and_weights_component_grid(g.levelvector)
        if [tuple(_f(x) for x in p) for p in p2] != comp[2] or [_f(x) for x in w2] != comp[3] or [int(x) for x in grid.levelToNumPoints(g.levelvector)] != comp[0]:
            alias.append('component grid %s after the returned arrays were overwritten' % [int(x) for x in g.levelvector])
    p2, w2 = sc.get_points_and_weights()
    if len(p2) != pw_len[0] or (pw is not None and [[tuple(_f(x) for x in p), _f(w)] for p, w in zip(p2, w2)] != pw):
        alias.append('get_points_and_weights after the returned arrays were overwritten')
    if [_f(x) for x in np.atleast_1d(sc.operation.get_result())] != integral:
        alias.append('operation.get_result after the returned result was overwritten')
    if [[[int(x) for x in g.levelvector], _f(g.coefficient)] for g in sc.scheme] != sch:
        alias.append('scheme after the returned arrays were overwritten')
    return dict(scheme=sch, comps=comps, vals=vals, integral=integral, nodal=nodal, nodal_all=nodal_all,
                gridvals=gridvals, pw_integral=pw_int, pw_abs=pw_abs, pw_len=pw_len, pw=pw, total_points=total_points, total_naive=total_naive, selfcheck=selfcheck, attrs=attrs,
                err=None if err is None else _f(err), extra=extra, vals_fresh=vals_fresh, alias=alias, overwritten=overwritten, observers=observers)


# --------------------------------------------------------------------------------------------------------------- oracle
def closef(x, y, scale=1.0):
    return abs(x - y) <= TOLF * (abs(x) + abs(y) + scale)


def hat_integral(o, fs):
    """analytic integral of a hierarchical hat function given as fs = [1, j, i]"""
    v = Fr(1)
    for k in range(len(o['a'])):
        h = (o['b'][k] - o['a'][k]) / 2 ** fs[1][k]
        v *= h / 2 if fs[2][k] in (0, 2 ** fs[1][k]) else h
    return v


def in_index_set(st, d, j):
    # index set of the truncated standard scheme: l >= lmin, sum(l - lmin) <= lmax - lmin ; a hat of level j_d < lmin lives on level lmin
    eff = [max(x, st['lmin']) for x in j]
    return sum(x - st['lmin'] for x in eff) <= st['lmax'] - st['lmin']


def rtol_collision(o, st):
    """np.isclose(points, a) / (points, b) in Grid.points_not_zero flags an INTERIOR node when the mesh width of the finest level
    is below atol + rtol * |bound| (numpy defaults 1e-8, 1e-5)"""
    for k in range(len(o['a'])):
        h = float(o['b'][k] - o['a'][k]) / 2 ** max(st['lmax'], 0)
        if h <= 1e-8 + 1e-5 * abs(float(o['a'][k])) or h <= 1e-8 + 1e-5 * abs(float(o['b'][k])):
            return True
    return False


def sparse_grid_points(o, st):
    """the sparse grid of the requested index set {l >= lmin, |l - lmin|_1 <= lmax - lmin}, from the property statement"""
    d, lmin, n = len(o['a']), st['lmin'], st['lmax'] - st['lmin']
    pts = set()
    if n < 0:
        return pts
    fa = [float(x) for x in o['a']]; fw = [float(x) for x in (o['b'][k] - o['a'][k] for k in range(d))]
    axes_cache = {}
    for lv in itertools.product(range(lmin, st['lmax'] + 1), repeat=d):
        if sum(x - lmin for x in lv) != n:
            continue
        axes = []
        for k in range(d):
            if (k, lv[k]) not in axes_cache:
                rng_i = range(0, 2 ** lv[k] + 1) if o['boundary'] else range(1, 2 ** lv[k])
                # a_k + (b_k - a_k) * i / 2^l is exact in binary64 for the dyadic boxes generated here
                axes_cache[(k, lv[k])] = [fa[k] + fw[k] * i / 2 ** lv[k] for i in rng_i]
            axes.append(axes_cache[(k, lv[k])])
        pts.update(itertools.product(*axes))
    return pts


def oracle(c, st, r):
    """Property predicate on the implementation alone. Returns (clause, message) or None."""
    o = c['objs'][st['obj']]
    d = c['d']
    nout = len(c['fss'])
    S = fscale(c)            # magnitude of the function values: every comparison is relative to it (no absolute thresholds)
    if r.get('extra'):
        npnts, num, pts, w = r['extra']
        if num != len(pts) or len(pts) != len(w) or len(set(pts)) != len(pts):
            return 'numpoints', 'grid of level vector %s (not in the scheme) announces %d points, returns %d points and %d weights' % (
                st['extra_lv'], num, len(pts), len(w))
    # the reported number of points of each component grid matches the points it returns; points and weights aligned
    coef = {}
    for (lv, cf), comp in zip(r['scheme'], r['comps']):
        npnts, num, pts, w, only_pts = comp
        if num != len(pts) or num != len(only_pts):
            return 'numpoints', 'component grid %s announces %d points but returns %d (get_points_component_grid: %d)' % (lv, num, len(pts), len(only_pts))
        if len(pts) != len(w):
            return 'numpoints', 'component grid %s: %d points but %d weights' % (lv, len(pts), len(w))
        if len(set(pts)) != len(pts):
            return 'numpoints', 'component grid %s returns duplicate points' % (lv,)
        if sorted(pts) != sorted(only_pts):
            return 'numpoints', 'component grid %s: get_points_component_grid differs from get_points_and_weights_component_grid' % (lv,)
        for p in pts:
            coef[p] = coef.get(p, 0) + cf
    # every point of the union has component-grid coefficients summing to 1
    for p, s in coef.items():
        if s != 1:
            return 'coeffsum', 'sparse grid point %s has component-grid coefficients summing to %s' % (list(p), s)
    # the union of the component grids is exactly the sparse grid of the REQUESTED levels
    want = sparse_grid_points(o, st)
    if set(coef) != want:
        return 'union', 'union of the component-grid points (%d points) is not the sparse grid of the requested lmin=%d lmax=%d (%d points)' % (
            len(coef), st['lmin'], st['lmax'], len(want))
    if r.get('total_naive') is not None and r['total_naive'] != sum(len(comp[2]) for comp in r['comps']):
        return 'total-points', 'get_total_num_points(distinct_function_evals=False) reports %d, the component grids return %d points in total' % (
            r['total_naive'], sum(len(comp[2]) for comp in r['comps']))
    if r['total_points'] != len(coef):
        return 'total-points', 'get_total_num_points reports %d, the component grids hold %d distinct points' % (r['total_points'], len(coef))
    if r['selfcheck']:
        return 'selfcheck', 'StandardCombi.check_combi_scheme raised %s' % r['selfcheck']
    # nodal exactness: an arbitrary function is reproduced at every point of the sparse grid
    for p, iv, fv in r['nodal']:
        for k in range(nout):
            if not closef(iv[k], fv[k], scale=S):
                return 'nodal', 'combined interpolant (output %d) at sparse grid point %s is %r, function value %r' % (k, list(p), iv[k], fv[k])
    if r.get('vals_fresh') is not None and r['vals_fresh'] != r['vals']:
        return 'object-reuse', 'the interpolated values for the points object handed over (%s%s) differ from those for an equal fresh copy: %r vs %r' % (
            st.get('pts_form'), ', same object as in the previous request' if st.get('pts_same') else '', r['vals'][:3], r['vals_fresh'][:3])
    if r['gridvals'] and (len(r['gridvals'][0]) != len(r['gridvals'][1]) or any(
            not closef(x, y, scale=S) for xs, ys in zip(r['gridvals'][0], r['gridvals'][1]) for x, y in zip(xs, ys))):
        return 'gridvals', 'interpolate_grid differs from point-wise interpolation'
    # the point/weight list of the whole combination carries the combined quadrature
    if r['pw_len'][0] != r['pw_len'][1]:
        return 'points-weights', 'get_points_and_weights returns %d points and %d weights' % tuple(r['pw_len'])
    for k in range(nout):
        if not closef(r['pw_integral'][k], r['integral'][k], scale=r['pw_abs']):
            return 'points-weights', 'sum of weight*f over get_points_and_weights is %r, perform_operation returned %r' % (r['pw_integral'][k], r['integral'][k])
    if c.get('ref') and r['err'] is not None:
        ref = ref_solution(c)
        want_err = math.sqrt(sum((r['integral'][k] - ref[k]) ** 2 for k in range(nout)))
        if not closef(r['err'], want_err, scale=0.0):
            return 'ref-error', 'perform_operation reports the error %r, |result - reference|_2 = %r' % (r['err'], want_err)
    if c.get('ref') and r['err'] is None:
        return 'ref-error', 'perform_operation reports no error although a reference solution was given'
    # exactness on the sparse-grid space: hierarchical hats inside the index set are interpolated (everywhere) and integrated exactly
    f = None
    for k, fs in enumerate(c['fss']):
        if fs[0] != 1 or st['lmax'] < st['lmin']:
            continue
        j, i = fs[1], fs[2]
        bnd = any(i[q] in (0, 2 ** j[q]) for q in range(d))
        hierarchical = all((i[q] % 2 == 1) or j[q] <= st['lmin'] for q in range(d))
        if hierarchical and in_index_set(st, d, j) and (o['boundary'] or not bnd):
            want_i = S * float(hat_integral(o, fs))
            if not closef(r['integral'][k], want_i, scale=0.0):
                return 'hier-integral', 'hierarchical hat (level %s index %s) inside the index set integrated to %r, exact %r' % (j, i, r['integral'][k], want_i)
            f = f or make_function(c['fss'], o['a'], o['b'], S)
            for p, v in zip(st['pts'], r['vals']):
                fv = f.comps(tuple(float(x) for x in p))[k]
                if not closef(v[k], fv, scale=S):
                    return 'hier-interp', 'hierarchical hat inside the index set not reproduced at %s: %r vs %r' % ([str(x) for x in p], v[k], fv)
    return None


# ----------------------------------------------------------------------------------------------------------- comparison
def qf(x):
    """model rational (num den) -> float when exactly representable, else Fraction"""
    n, dd = x
    if dd & (dd - 1) == 0 and abs(n).bit_length() <= 53:
        return n / dd
    return Fr(n, dd)


def close(x, y, scale=1):
    if isinstance(x, float) and isinstance(y, float):
        return abs(x - y) <= TOLF * (abs(x) + abs(y) + scale)
    x, y = Fr(x), Fr(y)
    return abs(x - y) <= TOL * (abs(x) + abs(y) + Fr(scale))


def compare(c, st, r, m):
    """model vs implementation; returns list of differing observables"""
    diffs = []
    S = fscale(c)
    flag, msch, mcomps, mvals, mints, mtotal, mpw, mnaive = m
    if sorted([[lv, float(cf)] for lv, cf in msch]) != sorted(r['scheme']):
        return ['scheme']
    order = {tuple(lv): k for k, (lv, cf) in enumerate(msch)}
    for (lv, cf), comp in zip(r['scheme'], r['comps']):
        mc = mcomps[order[tuple(lv)]]
        npnts, num, pts, w, only_pts = comp
        if mc[0] != npnts:
            diffs.append('levelToNumPoints')
        mp = [tuple(qf(x) for x in p) for p in mc[1]]
        mw = [qf(x) for x in mc[2]]
        if sorted(mp) != sorted(pts):
            diffs.append('component points')
        else:
            sm, si = sorted(zip(mp, mw)), sorted(zip(pts, w))
            if sm != si and any(not close(x[1], y[1], 0) for x, y in zip(sm, si)):
                diffs.append('component weights')
    if len(mvals) != len(c['fss']) or any(len(mv) != len(r['vals']) for mv in mvals):
        diffs.append('interpolated values')
    elif any(not close(qf(x) * S, v[k], S) for k, mv in enumerate(mvals) for x, v in zip(mv, r['vals'])):
        diffs.append('interpolated values')
    if any(not close(qf(x) * S, y, S) for x, y in zip(mints, r['integral'])) or len(mints) != len(r['integral']):
        diffs.append('integral')
    if mtotal != r['total_points']:
        diffs.append('total number of points')
    if mnaive != r['total_naive']:
        diffs.append('total number of points with doubles')
    if st['want_pw'] and r['pw'] is not None:
        mm = sorted((tuple(qf(x) for x in p), qf(w)) for p, w in mpw)
        ii = sorted((p, w) for p, w in r['pw'])
        if [p for p, _ in mm] != [p for p, _ in ii] or any(not close(x[1], y[1], 0) for x, y in zip(mm, ii)):
            diffs.append('points and weights of the combination')
    return sorted(set(diffs))


def to_model(c, st):
    o = c['objs'][st['obj']]
    return (1, [1 if o['boundary'] else 0, o['a'], o['b'], st['lmin'], st['lmax'], c['fss'], st['pts'], 1 if st['want_pw'] else 0])


CORPUS = [
    dict(d=2, objs=[dict(a=[Fr(0), Fr(0)], b=[Fr(1), Fr(1)], boundary=True, integrator=None)], fss=[[0, [Fr(1), Fr(-2)], [Fr(1), Fr(2)]]], ref=False,
         steps=[dict(obj=0, lmin=1, lmax=3, pts=[[Fr(1, 4), Fr(3, 8)], [Fr(1), Fr(0)], [Fr(5, 32), Fr(1, 2)]], grid_eval=True, want_pw=True,
                     probe_first=False, pts_array=False)]),
    dict(d=3, objs=[dict(a=[Fr(-1), Fr(0), Fr(0)], b=[Fr(1), Fr(1), Fr(2)], boundary=False, integrator=None)], fss=[[1, [2, 1, 1], [1, 1, 1]]], ref=False,
         steps=[dict(obj=0, lmin=1, lmax=2, pts=[[Fr(-1, 2), Fr(1, 2), Fr(1)], [Fr(0), Fr(1, 4), Fr(1, 2)]], grid_eval=False, want_pw=False,
                     probe_first=True, pts_array=False)]),
    dict(d=1, objs=[dict(a=[Fr(0)], b=[Fr(2)], boundary=False, integrator=None)], fss=[[2, [Fr(1, 2)]]], ref=False,
         steps=[dict(obj=0, lmin=2, lmax=4, pts=[[Fr(1, 2)], [Fr(9, 16)]], grid_eval=True, want_pw=True, probe_first=False, pts_array=False)]),
    # seeded change C02 (scheme cached by lmax - lmin): (1,3) then (2,4) on one object
    dict(d=2, objs=[dict(a=[Fr(0), Fr(0)], b=[Fr(1), Fr(2)], boundary=True, integrator=None)], fss=[[1, [2, 3], [1, 3]]], ref=False,
         steps=[dict(obj=0, lmin=1, lmax=3, pts=[[Fr(1, 4), Fr(3, 8)]], grid_eval=False, want_pw=False, probe_first=False, pts_array=False),
                dict(obj=0, lmin=2, lmax=4, pts=[[Fr(1, 4), Fr(3, 8)]], grid_eval=False, want_pw=False, probe_first=False, pts_array=False)]),
    # seeded change C02r2 (boundary test ignoring the dimension): interior node 1 of dimension 0 equals the upper bound of dimension 1
    dict(d=2, objs=[dict(a=[Fr(0), Fr(0)], b=[Fr(2), Fr(1)], boundary=False, integrator=None)], fss=[[0, [Fr(1), Fr(1)], [Fr(1), Fr(1)]]], ref=False,
         steps=[dict(obj=0, lmin=1, lmax=2, pts=[[Fr(1), Fr(1, 2)], [Fr(3, 4), Fr(1, 4)]], grid_eval=True, want_pw=False, probe_first=False, pts_array=False)]),
    # known finding C02-isclose-far-box (exemplar): box far from the origin, boundary points off: the mesh width 1/128 is below
    # np.isclose's tolerance 1e-8 + 1e-5 * 1000, the interior nodes next to the boundary are treated as boundary nodes (value 0)
    dict(d=1, objs=[dict(a=[Fr(1000)], b=[Fr(1001)], boundary=False, integrator=None)], fss=[[0, [Fr(0)], [Fr(1)]]], ref=False,
         steps=[dict(obj=0, lmin=7, lmax=7, pts=[[Fr(1000) + Fr(1, 128)], [Fr(2001, 2)]], grid_eval=False, want_pw=False, probe_first=False,
                     pts_array=False, no_cap=True)]),
]


# ------------------------------------------------------------------------------------------------ size gates read from the source
GATE_SCOPE = {
    'sparseSpACE/Integrator.py': None, 'sparseSpACE/StandardCombi.py': None, 'sparseSpACE/Utils.py': None,
    'sparseSpACE/Function.py': ['Function'],
    'sparseSpACE/GridOperation.py': ['GridOperation', 'AreaOperation', 'Integration', 'Interpolation'],
    'sparseSpACE/Grid.py': ['Grid', 'Grid1d', 'TrapezoidalGrid', 'TrapezoidalGrid1D'],
    'sparseSpACE/combiScheme.py': None, 'sparseSpACE/ComponentGridInfo.py': None,
}


def scan_gates():
    """axis (h), for thresholds that exist only in the source UNDER TEST: integer literals and constant expressions (2**k, 1 << k,
    k * 1024, 10**k ...) of the files / classes on the C02 code path as they are in $VERIF_REPO, 64 < g <= 2**17"""
    import ast
    import os
    repo = os.environ.get('VERIF_REPO', '/repo')
    gates = {}

    def const(n):
        if isinstance(n, ast.Constant) and type(n.value) is int:
            return n.value
        if isinstance(n, ast.BinOp):
            l, r = const(n.left), const(n.right)
            if l is None or r is None:
                return None
            try:
                if isinstance(n.op, ast.Pow) and 0 <= r <= 40 and abs(l) <= 1024:
                    return l ** r
                if isinstance(n.op, ast.LShift) and 0 <= r <= 40:
                    return l << r
                if isinstance(n.op, ast.Mult):
                    return l * r
                if isinstance(n.op, ast.Add):
                    return l + r
                if isinstance(n.op, ast.Sub):
                    return l - r
            except (OverflowError, ValueError):
                return None
        return None
    for rel, classes in GATE_SCOPE.items():
        try:
            import warnings
            with warnings.catch_warnings():
                warnings.simplefilter('ignore')
                mod = ast.parse(open(os.path.join(repo, rel)).read())
        except (OSError, SyntaxError):
            continue
        roots = [mod] if classes is None else [st for st in mod.body if isinstance(st, ast.ClassDef) and st.name in classes]
        for root in roots:
            for n in ast.walk(root):
                v = const(n)
                if v is not None and 64 < v <= 2 ** 17:
                    gates.setdefault(v, '%s:%d' % (rel, getattr(n, 'lineno', 0)))
    return gates


def large_case_for(g):
    """the cheapest single-component-grid configuration whose grid has just over g points: d in {1, 2}, lmin = lmax = L, both flags"""
    best = None
    for d in (1, 2):
        for bd in (True, False):
            for L in range(1, 19):
                n = (2 ** L + (1 if bd else -1)) ** d
                if n > g:
                    if best is None or n < best[0]:
                        best = (n, d, bd, L)
                    break
    n, d, bd, L = best
    return dict(kind='large', d=d, boundary=bd, level=L, npoints=n, gate=g,
                a=[Fr(0), Fr(-1)][:d], b=[Fr(1), Fr(2)][:d], al=[Fr(1), Fr(-2)][:d], be=[Fr(3), Fr(1, 2)][:d])


def large_cases():
    gates = scan_gates()
    cases = [dict(large_case_for(g), where=w) for g, w in sorted(gates.items())]
    # sizes nobody has ever run are a gap by themselves: always one 1D grid with 2^17 + 1 points and one 2D grid with 513 x 513 points
    cases.append(dict(large_case_for(2 ** 17 - 1), gate=None, where='fixed'))
    cases.append(dict(kind='large', d=2, boundary=True, level=9, npoints=513 * 513, gate=None, where='fixed',
                      a=[Fr(0), Fr(-1)], b=[Fr(1), Fr(2)], al=[Fr(1), Fr(-2)], be=[Fr(3), Fr(1, 2)]))
    seen, out = set(), []
    for c in cases:
        key = (c['d'], c['boundary'], c['level'])
        if key not in seen:
            seen.add(key)
            out.append(c)
    return out, gates


def impl_large(c):
    """oracle-only: one large component grid, vector-valued integrand (constant 1, product of affine functions)"""
    import numpy as np
    from sparseSpACE.StandardCombi import StandardCombi
    from sparseSpACE.Grid import TrapezoidalGrid
    from sparseSpACE.GridOperation import Integration
    from sparseSpACE.Function import Function
    al = [float(x) for x in c['al']]; be = [float(x) for x in c['be']]

    class F(Function):
        def output_length(self):
            return 2

        def eval(self, x):
            p = 1.0
            for k in range(len(x)):
                p *= al[k] + be[k] * x[k]
            return np.array([1.0, p])
    a = np.array([float(x) for x in c['a']]); b = np.array([float(x) for x in c['b']])
    grid = TrapezoidalGrid(a=a, b=b, boundary=c['boundary'])
    sc = StandardCombi(a, b, operation=Integration(f=F(), grid=grid, dim=c['d']))
    scheme, err, result = sc.perform_operation(c['level'], c['level'])
    lv = scheme[0].levelvector
    return dict(integral=[float(x) for x in result], scheme=[[[int(x) for x in g.levelvector], float(g.coefficient)] for g in scheme],
                announced=int(sc.get_num_points_component_grid(lv, False)), total=int(sc.get_total_num_points()))


def large_expected(c):
    """exact trapezoidal sums of the constant 1 and of prod_d (al_d + be_d x_d) on the uniform grid of 2^L intervals per dimension"""
    one, prod = Fr(1), Fr(1)
    n = 2 ** c['level']
    for k in range(c['d']):
        a, b, al, be = c['a'][k], c['b'][k], c['al'][k], c['be'][k]
        h = (b - a) / n
        inner_cnt = n - 1
        inner_sum_x = inner_cnt * a + h * Fr(n * (n - 1), 2)
        s1 = h * inner_cnt
        sp = h * (al * inner_cnt + be * inner_sum_x)
        if c['boundary']:
            s1 += h
            sp += h / 2 * ((al + be * a) + (al + be * b))
        one *= s1
        prod *= sp
    return [one, prod]


def oracle_large(c, r):
    if r['scheme'] != [[[c['level']] * c['d'], 1.0]]:
        return 'scheme', 'scheme %s for lmin = lmax = %d' % (r['scheme'], c['level'])
    if r['announced'] != c['npoints'] or r['total'] != c['npoints']:
        return 'total-points', 'grid with %d points: announced %d, get_total_num_points %d' % (c['npoints'], r['announced'], r['total'])
    want = large_expected(c)
    for k, name in enumerate(('the constant 1', 'a product of affine functions')):
        if not closef(r['integral'][k], float(want[k]), scale=0.0):
            return 'large-grid-integral', 'component grid with %d points (level %d, d=%d, boundary=%s): %s integrates to %r, the trapezoidal sum is %r' % (
                c['npoints'], c['level'], c['d'], c['boundary'], name, r['integral'][k], float(want[k]))
    return None


def run_large(chk):
    cases, gates = large_cases()
    chk.extra['size_gates_in_source'] = {str(g): w for g, w in sorted(gates.items())}
    res = run_impl(impl_large, cases, limit=600)
    for c, (status, r) in zip(cases, res):
        chk.count('large oracle-only case: %d points (gate %s)' % (c['npoints'], c['gate']))
        sig = dict(boundary=c['boundary'], large=True)
        if status != 'ok':
            chk.violation('corr:C02/run', 'impl-exception', dict(sig, exc=r[0] if r else status), c, dict(impl=str(r)))
            continue
        why = oracle_large(c, r)
        if why:
            chk.violation('oracle:std_combi', 'property-predicate', dict(sig, clause=why[0]), c, dict(why=why[1], clause=why[0], gate=c['gate'], where=c['where']))
    return len(cases)



def confirm_and_report(chk, pending):
    """every worker process runs many cases one after the other: a violation may be due to state an EARLIER case left behind in
    the process (class-level caches ...). Re-run each violating history alone in a fresh process: only a history that fails on its
    own is a replayable failing input; the others are reported too, marked as needing the process history."""
    import json as _json
    pending.sort(key=lambda v: len(_json.dumps(v[3], default=str)))
    confirmed_sigs = set()
    tries = {}
    for check, kind, sig, hist, detail, k in pending:
        sk = (kind, str(sorted(sig.items())))
        alone = None
        if sk not in confirmed_sigs and tries.get(sk, 0) < 3 and sum(tries.values()) < 30:
            tries[sk] = tries.get(sk, 0) + 1
            status, rr = run_impl(impl_run, [hist], limit=300)[0]
            if kind == 'impl-exception':
                alone = status != 'ok' or any(x.get('observer_exception') for x in rr)
            elif k in ('mutated', 'alias'):
                alone = status != 'ok' or bool(rr[-1].get(k))
            else:
                alone = status != 'ok' or (k < len(rr) and oracle(hist, hist['steps'][k], rr[k]) is not None)
            if alone:
                confirmed_sigs.add(sk)
        if alone is False:
            detail = dict(detail, standalone='does NOT fail when the history runs alone in a fresh process: state left behind by earlier '
                                             'cases of the same worker process (class-level / module-level cache) is involved')
            chk.violation(check, kind + '/process-state', sig, hist, detail, failing_input=False)
        else:
            chk.violation(check, kind, sig, hist, dict(detail, standalone='confirmed in a fresh process' if alone else 'not re-run'))


def sig_of(c, k, clause=None):
    st = c['steps'][k]
    o = c['objs'][st['obj']]
    s = dict(boundary=o['boundary'], rtol_collision=rtol_collision(o, st), history=k > 0, objects=len(c['objs']))
    if clause:
        s['clause'] = clause
    return s


def run(chk):
    t0 = time.time()
    # source-derived model: regenerate coq/Gen/TrapGrid1DGen.v from the working tree BEFORE the obligations are built, so that the
    # C02_gen_* theorems (Props/C02gen.v) are re-checked against TrapezoidalGrid1D as it is now
    gen_info = _c02_gen.regenerate(chk)
    chk.coq_obligations(extra_props=_c02_gen.EXTRA_PROPS)
    gen_problem = _c02_gen.diagnose(chk, gen_info)
    t1 = time.time()
    n = chk.n(100, 2500)
    cases = CORPUS + big_cases(random.Random(chk.seed + 1)) + [gen_case(chk.rng, chk.tier) for _ in range(n)]
    impl = run_impl(impl_run, cases, limit=300)
    t2 = time.time()
    flat = [(ci, k) for ci, c in enumerate(cases) for k in range(len(c['steps']))]
    mres = run_model(2, [to_model(cases[ci], cases[ci]['steps'][k]) for ci, k in flat], nproc=8)
    # 1D grid objects: the attribute values Grid1d.set_current_area stored, against Model/TrapGrid1DArea.v + grid1 / weights1
    areq = {}
    for ci, k in flat:
        status, rr = impl[ci]
        if status != 'ok':
            continue
        st = cases[ci]['steps'][k]
        o = cases[ci]['objs'][st['obj']]
        for key in rr[k].get('attrs', {}):
            dim, lev = map(int, key.split(':'))
            areq.setdefault((o['boundary'], o['a'][dim], o['b'][dim], lev), None)
        if rr[k].get('extra'):
            for dim, lev in enumerate(st['extra_lv']):
                areq.setdefault((o['boundary'], o['a'][dim], o['b'][dim], lev), None)
    akeys = list(areq)
    for key, mr in zip(akeys, run_model(2, [(2, [1 if bd else 0, a, b, lev]) for bd, a, b, lev in akeys], nproc=4)):
        areq[key] = mr
    # the tolerant boundary test of the code (Model/StdCombiTol.v), on the steps where it can differ from exact equality
    tolreq = [(ci, k) for ci, k in flat if impl[ci][0] == 'ok' and not cases[ci]['objs'][cases[ci]['steps'][k]['obj']]['boundary']
              and rtol_collision(cases[ci]['objs'][cases[ci]['steps'][k]['obj']], cases[ci]['steps'][k]) and cases[ci]['steps'][k]['pts']]
    tolres = {}
    if tolreq:
        reqs = []
        for ci, k in tolreq:
            c, st = cases[ci], cases[ci]['steps'][k]
            o = c['objs'][st['obj']]
            for variant in (0, 1):
                reqs.append((3, [variant, o['a'], o['b'], st['lmin'], st['lmax'], c['fss'], st['pts']]))
        out = run_model(2, reqs, nproc=4)
        for j, key in enumerate(tolreq):
            tolres[key] = (out[2 * j], out[2 * j + 1])
    # interpolate_grid against the code-shaped matrix accumulation of Model/StdCombiVec.v (rows in itertools.product order)
    gridreq = [(ci, k) for ci, k in flat if impl[ci][0] == 'ok' and impl[ci][1][k].get('gridvals')]
    gridres = {}
    if gridreq:
        reqs = []
        for ci, k in gridreq:
            c, st = cases[ci], cases[ci]['steps'][k]
            o = c['objs'][st['obj']]
            mm = 6 if c['d'] <= 3 else 3
            coords = [[p[q] for p in st['pts'][:mm]] for q in range(c['d'])]
            reqs.append((4, [1 if o['boundary'] else 0, o['a'], o['b'], st['lmin'], st['lmax'], c['fss'], coords]))
        for key, mr in zip(gridreq, run_model(2, reqs, nproc=8)):
            gridres[key] = mr
    t3 = time.time()
    keys, samples = [], []
    search = []
    pending = []        # (check, kind, sig, history, detail, step) of implementation-side violations, confirmed standalone below
    for (ci, k), m in zip(flat, mres):
        full = cases[ci]
        st = full['steps'][k]
        o = full['objs'][st['obj']]
        hist = dict(full, steps=full['steps'][:k + 1])      # the history up to and including this step (replayable)
        status, rr = impl[ci]
        d = full['d']
        for key in ('d=%d' % d, 'boundary=%s' % o['boundary'], 'span=%d' % (st['lmax'] - st['lmin']), 'lmin=%d' % st['lmin'], 'step#%d' % k,
                    'objects=%d' % len(full['objs']), 'step-on-object#%d' % st['obj'], 'outputs=%d' % len(full['fss']),
                    'integrator=%s' % o.get('integrator'), 'reference=%s' % bool(full.get('ref')), 'evalpoints=%s' % (
                        '0' if not st['pts'] else '1-9' if len(st['pts']) < 10 else '100-999' if len(st['pts']) < 1000 else '>=1000'),
                    'pts-as-ndarray=%s' % st['pts_array'], 'levels-as-numpy-int=%s' % bool(st.get('np_levels')), 'box-as-python-lists=%s' % bool(o.get('ab_lists')), 'grid_eval=%s' % st['grid_eval'], 'probe-before-interpolation=%s' % st['probe_first'],
                    'rtol_collision=%s' % rtol_collision(o, st),
                    'far-box=%s' % any(abs(x) >= 100 for x in o['a'])):
            chk.count(key)
        for fs in full['fss']:
            chk.count('fkind=%d' % fs[0])
        if status != 'ok':
            if k == 0:
                pending.append(('corr:C02/run', 'impl-exception', {'exc': rr[0] if rr else status}, full, dict(impl=str(rr)), None))
            continue
        r = rr[k]
        if r.get('observer_exception'):
            pending.append(('corr:C02/observer', 'impl-exception', {'exc': r['observer_exception'].split(' ')[0], 'observer': True}, hist,
                            dict(impl=r['observer_exception']), None))
            continue
        for key in ('magnitude of f=2^%d' % full.get('fscale', 0), 'box given as=%s' % (o.get('ab_form') or 'array'),
                    'bound objects shared between two object triples=%s' % any(x.get('share_ab') for x in full['objs']),
                    'evaluation points given as=%s' % st.get('pts_form', 'tuples'), 'same points object as previous request=%s' % bool(st.get('pts_same')),
                    'observer calls between stop and observations=%d' % r.get('observers', 0),
                    'probe of a level vector outside the scheme=%s' % bool(r.get('extra')), 'sibling-class object alive=%s' % bool(full.get('sibling')),
                    'same-class siblings with other options alive=%d' % len(full.get('siblings', []))):
            chk.count(key)
        for sp in full.get('siblings', []):
            chk.count('sibling options: boundary=%s modified_basis=%s' % (sp['boundary'], sp['modified_basis']))
            chk.count('sibling domain shift=%s, dimension delta=%s' % (sp['shift'], sp['ddelta']))
        chk.count('returned objects overwritten with a sentinel', r.get('overwritten', 0))
        if r.get('mutated'):
            pending.append(('oracle:arguments', 'argument-mutated', dict(sig_of(full, k), what=r['mutated'][0].split(' of ')[0]), hist,
                            dict(why='the library modified objects it was given: %s' % r['mutated']), 'mutated'))
        if r.get('alias'):
            pending.append(('oracle:returned-objects', 'result-aliases-internal-state', dict(sig_of(full, k), what=r['alias'][0].split(' after ')[0]), hist,
                            dict(why='after overwriting the arrays/lists the calls had returned with a sentinel, the object answers differently: %s' % r['alias']), 'alias'))
        npts = sum(len(comp[2]) for comp in r['comps'])
        chk.count('component-grid points per step: %s' % ('<64' if npts < 64 else '64-199' if npts < 200 else '200-1023' if npts < 1024 else '1024-2047' if npts < 2048 else '>=2048'))
        big = max([len(comp[2]) for comp in r['comps']] or [0])
        chk.count('largest component grid: %s' % ('<64' if big < 64 else '64-199' if big < 200 else '200-1023' if big < 1024 else '>=1024'))
        if sx.is_err(m) or isinstance(m, tuple):
            chk.violation('corr:C02/run', 'model-rejects', {}, hist, dict(model=str(m)), failing_input=False)
            continue
        chk.traces += 1
        why = oracle(full, st, r)
        if why:
            pending.append(('oracle:std_combi', 'property-predicate', sig_of(full, k, why[0]), hist,
                            dict(why=why[1], clause=why[0], request=[st['lmin'], st['lmax']]), k))
        if m[0] != 1 and st['lmax'] >= st['lmin']:
            chk.violation('checker:std_eq_adaptive', 'closed-form-not-ie', {}, hist, dict(note='model closed form differs from adaptive init'),
                          failing_input=False)
        diffs = compare(full, st, r, m)
        for key, av in r['attrs'].items():
            dim, lev = map(int, key.split(':'))
            ma = areq.get((o['boundary'], o['a'][dim], o['b'][dim], lev))
            chk.count('1D grid objects compared')
            if ma is None or sx.is_err(ma) or isinstance(ma, tuple):
                diffs.append('1D grid attributes (model rejects)')
                continue
            if av[:4] != ma[:4] or av[7] != ma[0] or av[4] is None or not close(qf(ma[4]), av[4], 0):
                diffs.append('1D grid attributes (num_points, num_points_with_boundary, lowerBorder, upperBorder, spacing)')
            if [qf(x) for x in ma[5]] != av[5]:
                diffs.append('1D grid coords')
            if len(ma[6]) != len(av[6]) or any(not close(qf(x), y, 0) for x, y in zip(ma[6], av[6])):
                diffs.append('1D grid weights')
        if (ci, k) in tolres:
            # which boundary test does the code use?  the interpolated values must be those of one of the tolerant models
            def same(mv):
                return (not sx.is_err(mv)) and not isinstance(mv, tuple) and len(mv) == len(full['fss']) and all(
                    len(col) == len(r['vals']) and all(close(qf(x) * fscale(full), v[q], fscale(full)) for x, v in zip(col, r['vals'])) for q, col in enumerate(mv))
            m_np, m_dom = tolres[(ci, k)]
            s_np, s_dom = same(m_np), same(m_dom)
            variant = ('both models (indistinguishable on this step)' if s_np and s_dom else 'np.isclose (code before 5e45293)' if s_np
                       else 'domain-relative / exact (code since 5e45293)' if s_dom else 'neither')
            chk.count('boundary test observed on rtol_collision steps: ' + variant)
            if variant == 'neither':
                diffs.append('interpolated values (neither the np.isclose model nor the domain-relative model of the boundary test)')
        if (ci, k) in gridres:
            mg = gridres[(ci, k)]
            chk.count('interpolate_grid compared with the model (rows in cross-product order)')
            gv = r['gridvals'][0]
            if sx.is_err(mg) or isinstance(mg, tuple) or len(mg) != len(gv) or any(
                    len(mrow) != len(row) or any(not close(qf(x) * fscale(full), y, fscale(full)) for x, y in zip(mrow, row))
                    for mrow, row in zip(mg, gv)):
                diffs.append('interpolate_grid (matrix in cross-product order)')
        if r.get('extra'):
            mas = [areq.get((o['boundary'], o['a'][dim], o['b'][dim], lev)) for dim, lev in enumerate(st['extra_lv'])]
            if any(ma is None or sx.is_err(ma) or isinstance(ma, tuple) for ma in mas):
                diffs.append('grid of a level vector outside the scheme (model rejects)')
            else:
                npnts, num, epts, ew = r['extra']
                mp = list(itertools.product(*[[qf(x) for x in ma[5]] for ma in mas]))
                mw = [math.prod(ws) for ws in itertools.product(*[[qf(x) for x in ma[6]] for ma in mas])]
                if npnts != [ma[0] for ma in mas] or sorted(mp) != sorted(epts):
                    diffs.append('grid of a level vector outside the scheme: points')
                elif any(not close(float(x[1]), y[1], 0) for x, y in zip(sorted(zip(mp, mw)), sorted(zip(epts, ew)))):
                    diffs.append('grid of a level vector outside the scheme: weights')
        diffs = sorted(set(diffs))
        if diffs and (not why or any('neither the np.isclose' in x for x in diffs)):
            search.append((full, k))
            chk.violation('corr:C02/' + '+'.join(diffs), 'model-differs', dict(sig_of(full, k), observable=','.join(diffs)), hist,
                          dict(differs=diffs, impl_integral=str(r['integral']), model_integral=str([qf(x) for x in m[4]]),
                               impl_vals=str(r['vals'])[:400], model_vals=str([[qf(x) for x in mv] for mv in m[3]])[:400],
                               impl_total_points=r['total_points'], model_total_points=m[5]), failing_input=False)
        if d >= 2 and st['lmax'] > st['lmin']:
            keys.append((d, st['lmin'], st['lmax'], o['boundary'], str(o['a']), str(o['b']), str(full['fss']), k, st['obj']))
        if len(samples) < 3 and d >= 2 and st['lmax'] > st['lmin'] and k > 0:
            samples.append(dict(d=d, history=[[s['obj'], s['lmin'], s['lmax']] for s in full['steps'][:k + 1]],
                                objects=[dict(a=[str(x) for x in ob['a']], b=[str(x) for x in ob['b']], boundary=ob['boundary']) for ob in full['objs']],
                                f=str(full['fss']), integral=str(r['integral']), sparse_grid_points=r['nodal_all'], scheme=str(r['scheme'])))
    confirm_and_report(chk, pending)
    t4 = time.time()
    # failing-input search: for configurations where only the correspondence broke, look for a hierarchical hat function
    # (analytic interpolant/integral known) or a positive polynomial on the SAME history on which the implementation violates the property
    if search:
        rng = random.Random(chk.seed)
        extra = []
        for full, k in search[:20]:
            st = full['steps'][k]
            o = full['objs'][st['obj']]
            d = full['d']
            for t in range(6):
                if t == 0:
                    fs = [0, [Fr(1)] * d, [Fr(3)] * d]
                else:
                    j = [rng.randrange(1, max(st['lmin'], 1) + 1) if rng.random() < 0.5 else rng.randrange(1, max(st['lmax'], 1) + 1) for _ in range(d)]
                    if not in_index_set(st, d, j):
                        j = [max(st['lmin'], 1)] * d
                    fs = [1, j, [rng.randrange(0, 2 ** (jd - 1)) * 2 + 1 for jd in j]]
                steps = [dict(s, grid_eval=False, want_pw=False) for s in full['steps'][:k + 1]]
                steps[-1] = dict(steps[-1], pts=gen_pts(rng, d, o['a'], o['b'], 12), no_cap=True)
                extra.append((dict(full, fss=[fs], steps=steps), k))
        found = 0
        pending2 = []
        for (c2, k), (status, rr) in zip(extra, run_impl(impl_run, [e[0] for e in extra], limit=300)):
            if status == 'ok':
                why = oracle(c2, c2['steps'][k], rr[k])
                if why:
                    found += 1
                    pending2.append(('oracle:std_combi', 'property-predicate', sig_of(c2, k, why[0]), c2,
                                     dict(why=why[1], clause=why[0], found_by='failing-input search'), k))
        confirm_and_report(chk, pending2)
        chk.extra['failing_input_search'] = dict(configs=len(search), cases_tried=len(extra), failing_inputs_found=found)
    t5 = time.time()
    nlarge = run_large(chk)
    _c02_gen.finish(chk, gen_info, gen_problem)
    chk.extra['phase_seconds'] = dict(coq=round(t1 - t0, 1), implementation=round(t2 - t1, 1), model=round(t3 - t2, 1),
                                      compare_and_oracle=round(t4 - t3, 1), search=round(t5 - t4, 1), large_cases=round(time.time() - t5, 1))
    chk.extra['envelope'] = ENVELOPE
    chk.record_cases(len(cases) + nlarge, keys,
                     'histories of 1-3 requests on 1-2 (StandardCombi, TrapezoidalGrid, Integration) triples in one process: d 1..5, '
                     '0<=lmin, lmax-lmin in -1..3, dyadic boxes incl. boxes far from the origin / tiny boxes, boundary on/off, both integrators, '
                     'scalar and vector-valued f in {polynomial, hierarchical/nodal hat, nodal unit}, reference solution on/off, 0/6/205/1031 '
                     'evaluation points as tuples or ndarray, point-wise and tensor-grid requests, both observation orders; + 6 corpus + 7 large-size '
                     'cases; non-trivial = d>=2 and lmax>lmin; distinct by all parameters',
                     samples)


LESSON_AXES = {
    '(a) argument immutability': 'covered: a, b, reference_solution, evaluation points, grid coordinates and the caller\'s level-vector arrays are '
                                 'snapshotted at hand-over and compared after every step; oracle kind argument-mutated',
    '(b) argument object reuse': 'covered: the same bound objects for StandardCombi, TrapezoidalGrid and a second object triple; box as float array / '
                                 'int array / list / view of a parent; points as tuples / C / Fortran / strided view / float32; the same points object in '
                                 'consecutive requests; every request is repeated with an equal fresh copy (clause object-reuse)',
    '(c) returned-object aliasing': 'covered: every array/list returned in a step (result, interpolated values, component points/weights/counts, '
                                    'get_points_and_weights, interpolate_grid) is overwritten with a sentinel, then the object is asked again; oracle kind '
                                    'result-aliases-internal-state',
    '(d) magnitudes': 'covered: function values and reference scaled by 2^-60, 2^-20, 1, 2^10, 2^30; boxes at |a| = 100, 1000, 2^20 and tiny boxes; '
                      'all comparisons relative to the scale of f',
    '(e) public observer calls between steps': 'covered: 0-3 of get_total_num_points, check_combi_scheme, __call__, component-grid queries (also for '
                                               'level vectors outside the scheme), interpolate_grid, get_points_and_weights, levelToNumPoints between '
                                               'perform_operation and the observations; both observation orders. EXCLUDED: levelToNumPoints / '
                                               'get_num_points_component_grid BEFORE the first setCurrentArea (fresh object or empty scheme) raise '
                                               'AttributeError (level_to_num_points_1d reads the current area)',
    '(f) options that change between calls': 'covered: every step of a history draws its own (lmin, lmax), points, point container, tensor-grid request, '
                                             'level type, observers on ONE object; the dimension is fixed by the object (len(a))',
    '(g) shared state across instances': 'covered: two object triples (other boundary flag / other box / shared bound objects) and an object of the '
                                         'sibling class SimpsonGrid(1D: subclass of TrapezoidalGrid1D) alive and working in the same process; further '
                                         'live TrapezoidalGrid objects with every option combination (boundary x modified_basis), shifted domain of '
                                         'the same mesh width, other dimension, evaluated FIRST at the levels of the object under test (part of the '
                                         'case, so it replays); every '
                                         'violating history (also those of the failing-input search) is re-run alone in a fresh process',
    '(h) sizes beyond internal thresholds': 'covered: 1D grids with 2049 / 4097 / 8193 points, 2D 33x65, 1031 and 205 evaluation points, tensor requests '
                                            'up to 1296 points',
    '(i) value sets beyond the nice ones': 'covered: d = 1; lmin 0..12; level vectors outside the scheme (anisotropic, level 0, up to 7) as caller arrays; '
                                           'unsorted evaluation points and tensor-grid coordinates with duplicates; numpy.int64 levels. Not applicable: '
                                           'labels / CPython set order (the scheme is a list; the only set is in check_combi_scheme, which is observed)',
}

ENVELOPE = {
    'lessons of the blind seeding rounds': LESSON_AXES,
    'quantified axes (property text + anchored code)': {
        'dimension': '1..5 generated (5 only with small levels)',
        'lmin, lmax': '1<=lmin<=lmax (property); also lmin=0 and lmax<lmin (empty scheme) - outside the property, run and agree with the model',
        'box [a,b]': 'dyadic bounds, anisotropic widths 1/2..4, negative/positive, boxes far from the origin (|a| = 100, 1000, 2^20) and tiny '
                     'boxes next to 1; EXCLUDED: a_k >= b_k (linspace gives a non-increasing mesh: scipy interpn raises ValueError; integral is 0 or negative)',
        'boundary': 'on / off (modified_basis=True belongs to C08, not generated here)',
        'function': 'polynomial (not in the space), hierarchical / nodal hats in and outside the index set incl. boundary hats, nodal unit functions; '
                    'output_length 1 and 2',
        'interpolation request': 'point-wise (list of tuples / ndarray), tensor grid (interpolate_grid), 0 / 6 / 205 / 1031 points, points on the '
                                 'boundary of the box; EXCLUDED: points outside the box (scipy interpn raises ValueError: out of bounds)',
        'argument types': 'a, b as numpy arrays or Python lists; lmin, lmax as int or numpy.int64; evaluation points as list of tuples or 2D ndarray; '
                          'EXCLUDED: float levels (range() raises TypeError)',
        'constructor options': "TrapezoidalGrid(integrator=None|'old'), Integration(reference_solution=None|given), StandardCombi(print_output=False); "
                               'norm / log levels do not reach the anchored code',
        'histories': '1-3 perform_operation requests with different (lmin,lmax) on ONE object; two object triples (other boundary flag / other box) '
                     'interleaved in one process; observation order (component-grid probes before/after interpolation); repeated identical requests',
        'sizes': 'component grids up to 8193 (1D) and 2145 (2D) points, combination up to ~12000 points, 1031 evaluation points',
    }
}


def replay(chk, rep):
    c = rep['case']
    if c.get('kind') == 'large':
        for key in ('a', 'b', 'al', 'be'):
            c[key] = [Fr(x) for x in c[key]]
        status, r = run_impl(impl_large, [c], limit=600)[0]
        print('impl:', status, str(r)[:600])
        why = oracle_large(c, r) if status == 'ok' else ('exception', str(r))
        print('property predicate:', why or 'holds')
        return 1 if why else 0

    def fr(v):
        if isinstance(v, str):
            return Fr(v)
        if isinstance(v, list):
            return [fr(x) for x in v]
        return v
    for o in c['objs']:
        o['a'] = fr(o['a']); o['b'] = fr(o['b'])
    for st in c['steps']:
        st['pts'] = fr(st['pts'])
    c['fss'] = [[fs[0]] + [fr(x) if fs[0] != 1 else x for x in fs[1:]] for fs in c['fss']]
    status, rr = run_impl(impl_run, [c])[0]
    print('impl:', status, str(rr)[:1500])
    if status != 'ok':
        return 1
    bad = 0
    for k, (st, r) in enumerate(zip(c['steps'], rr)):
        m = run_model(2, [to_model(c, st)])[0]
        why = oracle(c, st, r)
        print('step', k, 'object', st['obj'], 'request', [st['lmin'], st['lmax']], 'property predicate:', why or 'holds',
              '; model differs in:', compare(c, st, r, m))
        bad += bool(why)
    return 1 if bad else 0
