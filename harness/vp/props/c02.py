"""C02: standard combination = sparse-grid interpolant. Correspondence model <-> StandardCombi/TrapezoidalGrid/Integration."""
import itertools
import random
from fractions import Fraction as Fr
from .. import sx
from ..impl import run_impl
from ..model import run_model

ASSUMPTIONS = ['exact-arithmetic model (Qc); inputs on dyadic lattices so that the float results are exact or within 1e-11 relative',
               'scipy.interpolate.interpn(method="linear") modelled as dimension-by-dimension piecewise-linear interpolation',
               'numpy linspace/inner/prod modelled exactly']

TOL = Fr(1, 10 ** 11)


def dy(rng, lo, hi, bits):
    return Fr(rng.randrange(lo * 2 ** bits, hi * 2 ** bits + 1), 2 ** bits)


def gen_case(rng, tier):
    d = rng.choice([1, 2, 2, 3, 3, 4] if tier == 'quick' else [1, 2, 2, 3, 3, 4, 4])
    lmin = rng.choice([1, 1, 2, 3]) if d <= 3 else rng.choice([1, 2])
    span = rng.choice([0, 1, 2, 3]) if d <= 2 else rng.choice([0, 1, 2]) if d == 3 else rng.choice([0, 1, 2])
    if d == 4 and lmin == 2:
        span = min(span, 1)
    lmax = lmin + span
    a = [dy(rng, -2, 1, 1) for _ in range(d)]
    b = [a[i] + rng.choice([Fr(1, 2), 1, 1, 2, 3]) for i in range(d)]
    boundary = rng.random() < 0.5
    kind = rng.choice([0, 0, 1, 1, 2])
    if kind == 0:
        fs = [0, [Fr(rng.randrange(-3, 4)) for _ in range(d)], [Fr(rng.randrange(-2, 3)) for _ in range(d)]]
    elif kind == 1:
        # hierarchical hat basis function: odd index on level j >= 1 (or level-lmin nodal hat), level chosen near the index set
        j = [rng.randrange(1, lmax + 2) for _ in range(d)]
        i = []
        for jd in j:
            if boundary and rng.random() < 0.15:
                i.append(rng.choice([0, 2 ** jd]))
            else:
                i.append(rng.randrange(0, 2 ** (jd - 1)) * 2 + 1)
        fs = [1, j, i]
    else:
        # nodal unit function at a point of a random component-like grid
        lv = [rng.randrange(1, lmax + 1) for _ in range(d)]
        p = [a[k] + (b[k] - a[k]) * Fr(rng.randrange(0 if boundary else 1, 2 ** lv[k] + (1 if boundary else 0)), 2 ** lv[k]) for k in range(d)]
        fs = [2, p]
    npts = 6
    pts = [[a[k] + (b[k] - a[k]) * Fr(rng.randrange(0, 2 ** 5 + 1), 2 ** 5) for k in range(d)] for _ in range(npts)]
    # follow-up requests on the SAME StandardCombi object (histories: stale state between requests must not leak)
    more = []
    if rng.random() < 0.6:
        for _ in range(rng.choice([1, 1, 2])):
            sh = rng.choice([-1, 1, 1, 0])
            l2 = max(1, lmin + sh)
            sp2 = span if rng.random() < 0.6 else max(0, span + rng.choice([-1, 1]))
            if d == 4:
                l2, sp2 = min(l2, 2), min(sp2, 1)
            if d == 3:
                sp2 = min(sp2, 2)
            more.append([l2, l2 + min(sp2, 3)])
    return dict(d=d, lmin=lmin, lmax=lmax, a=a, b=b, boundary=boundary, fs=fs, pts=pts, grid_eval=rng.random() < 0.5, more=more)


def make_function(fs, a, b):
    import numpy as np
    from sparseSpACE.Function import Function

    class F(Function):
        def output_length(self):
            return 1

        def eval(self, x):
            if fs[0] == 0:
                s = 0.0
                p = 1.0
                for k in range(len(x)):
                    s += float(fs[1][k]) * x[k] * x[k]
                    p *= (float(fs[2][k]) + x[k])
                return s + p
            if fs[0] == 1:
                v = 1.0
                for k in range(len(x)):
                    h = float(b[k] - a[k]) / 2 ** fs[1][k]
                    c = float(a[k]) + fs[2][k] * h
                    t = abs(x[k] - c) / h
                    v *= (1 - t) if t <= 1 else 0.0
                return v
            return 1.0 if all(float(fs[1][k]) == x[k] for k in range(len(x))) else 0.0
    return F()


def impl_run(c):
    import numpy as np
    from sparseSpACE.StandardCombi import StandardCombi
    from sparseSpACE.Grid import TrapezoidalGrid
    from sparseSpACE.GridOperation import Integration
    a = np.array([float(x) for x in c['a']]); b = np.array([float(x) for x in c['b']])
    f = make_function(c['fs'], c['a'], c['b'])
    grid = TrapezoidalGrid(a=a, b=b, boundary=c['boundary'])
    op = Integration(f=f, grid=grid, dim=c['d'])
    sc = StandardCombi(a, b, operation=op, print_output=False)
    out = []
    for (lmin, lmax) in [(c['lmin'], c['lmax'])] + [tuple(x) for x in c.get('more', [])]:
        out.append(impl_request(c, sc, grid, f, lmin, lmax))
    return out


def impl_request(c, sc, grid, f, lmin, lmax):
    import numpy as np
    scheme, err, result = sc.perform_operation(lmin, lmax)
    sch = [[[int(x) for x in g.levelvector], sx.rat(g.coefficient)] for g in scheme]
    comps = []
    for g in scheme:
        npnts = [int(x) for x in grid.levelToNumPoints(g.levelvector)]
        num = int(sc.get_num_points_component_grid(g.levelvector, False))
        pts, w = sc.get_points_and_weights_component_grid(g.levelvector)
        comps.append([npnts, num, [[sx.rat(x) for x in p] for p in pts], [sx.rat(x) for x in w]])
    pts = [tuple(float(x) for x in p) for p in c['pts']]
    vals = [sx.rat(v[0]) for v in sc(pts)]
    # all sparse grid points: interpolation must reproduce f there (oracle)
    allp = sorted(set(tuple(p) for comp in comps for p in map(tuple, comp[2])))
    nodal = None
    if allp:
        iv = sc([tuple(float(x) for x in p) for p in allp])
        fv = [f.eval(tuple(float(x) for x in p)) for p in allp]
        nodal = [[list(p), sx.rat(i[0]), sx.rat(v)] for p, i, v in zip(allp, iv, fv)]
    # tensor-grid request must agree with point-wise request
    gridvals = None
    if c['grid_eval']:
        coords = [sorted(set(float(p[k]) for p in c['pts'])) for k in range(c['d'])]
        gv = sc.interpolate_grid(coords)
        pv = sc(list(itertools.product(*coords)))
        gridvals = [[sx.rat(x[0]) for x in gv], [sx.rat(x[0]) for x in pv]]
    pw_pts, pw_w = sc.get_points_and_weights()
    pw = sum(float(w) * f.eval(tuple(p)) for p, w in zip(pw_pts, pw_w))
    return dict(scheme=sch, comps=comps, vals=vals, integral=sx.rat(result[0]), nodal=nodal, gridvals=gridvals,
                pw_integral=sx.rat(pw), total_points=int(sc.get_total_num_points()))


def close(x, y, scale=1):
    return abs(x - y) <= TOL * (abs(x) + abs(y) + scale)


def hat_integral(c):
    """analytic integral / exactness expectation for a hierarchical hat function given as fs = [1, j, i]"""
    v = Fr(1)
    for k in range(c['d']):
        h = (c['b'][k] - c['a'][k]) / 2 ** c['fs'][1][k]
        v *= h / 2 if c['fs'][2][k] in (0, 2 ** c['fs'][1][k]) else h
    return v


def in_index_set(c, j):
    # index set of the truncated standard scheme: l >= lmin, sum(l - lmin) <= lmax - lmin ; a hat of level j_d < lmin lives on level lmin
    eff = [max(x, c['lmin']) for x in j]
    return sum(x - c['lmin'] for x in eff) <= c['lmax'] - c['lmin']


def oracle(c, r):
    """Property predicate on the implementation alone."""
    # union of component points = sparse grid; coefficient sum 1 at each point; num points consistent
    coef = {}
    for (lv, cf), comp in zip(r['scheme'], r['comps']):
        npnts, num, pts, w = comp
        if num != len(pts):
            return 'component grid %s announces %d points but returns %d' % (lv, num, len(pts))
        if len(pts) != len(w):
            return 'component grid %s: %d points but %d weights' % (lv, len(pts), len(w))
        for p in set(map(tuple, pts)):
            coef[p] = coef.get(p, 0) + cf
    for p, s in coef.items():
        if s != 1:
            return 'sparse grid point %s has component-grid coefficients summing to %s' % ([str(x) for x in p], s)
    if r['nodal']:
        for p, iv, fv in r['nodal']:
            if not close(iv, fv):
                return 'combined interpolant at sparse grid point %s is %s, function value %s' % ([str(x) for x in p], float(iv), float(fv))
    if r['gridvals'] and any(not close(x, y) for x, y in zip(*r['gridvals'])):
        return 'interpolate_grid differs from point-wise interpolation'
    if c['fs'][0] == 1:
        j, i = c['fs'][1], c['fs'][2]
        bnd = any(i[k] in (0, 2 ** j[k]) for k in range(c['d']))
        hierarchical = all((i[k] % 2 == 1) or j[k] <= c['lmin'] for k in range(c['d']))
        if hierarchical and in_index_set(c, j) and (c['boundary'] or not bnd):
            want = hat_integral(c)
            if not close(r['integral'], want):
                return 'hierarchical hat (level %s index %s) inside the index set integrated to %s, exact %s' % (j, i, float(r['integral']), float(want))
            f = make_function(c['fs'], c['a'], c['b'])
            for p, v in zip(c['pts'], r['vals']):
                fv = sx.rat(f.eval(tuple(float(x) for x in p)))
                if not close(v, fv):
                    return 'hierarchical hat inside the index set not reproduced at %s: %s vs %s' % ([str(x) for x in p], float(v), float(fv))
    return None


def sparse_grid_points(c):
    """the sparse grid of the requested index set {l >= lmin, |l - lmin|_1 <= lmax - lmin}, from the property statement"""
    d, lmin, n = c['d'], c['lmin'], c['lmax'] - c['lmin']
    pts = set()
    for lv in itertools.product(range(lmin, c['lmax'] + 1), repeat=d):
        if sum(x - lmin for x in lv) != n:
            continue
        axes = []
        for k in range(d):
            rng_i = range(0, 2 ** lv[k] + 1) if c['boundary'] else range(1, 2 ** lv[k])
            axes.append([c['a'][k] + (c['b'][k] - c['a'][k]) * Fr(i, 2 ** lv[k]) for i in rng_i])
        pts.update(itertools.product(*axes))
    return pts


def oracle_union(c, r):
    got = set(tuple(p) for comp in r['comps'] for p in map(tuple, comp[2]))
    want = sparse_grid_points(c)
    if got != want:
        return 'union of the component-grid points (%d points) is not the sparse grid of the requested lmin=%d lmax=%d (%d points)' % (
            len(got), c['lmin'], c['lmax'], len(want))
    return None


def compare(c, r, m):
    """model vs implementation; returns list of differing observables"""
    diffs = []
    flag, msch, mcomps, mvals, mint = m
    msch_c = sorted([[lv, sx.rat(cf)] for lv, cf in msch])
    if msch_c != sorted(r['scheme']):
        diffs.append('scheme')
        return diffs
    order = {tuple(lv): k for k, (lv, cf) in enumerate(msch)}
    for (lv, cf), comp in zip(r['scheme'], r['comps']):
        mc = mcomps[order[tuple(lv)]]
        npnts, num, pts, w = comp
        if mc[0] != npnts:
            diffs.append('levelToNumPoints')
        mp = [[sx.q(x) for x in p] for p in mc[1]]
        mw = [sx.q(x) for x in mc[2]]
        if sorted(map(tuple, mp)) != sorted(map(tuple, pts)):
            diffs.append('component points')
        elif sorted(zip(map(tuple, mp), mw)) != sorted(zip(map(tuple, pts), w)):
            if any(not close(x[1], y[1]) for x, y in zip(sorted(zip(map(tuple, mp), mw)), sorted(zip(map(tuple, pts), w)))):
                diffs.append('component weights')
    if any(not close(sx.q(x), y) for x, y in zip(mvals, r['vals'])) or len(mvals) != len(r['vals']):
        diffs.append('interpolated values')
    if not close(sx.q(mint), r['integral']):
        diffs.append('integral')
    return sorted(set(diffs))


def to_model(c):
    return (0, [1 if c['boundary'] else 0, c['a'], c['b'], c['lmin'], c['lmax'], c['fs'], c['pts']])


def requests(c):
    """the single-request views of a history case"""
    return [dict(c, more=[])] + [dict(c, lmin=x[0], lmax=x[1], more=[]) for x in c.get('more', [])]


CORPUS = [
    dict(d=2, lmin=1, lmax=3, a=[Fr(0), Fr(0)], b=[Fr(1), Fr(1)], boundary=True, fs=[0, [Fr(1), Fr(-2)], [Fr(1), Fr(2)]],
         pts=[[Fr(1, 4), Fr(3, 8)], [Fr(1), Fr(0)], [Fr(5, 32), Fr(1, 2)]], grid_eval=True),
    dict(d=3, lmin=1, lmax=2, a=[Fr(-1), Fr(0), Fr(0)], b=[Fr(1), Fr(1), Fr(2)], boundary=False, fs=[1, [2, 1, 1], [1, 1, 1]],
         pts=[[Fr(-1, 2), Fr(1, 2), Fr(1)], [Fr(0), Fr(1, 4), Fr(1, 2)]], grid_eval=False),
    dict(d=1, lmin=2, lmax=4, a=[Fr(0)], b=[Fr(2)], boundary=False, fs=[2, [Fr(1, 2)]], pts=[[Fr(1, 2)], [Fr(9, 16)]], grid_eval=True),
]


def run(chk):
    chk.coq_obligations()
    n = chk.n(150, 3000)
    cases = CORPUS + [gen_case(chk.rng, chk.tier) for _ in range(n)]
    impl = run_impl(impl_run, cases, limit=300)
    flat = [(ci, k, cr) for ci, c in enumerate(cases) for k, cr in enumerate(requests(c))]
    mres = run_model(2, [to_model(cr) for _, _, cr in flat], nproc=16)
    keys, samples = [], []
    search = []
    for (ci, k, c), m in zip(flat, mres):
        full = cases[ci]
        hist = dict(full, more=full.get('more', [])[:k])      # the history up to and including this request (replayable)
        st, rr = impl[ci]
        chk.count('d=%d' % c['d']); chk.count('boundary=%s' % c['boundary']); chk.count('fkind=%d' % c['fs'][0])
        chk.count('span=%d' % (c['lmax'] - c['lmin'])); chk.count('request#%d' % k)
        if st != 'ok':
            if k == 0:
                chk.violation('corr:C02/run', 'impl-exception', {'exc': rr[0] if rr else st}, full, dict(impl=str(rr)))
            continue
        r = rr[k]
        if sx.is_err(m) or isinstance(m, tuple):
            chk.violation('corr:C02/run', 'model-rejects', {}, hist, dict(model=str(m)), failing_input=False)
            continue
        chk.traces += 1
        why = oracle(c, r)
        if why:
            chk.violation('oracle:std_combi', 'property-predicate', {'boundary': c['boundary'], 'fkind': c['fs'][0], 'request': min(k, 1)}, hist, dict(why=why, request=[c['lmin'], c['lmax']]))
        if m[0] != 1:
            chk.violation('checker:std_eq_adaptive', 'closed-form-not-ie', {}, hist, dict(note='model closed form differs from adaptive init'),
                          failing_input=False)
        diffs = compare(c, r, m)
        if diffs and not why:
            # a scheme/points mismatch against the requested (lmin, lmax) is itself a property violation when the union of the
            # component grids is not the sparse grid of the requested index set: evaluate that clause on the implementation
            why2 = oracle_union(c, r)
            if why2:
                chk.violation('oracle:std_combi_union', 'property-predicate', {'boundary': c['boundary'], 'fkind': c['fs'][0], 'request': min(k, 1)}, hist,
                              dict(why=why2, request=[c['lmin'], c['lmax']], differs=diffs))
            else:
                search.append(c)
                chk.violation('corr:C02/' + '+'.join(diffs), 'model-differs', {'observable': ','.join(diffs)}, hist,
                              dict(differs=diffs, impl_integral=str(r['integral']), model_integral=str(sx.q(m[4])),
                                   impl_vals=str(r['vals'])[:400], model_vals=str([sx.q(x) for x in m[3]])[:400]), failing_input=False)
        if c['d'] >= 2 and c['lmax'] > c['lmin']:
            keys.append((c['d'], c['lmin'], c['lmax'], c['boundary'], str(c['a']), str(c['b']), str(c['fs']), k))
        if len(samples) < 3 and c['d'] >= 2 and c['lmax'] > c['lmin'] and k > 0:
            samples.append(dict(d=c['d'], history=[[full['lmin'], full['lmax']]] + full['more'][:k], boundary=c['boundary'], a=[str(x) for x in c['a']],
                                b=[str(x) for x in c['b']], f=str(c['fs']), integral=str(r['integral']),
                                sparse_grid_points=len(r['nodal'] or []), scheme=str(r['scheme'])))
    # failing-input search: for configurations where only the correspondence broke, look for a hierarchical hat function
    # (analytic interpolant/integral known) on the SAME configuration on which the implementation violates the property
    if search:
        rng = random.Random(chk.seed)
        extra = []
        for c in search[:20]:
            for _ in range(6):
                j = [rng.randrange(1, c['lmin'] + 1) if rng.random() < 0.5 else rng.randrange(1, c['lmax'] + 1) for _ in range(c['d'])]
                if not in_index_set(c, j):
                    j = [c['lmin']] * c['d']
                i = [rng.randrange(0, 2 ** (jd - 1)) * 2 + 1 for jd in j]
                extra.append(dict(c, fs=[1, j, i], grid_eval=False))
        found = 0
        for c2, (st, r) in zip(extra, run_impl(impl_run, extra, limit=300)):
            if st == 'ok':
                why = oracle(c2, r)
                if why:
                    found += 1
                    chk.violation('oracle:std_combi', 'property-predicate', {'boundary': c2['boundary'], 'fkind': 1}, c2, dict(why=why, found_by='failing-input search'))
        chk.extra['failing_input_search'] = dict(configs=len(search), cases_tried=len(extra), failing_inputs_found=found)
    chk.record_cases(len(cases), keys,
                     'random (d 1..4, 1<=lmin<=lmax<=lmin+3, dyadic box, boundary on/off, f in {polynomial, hierarchical hat, nodal unit}, '
                     '6 dyadic evaluation points, point-wise and tensor-grid requests); non-trivial = d>=2 and lmax>lmin; distinct by all parameters',
                     samples)


def replay(chk, rep):
    c = rep['case']
    def fr(v):
        if isinstance(v, str):
            return Fr(v)
        if isinstance(v, list):
            return [fr(x) for x in v]
        return v
    for k in ('a', 'b', 'pts'):
        c[k] = fr(c[k])
    c['fs'] = [c['fs'][0]] + [fr(x) if c['fs'][0] != 1 else x for x in c['fs'][1:]]
    c.setdefault('more', [])
    st, rr = run_impl(impl_run, [c])[0]
    print('impl:', st, str(rr)[:1500])
    if st != 'ok':
        return 1
    bad = 0
    for cr, r in zip(requests(c), rr):
        m = run_model(2, [to_model(cr)])[0]
        why = oracle(cr, r) or oracle_union(cr, r)
        print('request', [cr['lmin'], cr['lmax']], 'property predicate:', why or 'holds', '; model differs in:', compare(cr, r, m))
        bad += bool(why)
    return 1 if bad else 0
